#!/usr/bin/env python3
# Generates /verif/MANIFEST.json from /verif/props/*.json (claimed checks) and
# /verif/props/not_applicable.json (reasons for every property not claimed).
import json, glob, os, subprocess
V='/verif'
props={}
for l in open(V+'/properties.jsonl'):
    d=json.loads(l); props[d['id']]=d
claimed={}
for f in sorted(glob.glob(V+'/props/C*.json')):
    d=json.load(open(f)); claimed[d['id']]=d
na=json.load(open(V+'/props/not_applicable.json'))
checks=[]
for pid,d in sorted(claimed.items()):
    text=d.get('level_text') or ('Contracts on the real functions; every obligation discharged by SMT for all inputs. Proved clauses: '+'; '.join(d.get('clauses_proved',[])))
    note=d.get('level_note') or ('Out of reach: '+'; '.join(d.get('clauses_out_of_reach',[]))+'. Trusted base: govc VC generator, go/ssa, SMT solvers, library models; assumptions listed in the evidence file.')
    checks.append({
        "property_id":pid,
        "quick_cmd":"/verif/bin/govc check --property %s --tier quick"%pid,
        "thorough_cmd":"/verif/bin/govc check --property %s --tier thorough"%pid,
        "evidence_file":"/verif/evidence/%s.json"%pid,
        "replay_cmd_template":"/verif/bin/govc replay {path}",
        "engine":"govc",
        "level_claimed":{"category":"proof","text":text,"design_ref":"DESIGN.md §5 "+pid},
        "level_note":note,
        "technique":"contracts (requires/ensures/invariants/frames) on the real Go functions + weakest-precondition VCs over go/ssa + SMT (z3 4.8.12, z3 5.1.0, cvc5) with counterexample replay via go test -overlay",
    })
nalist=[]
for pid in sorted(props):
    if pid in claimed: continue
    if pid not in na: raise SystemExit("no reason for "+pid)
    nalist.append({"property_id":pid,"reason":na[pid]})
try:
    commits=subprocess.check_output(['git','-C','/repo','log','--format=%h %s','--grep=^verif hook'],text=True).strip().split('\n')
    commits=[c.split()[0] for c in commits if c]
except Exception:
    commits=[]
m={
 "version":1,
 "setup_cmd":"cd /verif/engine && GOFLAGS=-mod=vendor GOPROXY=off go build -o /verif/bin/govc . && /verif/bin/govc warm",
 "hooks":{"guard":"verif","enable":"-tags verif","baseline_off_cmd":"for m in . ./cmd/keeper; do (cd /repo/$m && go test -mod=mod -json -vet=off -count=1 -timeout 25m ./...); done","source_commits":commits,"add_only":True},
 "engines":[{"name":"govc","path":"/verif/engine","serves_properties":sorted(claimed),"kind_free_text":"VC generator over go/ssa with Gobra-style contracts in build-tagged files (zz_verif_contracts.go, mirrored under /verif/contracts); z3 4.8.12 + z3 5.1.0 + cvc5 1.0 portfolio; counterexample replay through go test -overlay; must-fail/must-pass selftest corpus (govc selftest)"}],
 "checks":checks,
 "notes":"Technique: contract-based deductive verification of the real code. Every claimed check is a proof-level check of named clauses; clauses out of reach are listed per check in level_note and in the evidence file. See DESIGN.md.",
 "not_applicable":nalist,
}
json.dump(m,open(V+'/MANIFEST.json','w'),indent=1)
print("claimed",sorted(claimed),"n/a",len(nalist))
