#!/bin/bash
# usage: mkcase.sh <property> <name> <expect...> -- <repo-rel-file> <python-expr transforming s>
# Creates /verif/selftest/<property>/<name>.diff from an in-place textual edit of one file.
set -e
prop=$1; name=$2; expect=$3; why=$4; file=$5; shift 5
tmp=$(mktemp -d /var/tmp/mkcase-XXXX)
mkdir -p $tmp/a/$(dirname $file) $tmp/b/$(dirname $file)
cp /repo/$file $tmp/a/$file
cp /repo/$file $tmp/b/$file
python3 - "$tmp/b/$file" "$@" <<'PY'
import sys
p=sys.argv[1]
s=open(p).read()
pairs=sys.argv[2:]
for i in range(0,len(pairs),2):
    old,new=pairs[i],pairs[i+1]
    if s.count(old)!=1:
        print("pattern occurs %d times: %r"%(s.count(old),old)); sys.exit(1)
    s=s.replace(old,new)
open(p,'w').write(s)
PY
mkdir -p /verif/selftest/$prop
out=/verif/selftest/$prop/$name.diff
{ echo "# property: $prop"; echo "# expect: $expect"; echo "# why: $why"; (cd $tmp && diff -u a/$file b/$file || true); } > $out
rm -rf $tmp
echo wrote $out
