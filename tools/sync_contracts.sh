#!/bin/bash
# Copies every /verif/contracts/<pkg>/zz_verif_contracts.go into /repo/<pkg>/ and makes one
# small hook commit per changed package (files are guarded by //go:build verif).
set -e
cd /verif/contracts
for f in $(find . -name zz_verif_contracts.go | sort); do
  d=$(dirname $f | sed 's|^\./||')
  if ! cmp -s $f /repo/$d/zz_verif_contracts.go; then
    cp $f /repo/$d/zz_verif_contracts.go
    (cd /repo && gofmt -l $d/zz_verif_contracts.go >/dev/null && git add $d/zz_verif_contracts.go && git commit -q -m "verif hook: contracts for package $d (build tag verif, comment-only + lemma functions)" && echo "committed $d")
  fi
done
