#!/usr/bin/env python3
# Applies every seeded change in /verif/seeded to /repo (git apply), runs the quick check of its
# property, undoes the change, records the failing obligations in meta.json (detected_by) and
# writes /verif/seeded/RESULTS.md. Never leaves /repo modified.
import json, os, subprocess, sys
V='/verif'
REPO=os.environ.get('VERIF_REPO','/repo')
rows=[]
TABLE_ONLY='--table-only' in sys.argv
args=[a for a in sys.argv[1:] if not a.startswith('--')]
allids=sorted(d for d in os.listdir(V+'/seeded') if os.path.isdir(V+'/seeded/'+d))
ids=[] if TABLE_ONLY else (args or allids)
for sid in ids:
    prop=sid.split('-')[0]
    meta_p=f'{V}/seeded/{sid}/meta.json'
    meta=json.load(open(meta_p))
    r=subprocess.run(['git','-C',REPO,'apply',f'{V}/seeded/{sid}/patch.diff'],capture_output=True,text=True)
    if r.returncode!=0:
        rows.append((sid,'APPLY-FAILED','',meta)); continue
    try:
        out=subprocess.run([V+'/bin/govc','check','--property',prop,'--tier','quick','--no-evidence'],capture_output=True,text=True)
    finally:
        subprocess.run(['git','-C',REPO,'checkout','--','.'])
    fails=[l[len('FAILED-OBLIGATION '):] for l in out.stdout.splitlines() if l.startswith('FAILED-OBLIGATION')]
    names=[f.split(' [')[0] for f in fails]
    det='; '.join(names[:4]) if out.returncode==1 and names else ''
    meta['detected_by']=det if det else 'NOT DETECTED (exit %d)'%out.returncode
    meta['checked_with']=f'tools/seeded_table.py {sid} (git -C /repo apply; govc check --property {prop} --tier quick --no-evidence; git -C /repo checkout -- .)'
    meta.setdefault('confirmed_by_builder','tools/confirm_seeded.sh in a scratch worktree: demo passes without the patch, fails with it; existing tests of the touched package pass with it')
    json.dump(meta,open(meta_p,'w'),indent=1)
    rows.append((sid,'detected' if det else 'MISSED',det,meta))
    print(sid,'detected' if det else 'MISSED',det[:150],flush=True)
# the table always lists every seed: the ones not re-run in this invocation with the result
# recorded in their meta.json by the last run that did include them
ran={r[0] for r in rows}
for sid in allids:
    if sid in ran: continue
    meta=json.load(open(f'{V}/seeded/{sid}/meta.json'))
    det=meta.get('detected_by','')
    if not det: rows.append((sid,'NOT RUN','',meta))
    elif det.startswith('NOT DETECTED'): rows.append((sid,'MISSED','',meta))
    else: rows.append((sid,'detected',det,meta))
rows.sort(key=lambda r:(r[0].split('-')[0],int(r[0].split('-')[1])))
with open(V+'/seeded/RESULTS.md','w') as f:
    f.write('| seed | files | what the change does | result | failing obligations |\n|---|---|---|---|---|\n')
    for sid,res,det,meta in rows:
        summ=(meta.get('summary') or '').split('. ')[0][:220].replace('|','/')
        f.write(f"| {sid} | {', '.join(meta.get('files',[]))} | {summ} | {res} | {det.replace('|','/')} |\n")
print('detected',sum(1 for r in rows if r[1]=='detected'),'of',len(rows))
