#!/bin/bash
# Runs the whole must-fail / must-pass corpus, four properties at a time.
# usage: selftest_all.sh [outdir]
out=${1:-/var/tmp/selftest}
mkdir -p $out
ls /verif/selftest | xargs -P 4 -I{} sh -c "/verif/bin/govc selftest --property {} > $out/{}.log 2>&1"
cat $out/*.log | grep -c "selftest ok"
cat $out/*.log | grep "BAD" || echo "no BAD cases"
