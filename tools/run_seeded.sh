#!/bin/bash
# Applies each seeded change to /repo, runs the quick check of its property, undoes it.
# usage: run_seeded.sh [seed-id ...]
cd /verif
ids="$@"; [ -z "$ids" ] && ids=$(ls seeded)
for id in $ids; do
  prop=${id%%-*}
  git -C /repo apply /verif/seeded/$id/patch.diff || { echo "$id APPLY-FAILED"; continue; }
  out=$(/verif/bin/govc check --property $prop --tier quick --no-evidence 2>&1); rc=$?
  git -C /repo checkout -- . 
  echo "== $id exit=$rc $(echo "$out" | grep -c '^VIOLATION') violations"
  echo "$out" | grep "^FAILED-OBLIGATION" | cut -c1-200 | head -5
done
