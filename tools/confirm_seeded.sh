#!/bin/bash
# usage: confirm_seeded.sh <worktree> <seeddir> <pkgdir-for-demo> <test-regex> <pkgs-to-test...>
# Confirms in the scratch worktree: demo fails with patch, passes without; existing tests pass with patch.
wt=$1; sd=$2; demodir=$3; rx=$4; shift 4
export GOFLAGS=-mod=mod GOPROXY=off
cd $wt || exit 1
git checkout -q -- . 2>/dev/null; find . -name zz_verif_contracts.go -delete
cp $sd/demo_test.go $demodir/zz_seed_demo_test.go
echo "== without patch: demo"; go test -count=1 -run "$rx" ./$demodir 2>&1 | tail -2
git apply $sd/patch.diff || { echo APPLY-FAILED; exit 1; }
echo "== with patch: build"; go build ./... 2>&1 | tail -2
echo "== with patch: demo (must fail)"; go test -count=1 -run "$rx" ./$demodir 2>&1 | tail -3
rm -f $demodir/zz_seed_demo_test.go
echo "== with patch: existing tests"; go test -count=1 "$@" 2>&1 | tail -6
git checkout -q -- . ; find . -name zz_verif_contracts.go -delete
