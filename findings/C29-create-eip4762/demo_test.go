// Demonstration for the C29 finding: copy into /repo/core/vm/ and run
//   go test -count=1 -run TestVerifCreateWitnessOOGLeavesAccount ./core/vm/
// Under EIP-4762 rules, EVM.create returns ErrOutOfGas from the contract-init witness charge
// AFTER CreateAccount/CreateContract/SetNonce(address,1) and WITHOUT RevertToSnapshot: the
// failed frame leaves a created account behind.

package vm

import (
	"math/big"
	"testing"

	"github.com/ethereum/go-ethereum/common"
	"github.com/ethereum/go-ethereum/core/state"
	"github.com/ethereum/go-ethereum/core/tracing"
	"github.com/ethereum/go-ethereum/core/types"
	"github.com/ethereum/go-ethereum/params"
	"github.com/holiman/uint256"
)

func TestVerifCreateWitnessOOGLeavesAccount(t *testing.T) {
	cfg := *params.MergedTestChainConfig
	cfg.UBTTime = new(uint64)
	statedb, _ := state.New(types.EmptyRootHash, state.NewDatabaseForTesting())
	ctx := BlockContext{
		CanTransfer: func(db StateDB, addr common.Address, amount *uint256.Int) bool { return true },
		Transfer: func(db StateDB, sender, recipient common.Address, amount *uint256.Int, _ *params.Rules) {
			db.SubBalance(sender, amount, tracing.BalanceChangeTransfer)
			db.AddBalance(recipient, amount, tracing.BalanceChangeTransfer)
		},
		BlockNumber: big.NewInt(1),
		Time:        1,
		Random:      &common.Hash{},
	}
	evm := NewEVM(ctx, statedb, &cfg, Config{})
	if !evm.chainRules.IsEIP4762 {
		t.Skip("EIP-4762 rules not active in this configuration")
	}
	evm.SetTxContext(TxContext{AccessEvents: state.NewAccessEvents()})
	caller := common.Address{0xca}
	statedb.CreateAccount(caller)
	statedb.SetNonce(caller, 7, tracing.NonceChangeUnspecified)
	addr := common.Address{0xc0, 0xde}

	// find a gas amount for which the pre-check charge succeeds and the init charge fails
	for gas := uint64(1); gas < 20000; gas += 50 {
		snap := statedb.Snapshot()
		evm.SetTxContext(TxContext{AccessEvents: state.NewAccessEvents()})
		_, _, _, err := evm.create(caller, []byte{0x00}, NewGasBudget(gas, 0), new(uint256.Int), addr, CREATE)
		if err == ErrOutOfGas && (statedb.Exist(addr) || statedb.GetNonce(addr) != 0) {
			t.Fatalf("gas=%d: create failed with %v but the frame's state changes were not rolled back: exist=%v nonce=%d",
				gas, err, statedb.Exist(addr), statedb.GetNonce(addr))
		}
		statedb.RevertToSnapshot(snap)
	}
}
