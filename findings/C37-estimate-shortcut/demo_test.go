package gasestimator

import (
	"context"
	"math/big"
	"testing"

	"github.com/ethereum/go-ethereum/common"
	"github.com/ethereum/go-ethereum/consensus"
	"github.com/ethereum/go-ethereum/consensus/ethash"
	"github.com/ethereum/go-ethereum/core"
	"github.com/ethereum/go-ethereum/core/state"
	"github.com/ethereum/go-ethereum/core/tracing"
	"github.com/ethereum/go-ethereum/core/types"
	"github.com/ethereum/go-ethereum/params"
	"github.com/holiman/uint256"
)

// demoChain is a minimal core.ChainContext: no ancestors, fake ethash engine.
type demoChain struct {
	config *params.ChainConfig
	engine consensus.Engine
}

func (c *demoChain) Config() *params.ChainConfig                           { return c.config }
func (c *demoChain) Engine() consensus.Engine                              { return c.engine }
func (c *demoChain) CurrentHeader() *types.Header                          { return nil }
func (c *demoChain) GetHeader(common.Hash, uint64) *types.Header           { return nil }
func (c *demoChain) GetHeaderByNumber(uint64) *types.Header                { return nil }
func (c *demoChain) GetHeaderByHash(common.Hash) *types.Header             { return nil }
func (c *demoChain) GetTd(hash common.Hash, number uint64) *big.Int        { return nil }
func (c *demoChain) GetCanonicalHash(number uint64) common.Hash            { return common.Hash{} }
func (c *demoChain) GetBlock(hash common.Hash, number uint64) *types.Block { return nil }

var (
	demoSender    = common.HexToAddress("0x00000000000000000000000000000000000a11ce")
	demoRecipient = common.HexToAddress("0x0000000000000000000000000000000000000b0b") // no code
)

// demoOptions builds a post-merge block context on top of a fresh state in
// which only the sender is funded with the given balance.
func demoOptions(t *testing.T, balance *uint256.Int) *Options {
	t.Helper()
	config := params.MergedTestChainConfig

	statedb, err := state.New(types.EmptyRootHash, state.NewDatabaseForTesting())
	if err != nil {
		t.Fatalf("state.New: %v", err)
	}
	statedb.SetBalance(demoSender, balance, tracing.BalanceChangeUnspecified)

	var (
		excessBlobGas uint64
		blobGasUsed   uint64
	)
	header := &types.Header{
		ParentHash:    common.Hash{1},
		Number:        big.NewInt(1),
		Time:          1,
		Difficulty:    big.NewInt(0), // post-merge
		GasLimit:      30_000_000,
		BaseFee:       big.NewInt(params.InitialBaseFee), // 1 gwei
		ExcessBlobGas: &excessBlobGas,
		BlobGasUsed:   &blobGasUsed,
	}
	return &Options{
		Config: config,
		Chain:  &demoChain{config: config, engine: ethash.NewFaker()},
		Header: header,
		State:  statedb,
	}
}

// demoTransfer mirrors what internal/ethapi TransactionArgs.ToMessage builds
// for eth_estimateGas (SkipNonceChecks, SkipTransactionChecks set), for a plain
// 1 wei transfer with the given fee cap (0 == "no fee fields specified").
func demoTransfer(feeCap uint64) *core.Message {
	return &core.Message{
		From:                  demoSender,
		To:                    &demoRecipient,
		Value:                 uint256.NewInt(1),
		GasLimit:              0, // unspecified by the caller
		GasPrice:              uint256.NewInt(feeCap),
		GasFeeCap:             uint256.NewInt(feeCap),
		GasTipCap:             uint256.NewInt(feeCap),
		Data:                  nil,
		SkipNonceChecks:       true,
		SkipTransactionChecks: true,
	}
}

// TestEstimateShortcutIgnoresGasCap: a non-zero gasCap below 21000 must never be
// exceeded by a successfully returned estimate.
func TestEstimateShortcutIgnoresGasCap(t *testing.T) {
	const gasCap = uint64(10_000)

	opts := demoOptions(t, uint256.NewInt(params.Ether))
	call := demoTransfer(0)

	estimate, _, err := Estimate(context.Background(), call, opts, gasCap)
	t.Logf("Estimate(gasCap=%d) = (estimate=%d, err=%v)", gasCap, estimate, err)
	if err == nil && estimate > gasCap {
		t.Fatalf("estimate exceeds gas cap: estimate=%d gasCap=%d err=%v", estimate, gasCap, err)
	}
}

// TestEstimateShortcutRespectsFunds: sender can fund strictly less than 21000 gas
// at the given fee cap (allowance = (balance-value)/feeCap = 20999). A returned
// estimate must be fundable: estimate*feeCap + value <= balance.
func TestEstimateShortcutRespectsFunds(t *testing.T) {
	var (
		feeCap  = uint64(params.InitialBaseFee) // == header base fee, passes the 1559 checks
		value   = uint64(1)
		balance = new(uint256.Int).SetUint64(20_999*feeCap + value + (feeCap - 1)) // 1 wei short of funding 21000 gas
	)
	opts := demoOptions(t, balance)
	call := demoTransfer(feeCap)

	estimate, _, err := Estimate(context.Background(), call, opts, 0)
	t.Logf("Estimate(balance=%v, feeCap=%d, value=%d) = (estimate=%d, err=%v)", balance, feeCap, value, estimate, err)
	if err == nil {
		need := new(uint256.Int).Mul(uint256.NewInt(estimate), uint256.NewInt(feeCap))
		need.Add(need, uint256.NewInt(value))
		if need.Cmp(balance) > 0 {
			t.Fatalf("estimate not fundable: estimate=%d feeCap=%d value=%d need=%v balance=%v", estimate, feeCap, value, need, balance)
		}
	}
}
