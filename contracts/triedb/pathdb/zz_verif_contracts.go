//go:build verif

// Machine-checked contracts for package pathdb (verification only).

package pathdb

// C19 (index block framing): layout  data | restart[0..n-1] as big-endian uint16 | n (1 byte).
// be16 at absolute position p of blob
//@ pure func be16(blob []byte, p int) int { return blob[p] * 256 + blob[p + 1] }

// parseIndexBlock never panics, whatever the bytes are, and accepts exactly the well-formed
// framings: at least one restart, restart offsets strictly increasing and inside the data.
//@ func parseIndexBlock(blob []byte) (restarts []uint16, data []byte, err error)
//@   serves C19
//@   ensures err == nil ==> len(blob) >= 1 && len(restarts) == blob[len(blob) - 1] && len(restarts) >= 1 && len(blob) >= 2 * len(restarts) + 1
//@   ensures err == nil ==> len(data) == len(blob) - 2 * len(restarts) - 1 && (forall k int :: 0 <= k && k < len(data) ==> data[k] == blob[k])
//@   ensures err == nil ==> (forall k int :: 0 <= k && k < len(restarts) ==> restarts[k] == be16(blob, len(data) + 2 * k) && restarts[k] < len(data))
//@   ensures err == nil ==> (forall k int :: 1 <= k && k < len(restarts) ==> restarts[k - 1] < restarts[k])
//@   ensures forall k int :: 0 <= k && k < len(blob) ==> blob[k] == old(blob[k])
//@   loop 1 "i < restartLen"
//@     invariant 0 <= i && i <= restartLen && restartLen == len(restarts) && dataEnd == len(blob) - 2 * restartLen - 1 && dataEnd >= 0 && restartLen == blob[len(blob) - 1]
//@     invariant forall k int :: 0 <= k && k < i ==> restarts[k] == be16(blob, dataEnd + 2 * k) && restarts[k] < dataEnd
//@     invariant forall k int :: 1 <= k && k < i ==> restarts[k - 1] < restarts[k]
//@     invariant forall k int :: 0 <= k && k < len(blob) ==> blob[k] == old(blob[k])

//@ func (d *indexBlockDesc) empty() (e bool)
//@   serves C19
//@   ensures e == (d.entries == 0)

// a 64-bit value is the sum of its eight big-endian digits
//@ lemma be64Recompose(v int)
//@   serves C19
//@   requires 0 <= v && v < 18446744073709551616
//@   ensures v == ((v / 72057594037927936) % 256) * 72057594037927936 + ((v / 281474976710656) % 256) * 281474976710656 + ((v / 1099511627776) % 256) * 1099511627776 + ((v / 4294967296) % 256) * 4294967296 + ((v / 16777216) % 256) * 16777216 + ((v / 65536) % 256) * 65536 + ((v / 256) % 256) * 256 + v % 256

//@ func (d *indexBlockDesc) encode() (buf []byte)
//@   serves C19
//@   uses be64Recompose(d.max)
//@   ensures isfresh(buf) && len(buf) == 14 + len(d.extBitmap)
//@   ensures buf[0] * 72057594037927936 + buf[1] * 281474976710656 + buf[2] * 1099511627776 + buf[3] * 4294967296 + buf[4] * 16777216 + buf[5] * 65536 + buf[6] * 256 + buf[7] == d.max
//@   ensures buf[8] * 256 + buf[9] == d.entries
//@   ensures buf[10] * 16777216 + buf[11] * 65536 + buf[12] * 256 + buf[13] == d.id
//@   ensures forall k int :: 0 <= k && k < len(d.extBitmap) ==> buf[14 + k] == d.extBitmap[k]

//@ func (d *indexBlockDesc) decode(blob []byte)
//@   serves C19
//@   requires len(blob) >= 14
//@   ensures d.max == blob[0] * 72057594037927936 + blob[1] * 281474976710656 + blob[2] * 1099511627776 + blob[3] * 4294967296 + blob[4] * 16777216 + blob[5] * 65536 + blob[6] * 256 + blob[7]
//@   ensures d.entries == blob[8] * 256 + blob[9]
//@   ensures d.id == blob[10] * 16777216 + blob[11] * 65536 + blob[12] * 256 + blob[13]
//@   ensures len(d.extBitmap) == len(blob) - 14 && (forall k int :: 0 <= k && k < len(d.extBitmap) ==> d.extBitmap[k] == blob[14 + k])
//@   modifies *d

// The descriptor survives an encode/decode round trip.
//@ func verifLemmaDescRoundTrip(d *indexBlockDesc, d2 *indexBlockDesc) (ok bool)
//@   serves C19
//@   requires d != d2
//@   ensures d2.max == d.max && d2.entries == d.entries && d2.id == d.id && len(d2.extBitmap) == len(d.extBitmap)
//@   ensures forall k int :: 0 <= k && k < len(d.extBitmap) ==> d2.extBitmap[k] == d.extBitmap[k]
//@   modifies *d2

func verifLemmaDescRoundTrip(d *indexBlockDesc, d2 *indexBlockDesc) (ok bool) {
	d2.decode(d.encode())
	return true
}

//@ func (b *blockWriter) estimateFull(ext []uint16) (full bool)
//@   serves C19
//@   ensures full == (len(b.data) + 8 + 2 * len(ext) > 4096)
//@   nowrap

//@ func (b *blockWriter) empty() (e bool)
//@   serves C19
//@   ensures e == (b.desc.entries == 0)

//@ func (b *blockWriter) last() (id uint64)
//@   serves C19
//@   ensures id == ite(b.desc.entries == 0, 0, b.desc.max)

// finish appends the restart table and its length byte to the data: exactly the layout
// parseIndexBlock reads back.
//@ func (b *blockWriter) finish() (out []byte)
//@   serves C19
//@   requires len(b.restarts) <= 255
//@   ensures len(out) == len(b.data) + 2 * len(b.restarts) + 1
//@   ensures forall k int :: 0 <= k && k < len(b.data) ==> out[k] == old(b.data[k])
//@   ensures forall k int :: 0 <= k && k < len(b.restarts) ==> be16(out, len(b.data) + 2 * k) == b.restarts[k]
//@   ensures out[len(out) - 1] == len(b.restarts)
//@   modifies b.data[..]
//@   loop 1 "range b.restarts"
//@     invariant 0 - 1 <= rangeindex && rangeindex <= len(b.restarts) - 1 && len(buf) == 2 * len(b.restarts) + 1
//@     invariant forall k int :: 0 <= k && k <= rangeindex ==> be16(buf, 2 * k) == b.restarts[k]
//@     invariant forall k int :: 0 <= k && k < len(b.data) ==> b.data[k] == old(b.data[k])
//@     invariant forall k int :: 0 <= k && k < len(b.restarts) ==> b.restarts[k] == old(b.restarts[k])
//@     invariant b.restarts == old(b.restarts) && b.data == old(b.data)

// ---- blockWriter: representation invariant, preserved by append and by the reset branch of pop.
// One restart offset per started section of 256 entries, offsets strictly increasing and
// inside the data, an empty block has no data, no restarts and max 0, and the data stays
// addressable by 16-bit offsets.
//@ pure func bwInv(b *blockWriter) bool { return b.desc != nil && len(b.restarts) == (b.desc.entries + 255) / 256 && (b.desc.entries == 0 ==> len(b.data) == 0 && b.desc.max == 0) && (len(b.restarts) > 0 ==> b.restarts[len(b.restarts) - 1] < len(b.data)) && (forall k int :: 0 < k && k < len(b.restarts) ==> b.restarts[k - 1] < b.restarts[k]) && len(b.data) <= 65535 }

//@ func (b *blockWriter) setBitmap(ext []uint16)
//@   serves C19
//@   trusted bit positions are bounded by the bitmap size chosen at construction (data invariant of the descriptor, not stated here); only the bitmap bytes are written
//@   modifies b.desc.extBitmap[..]

//@ func encodeIDs(ids []uint16) (enc []byte)
//@   serves C19
//@   trusted sorts its argument in place (slices.Sort) and returns a new buffer; the encoding itself is not modelled
//@   modifies ids[..]
//@   ensures len(enc) <= 3 * len(ids)

//@ func (b *blockWriter) append(id uint64, ext []uint16) (err error)
//@   serves C19
//@   requires bwInv(b) && len(b.data) <= 32768 && len(ext) <= 8192 && b.desc.entries < 65535
//@   requires noalias(ext, b.restarts)
//@   modifies b.restarts, b.data, b.desc.entries, b.desc.max, b.desc.extBitmap[..], ext[..], typeof []byte, typeof []uint16
//@   ensures err == nil ==> bwInv(b) && b.desc.entries == old(b.desc.entries) + 1 && b.desc.max == id && id > old(b.desc.max)
//@   ensures err == nil ==> len(b.data) > old(len(b.data))
//@   ensures err == nil ==> (forall k int :: 0 <= k && k < old(len(b.restarts)) ==> b.restarts[k] == old(b.restarts[k]))
//@   mutates

//@ func (b *blockWriter) sectionLast(section int) (n uint64, err error)
//@   serves C19
//@   trusted iterates with a closure (scanSection): outside the verified subset; reads only

//@ func (b *blockWriter) sectionSearch(section int, n uint64) (found bool, prev uint64, pos int, err error)
//@   serves C19
//@   trusted iterates with a closure (scanSection): outside the verified subset; reads only. Assumed: a found position lies inside the data
//@   ensures err == nil && found ==> 0 <= pos && pos <= len(b.data)

//@ func (b *blockWriter) rebuildBitmap() (err error)
//@   serves C19
//@   trusted iterates with a closure (scanSection): outside the verified subset
//@   modifies b.desc.extBitmap[..]

// pop: removing the only entry resets the writer completely (nothing stale survives into the
// next append); the other branches keep every index in range.
//@ func (b *blockWriter) pop(id uint64) (err error)
//@   serves C19
//@   requires bwInv(b)
//@   modifies b.restarts, b.data, b.desc.entries, b.desc.max, b.desc.extBitmap[..]
//@   ensures err == nil && old(b.desc.entries) == 1 ==> bwInv(b) && b.desc.entries == 0
//@   ensures err == nil ==> id == old(b.desc.max) && id != 0
//@   mutates
