//go:build verif

// Machine-checked contracts for package params (verification only).

package params

//@ func (c *ChainConfig) BaseFeeChangeDenominator() (d uint64)
//@   serves C35
//@   ensures d == 8

//@ func (c *ChainConfig) ElasticityMultiplier() (m uint64)
//@   serves C35
//@   ensures m == 2
