//go:build verif

// Machine-checked contracts for package crypto (verification only).

package crypto

// secp256k1 group order N and floor(N/2) (package-level *big.Int values, never written).
//@ directive bigconst secp256k1N 115792089237316195423570985008687907852837564279074904382605163141518161494337
//@ directive bigconst secp256k1halfN 57896044618658097711785492504343953926418782139537452191302581570759080747168

// C03 (strictness): r and s in [1, N-1], low-s from Homestead on, recovery id 0 or 1.
//@ func ValidateSignatureValues(v byte, r, s *big.Int, homestead bool) (ok bool)
//@   serves C03
//@   ensures ok == (1 <= bigval(r) && bigval(r) < 115792089237316195423570985008687907852837564279074904382605163141518161494337 && 1 <= bigval(s) && bigval(s) < 115792089237316195423570985008687907852837564279074904382605163141518161494337 && (homestead ==> bigval(s) <= 57896044618658097711785492504343953926418782139537452191302581570759080747168) && v <= 1)
