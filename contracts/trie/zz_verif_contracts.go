//go:build verif

// Machine-checked contracts for package trie (verification only).

package trie

// ---------------------------------------------------------------------------
// C10: hex-prefix (compact) path encoding, trie/encoding.go
// Oracle: the Yellow Paper's HP function (appendix C): flag nibble 2*t + odd,
// then the nibbles packed two per byte, high nibble first.
// ---------------------------------------------------------------------------

// A hex key: nibbles (< 16), optionally followed by the terminator 16.
//@ pure func validHex(h []byte) bool { return forall k int :: 0 <= k && k < len(h) ==> h[k] < 16 || (k == len(h) - 1 && h[k] == 16) }
//@ pure func allNibbles(h []byte) bool { return forall k int :: 0 <= k && k < len(h) ==> h[k] < 16 }
//@ pure func term(h []byte) int { return ite(len(h) > 0 && h[len(h) - 1] == 16, 1, 0) }
//@ pure func nlen(h []byte) int { return len(h) - term(h) }
// j-th nibble of a byte string (high nibble first)
//@ pure func nib(c []byte, j int) int { return ite(j % 2 == 0, c[j / 2] / 16, c[j / 2] % 16) }

//@ func hasTerm(s []byte) (t bool)
//@   serves C10
//@   ensures t == (term(s) == 1)

//@ func decodeNibbles(nibbles []byte, bytes []byte)
//@   serves C10
//@   requires len(nibbles) % 2 == 0 && 2 * len(bytes) >= len(nibbles) && noalias(nibbles, bytes)
//@   requires allNibbles(nibbles)
//@   ensures forall k int :: 0 <= k && k < len(nibbles) / 2 ==> bytes[k] == nibbles[2 * k] * 16 + nibbles[2 * k + 1]
//@   ensures forall k int :: len(nibbles) / 2 <= k && k < len(bytes) ==> bytes[k] == old(bytes[k])
//@   modifies bytes[0 : len(nibbles) / 2]
//@   loop 1 "ni < len(nibbles)"
//@     invariant 0 <= ni && ni <= len(nibbles) && ni == 2 * bi
//@     invariant forall k int :: 0 <= k && k < bi ==> bytes[k] == nibbles[2 * k] * 16 + nibbles[2 * k + 1]
//@     invariant forall k int :: bi <= k && k < len(bytes) ==> bytes[k] == old(bytes[k])

//@ func keybytesToHex(str []byte) (nibbles []byte)
//@   serves C10
//@   ensures isfresh(nibbles) && len(nibbles) == 2 * len(str) + 1 && cap(nibbles) == len(nibbles)
//@   ensures forall k int :: 0 <= k && k < len(str) ==> nibbles[2 * k] == str[k] / 16 && nibbles[2 * k + 1] == str[k] % 16
//@   ensures nibbles[2 * len(str)] == 16
//@   ensures forall j int :: 0 <= j && j < 2 * len(str) ==> nibbles[j] == nib(str, j)
//@   loop 1 "range str"
//@     invariant 0 - 1 <= rangeindex && rangeindex <= len(str) - 1
//@     invariant forall j int :: 0 <= j && j < 2 * (rangeindex + 1) ==> nibbles[j] == nib(str, j)
//@     invariant forall k int :: 0 <= k && k <= rangeindex ==> nibbles[2 * k] == str[k] / 16 && nibbles[2 * k + 1] == str[k] % 16

// hexToCompact is the Yellow Paper HP function.
//@ func hexToCompact(hex []byte) (buf []byte)
//@   serves C10
//@   requires validHex(hex)
//@   ensures isfresh(buf) && len(buf) == nlen(hex) / 2 + 1
//@   ensures buf[0] == 32 * term(hex) + ite(nlen(hex) % 2 == 1, 16 + hex[0], 0)
//@   ensures forall k int :: 1 <= k && k < len(buf) ==> buf[k] == hex[nlen(hex) % 2 + 2 * (k - 1)] * 16 + hex[nlen(hex) % 2 + 2 * (k - 1) + 1]

// hexToCompactInPlace writes the same bytes into the prefix of its argument.
//@ func hexToCompactInPlace(hex []byte) (out []byte)
//@   serves C10
//@   requires validHex(hex) && len(hex) >= 1
//@   ensures len(out) == old(nlen(hex)) / 2 + 1
//@   ensures out[0] == 32 * old(term(hex)) + ite(old(nlen(hex)) % 2 == 1, 16 + old(hex[0]), 0)
//@   ensures forall k int :: 1 <= k && k < len(out) ==> out[k] == old(hex[nlen(hex) % 2 + 2 * (k - 1)]) * 16 + old(hex[nlen(hex) % 2 + 2 * (k - 1) + 1])
//@   ensures forall k int :: 0 <= k && k < len(out) ==> out[k] == hex[k]
//@   modifies hex[..]
//@   loop 1 "ni < hexLen"
//@     invariant hexLen == old(nlen(hex)) && 0 <= ni && ni <= hexLen && ni % 2 == hexLen % 2 && 2 * bi == ni + 2 - hexLen % 2
//@     invariant forall k int :: 1 <= k && k < bi ==> hex[k] == old(hex[nlen(hex) % 2 + 2 * (k - 1)]) * 16 + old(hex[nlen(hex) % 2 + 2 * (k - 1) + 1])
//@     invariant forall k int :: bi <= k && k < len(hex) ==> hex[k] == old(hex[k])
//@     invariant hex[0] == old(hex[0])
//@     invariant firstByte == 32 * old(term(hex)) + ite(hexLen % 2 == 1, 16 + old(hex[0]), 0)

//@ func compactToHex(compact []byte) (hex []byte)
//@   serves C10
//@   ensures len(compact) == 0 ==> hex == compact
//@   ensures len(compact) > 0 ==> len(hex) == 2 * len(compact) + 1 - ite(compact[0] < 32, 1, 0) - (2 - (compact[0] / 16) % 2)
//@   ensures len(compact) > 0 ==> (forall k int :: 0 <= k && k + 2 - (compact[0] / 16) % 2 < 2 * len(compact) ==> hex[k] == nib(compact, k + 2 - (compact[0] / 16) % 2))
//@   ensures len(compact) > 0 && compact[0] >= 32 ==> hex[len(hex) - 1] == 16
//@   ensures len(compact) > 0 ==> (forall k int :: 0 <= k && k < len(compact) ==> compact[k] == old(compact[k]))

//@ func writeHexKey(dst []byte, key []byte) (out []byte)
//@   serves C10
//@   requires len(dst) >= 2 * len(key) && len(key) >= 1 && noalias(dst, key)
//@   ensures len(out) == 2 * len(key)
//@   ensures forall k int :: 0 <= k && k < len(key) ==> out[2 * k] == key[k] / 16 && out[2 * k + 1] == key[k] % 16
//@   ensures forall k int :: 2 * len(key) <= k && k < len(dst) ==> dst[k] == old(dst[k])
//@   modifies dst[0 : 2 * len(key)]
//@   loop 1 "range key"
//@     invariant 0 - 1 <= rangeindex && rangeindex <= len(key) - 1
//@     invariant forall k int :: 0 <= k && k <= rangeindex ==> dst[2 * k] == key[k] / 16 && dst[2 * k + 1] == key[k] % 16
//@     invariant forall k int :: 2 * len(key) <= k && k < len(dst) ==> dst[k] == old(dst[k])

//@ func hexToKeybytes(hex []byte) (key []byte)
//@   serves C10
//@   requires validHex(hex) && nlen(hex) % 2 == 0
//@   ensures isfresh(key) && len(key) == nlen(hex) / 2
//@   ensures forall k int :: 0 <= k && k < len(key) ==> key[k] == hex[2 * k] * 16 + hex[2 * k + 1]

//@ func prefixLen(a, b []byte) (n int)
//@   serves C10
//@   ensures 0 <= n && n <= len(a) && n <= len(b)
//@   ensures forall k int :: 0 <= k && k < n ==> a[k] == b[k]
//@   ensures n < len(a) && n < len(b) ==> a[n] != b[n]
//@   loop 1 "i < length"
//@     invariant 0 <= i && i <= length && length <= len(a) && length <= len(b) && (length == len(a) || length == len(b))
//@     invariant forall k int :: 0 <= k && k < i ==> a[k] == b[k]

// ---------------------------------------------------------------------------
// C10 lemmas (real Go, compiled only under the verif tag, never called):
// each composes the real functions and is verified against their contracts only.
// ---------------------------------------------------------------------------

// Leaf (terminated) and extension (unterminated) paths never share a compact form:
// the flag bit 0x20 of the first byte is set exactly for terminated paths.
//@ func verifLemmaLeafExtDistinct(hex []byte) (c []byte)
//@   serves C10
//@   requires validHex(hex)
//@   ensures (c[0] >= 32) == (term(hex) == 1)
//@   ensures (c[0] / 16) % 2 == nlen(hex) % 2

func verifLemmaLeafExtDistinct(hex []byte) (c []byte) {
	return hexToCompact(hex)
}

// compactToHex is a left inverse of hexToCompact on valid hex keys (hence hexToCompact is injective).
//@ func verifLemmaCompactRoundTrip(hex []byte) (h []byte)
//@   serves C10
//@   requires validHex(hex)
//@   ensures len(h) == len(hex)
//@   ensures forall k int :: 0 <= k && k < len(hex) ==> h[k] == hex[k]

func verifLemmaCompactRoundTrip(hex []byte) (h []byte) {
	c := hexToCompact(hex)
	h = compactToHex(c)
	return h
}

// A compact key in the image of hexToCompact: flag nibble 0..3, padding nibble zero when even.
//@ pure func validCompact(c []byte) bool { return len(c) >= 1 && c[0] / 16 < 4 && ((c[0] / 16) % 2 == 0 ==> c[0] % 16 == 0) }

// hexToCompact is a left inverse of compactToHex on valid compact keys.
//@ func verifLemmaHexRoundTrip(compact []byte) (c []byte)
//@   serves C10
//@   requires validCompact(compact)
//@   ensures len(c) == len(compact)
//@   ensures forall k int :: 0 <= k && k < len(compact) ==> c[k] == compact[k]

func verifLemmaHexRoundTrip(compact []byte) (c []byte) {
	h := compactToHex(compact)
	c = hexToCompact(h)
	return c
}

// Key bytes survive the round trip through the nibble form.
//@ func verifLemmaKeybytesRoundTrip(key []byte) (k2 []byte)
//@   serves C10
//@   ensures len(k2) == len(key)
//@   ensures forall k int :: 0 <= k && k < len(key) ==> k2[k] == key[k]

func verifLemmaKeybytesRoundTrip(key []byte) (k2 []byte) {
	h := keybytesToHex(key)
	k2 = hexToKeybytes(h)
	return k2
}

// The in-place variant produces the same bytes as hexToCompact.
//@ func verifLemmaInPlaceSame(hex []byte, cp []byte) (a []byte, b []byte)
//@   serves C10
//@   requires validHex(hex) && len(hex) >= 1 && len(cp) == len(hex) && noalias(hex, cp)
//@   requires forall k int :: 0 <= k && k < len(hex) ==> cp[k] == hex[k]
//@   ensures len(a) == len(b)
//@   ensures forall k int :: 0 <= k && k < len(a) ==> a[k] == b[k]
//@   modifies cp[..]

func verifLemmaInPlaceSame(hex []byte, cp []byte) (a []byte, b []byte) {
	a = hexToCompact(hex)
	b = hexToCompactInPlace(cp)
	return a, b
}
