//go:build verif

// Machine-checked contracts for package enr (verification only).

package enr

// C45 (structural acceptance conditions): a record is accepted by the decoder only when its
// encoding is within the size limit and its keys are strictly increasing (sorted and unique).
//@ directive readonly-args bytes.NewReader
//@ directive fresh-result bytes.NewReader
//@ directive fresh-result rlp.NewStream
//@ directive readonly-args rlp.EncodeToBytes
//@ directive pure-observer Entry).ENRKey
//@ directive readonly-args IdentityScheme).Verify
//@ pure func sortedPairs(ps []pair) bool { return forall k int :: {ps[k].k} 0 < k && k < len(ps) ==> ps[k - 1].k < ps[k].k }

//@ func decodeRecord(s *rlp.Stream) (dec Record, raw []byte, err error)
//@   serves C45
//@   ensures err == nil ==> len(raw) <= SizeLimit
//@   ensures err == nil ==> sortedPairs(dec.pairs)
//@   modifies *s
//@   mutates
//@   loop 1 ""
//@     invariant 0 <= i && i == len(dec.pairs) && len(raw) <= SizeLimit
//@     invariant i > 0 ==> prevkey == dec.pairs[i - 1].k
//@     invariant cap(dec.pairs) == 0 || isfresh(dec.pairs)
//@     invariant sortedPairs(dec.pairs)

// The encoder enforces the same limit: a record that gets a signature (and with it a cached
// encoding) is never larger than SizeLimit.
//@ func (r *Record) encode(sig []byte) (raw []byte, err error)
//@   serves C45
//@   ensures err == nil ==> len(raw) <= SizeLimit
//@   ensures err != nil ==> len(raw) == 0
//@   mutates

//@ func (r *Record) SetSig(s IdentityScheme, sig []byte) (err error)
//@   serves C45
//@   requires (s == nil) == (sig == nil)
//@   modifies r.signature, r.raw
//@   ensures err == nil && s != nil ==> len(r.raw) <= SizeLimit && r.signature == sig
//@   ensures err == nil && s == nil ==> r.signature == nil && r.raw == nil
//@   ensures err != nil ==> r.signature == old(r.signature) && r.raw == old(r.raw)
//@   mutates

//@ func (r *Record) invalidate()
//@   serves C45
//@   modifies r.signature, r.raw, r.seq
//@   ensures r.signature == nil && r.raw == nil
//@   ensures r.seq == ite(old(r.signature) != nil, (old(r.seq) + 1) % 18446744073709551616, old(r.seq))

// Set works on a private copy of the pair list: a record value that shares the old backing
// array (a copy of a signed record) is never changed behind its back. The frame below does not
// include r.pairs[..], so any write to the old array is a violation.
//@ func (r *Record) Set(e Entry)
//@   serves C45
//@   maypanic
//@   modifies r.pairs, r.signature, r.raw, r.seq
//@   ensures r.signature == nil && r.raw == nil
//@   ensures old(len(r.pairs)) <= len(r.pairs) && len(r.pairs) <= old(len(r.pairs)) + 1
//@   mutates
