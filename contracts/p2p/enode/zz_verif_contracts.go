//go:build verif

// Machine-checked contracts for package enode (verification only).

package enode

// C46 (distance functions). IDs are 32 bytes, compared as four big-endian 64-bit words.
//@ pure func word(a ID, j int) int { return a[8 * j] * 72057594037927936 + a[8 * j + 1] * 281474976710656 + a[8 * j + 2] * 1099511627776 + a[8 * j + 3] * 4294967296 + a[8 * j + 4] * 16777216 + a[8 * j + 5] * 65536 + a[8 * j + 6] * 256 + a[8 * j + 7] }

// LogDist is 0 exactly for equal IDs, at most 256, and determined by the first differing
// word: 256 - 64*j - clz(word_j(a) xor word_j(b)).
//@ func LogDist(a, b ID) (d int)
//@   serves C46
//@   ensures 0 <= d && d <= 256
//@   ensures (d == 0) == (word(a, 0) == word(b, 0) && word(a, 1) == word(b, 1) && word(a, 2) == word(b, 2) && word(a, 3) == word(b, 3))
//@   ensures word(a, 0) != word(b, 0) ==> d > 192
//@   ensures word(a, 0) == word(b, 0) && word(a, 1) != word(b, 1) ==> 128 < d && d <= 192
//@   ensures word(a, 0) == word(b, 0) && word(a, 1) == word(b, 1) && word(a, 2) != word(b, 2) ==> 64 < d && d <= 128
//@   ensures word(a, 0) == word(b, 0) && word(a, 1) == word(b, 1) && word(a, 2) == word(b, 2) && word(a, 3) != word(b, 3) ==> 0 < d && d <= 64
//@   loop 1 "i < len(a)"
//@     invariant (i == 0 || i == 8 || i == 16 || i == 24 || i == 32) && lz == 8 * i
//@     invariant (i > 0 ==> word(a, 0) == word(b, 0)) && (i > 8 ==> word(a, 1) == word(b, 1)) && (i > 16 ==> word(a, 2) == word(b, 2)) && (i > 24 ==> word(a, 3) == word(b, 3))

// DistCmp orders a and b by their xor distance to target, word by word (most significant first).
//@ func DistCmp(target, a, b ID) (c int)
//@   serves C46
//@   ensures c == 0 - 1 || c == 0 || c == 1
//@   ensures (c == 0) == (word(a, 0) == word(b, 0) && word(a, 1) == word(b, 1) && word(a, 2) == word(b, 2) && word(a, 3) == word(b, 3))
//@   ensures word(a, 0) != word(b, 0) ==> c == ite((word(target, 0) ^ word(a, 0)) > (word(target, 0) ^ word(b, 0)), 1, 0 - 1)
//@   loop 1 "i < len(target)"
//@     invariant i == 0 || i == 8 || i == 16 || i == 24 || i == 32
//@     invariant (i > 0 ==> word(a, 0) == word(b, 0)) && (i > 8 ==> word(a, 1) == word(b, 1)) && (i > 16 ==> word(a, 2) == word(b, 2)) && (i > 24 ==> word(a, 3) == word(b, 3))

// DistCmp is antisymmetric in its last two arguments.
//@ func verifLemmaDistCmpAntisym(target, a, b ID) (x int, y int)
//@   serves C46
//@   ensures word(a, 0) != word(b, 0) ==> x == 0 - y
//@   ensures (x == 0) == (y == 0)

func verifLemmaDistCmpAntisym(target, a, b ID) (x int, y int) {
	return DistCmp(target, a, b), DistCmp(target, b, a)
}
