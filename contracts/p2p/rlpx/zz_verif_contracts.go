//go:build verif

// Machine-checked contracts for package rlpx (verification only).

package rlpx

// C44 (framing buffers): the read buffer never loses, duplicates or reorders bytes.
// Representation invariant: processed bytes are data[0:len], buffered-but-unprocessed bytes
// follow up to `end`, everything within the capacity of one backing array.
//@ pure func bufInv(b *readBuffer) bool { return 0 <= len(b.data) && len(b.data) <= b.end && b.end <= cap(b.data) }
// i-th byte of the buffer's backing array, counted from the start of b.data
//@ pure func bufAt(b *readBuffer, i int) int { return b.data[0 : cap(b.data)][i] }

// reset: the unprocessed bytes move to the front, in order; nothing else is kept.
//@ func (b *readBuffer) reset()
//@   serves C44
//@   requires bufInv(b)
//@   ensures bufInv(b) && len(b.data) == 0 && b.end == old(b.end) - old(len(b.data)) && cap(b.data) == old(cap(b.data))
//@   ensures forall k int :: 0 <= k && k < b.end ==> bufAt(b, k) == old(bufAt(b, len(b.data) + k))
//@   modifies b.data, b.end, b.data[..]

// grow: afterwards at least n bytes are free behind `end`; buffered bytes are unchanged.
//@ func (b *readBuffer) grow(n int)
//@   serves C44
//@   requires bufInv(b) && n >= 0
//@   ensures bufInv(b) && cap(b.data) - b.end >= n && len(b.data) == old(len(b.data)) && b.end == old(b.end)
//@   ensures forall k int :: 0 <= k && k < b.end ==> bufAt(b, k) == old(bufAt(b, k))
//@   ensures noalias(b.data, old(b.data)) ==> isfresh(b.data)
//@   modifies b.data

// read: returns exactly the next n stream bytes as a window into the buffer, directly behind
// the bytes handed out before; bytes already buffered are not touched.
//@ func (b *readBuffer) read(r io.Reader, n int) (out []byte, err error)
//@   serves C44
//@   requires bufInv(b) && n >= 0
//@   ensures err == nil ==> bufInv(b) && len(b.data) == old(len(b.data)) + n && len(out) == n
//@   ensures err == nil ==> (forall k int :: 0 <= k && k < n ==> out[k] == bufAt(b, old(len(b.data)) + k))
//@   ensures err == nil ==> (forall k int :: 0 <= k && k < old(b.end) ==> bufAt(b, k) == old(bufAt(b, k)))
//@   ensures err == nil ==> b.end >= old(b.end)
//@   ensures old(b.end) - old(len(b.data)) >= n ==> err == nil
//@   modifies b.data, b.end, b.data[..]

//@ func (b *writeBuffer) reset()
//@   serves C44
//@   ensures len(b.data) == 0 && cap(b.data) == old(cap(b.data))
//@   modifies b.data

//@ func (b *writeBuffer) appendZero(n int) (out []byte)
//@   serves C44
//@   requires n >= 0
//@   ensures len(out) == n && len(b.data) == old(len(b.data)) + n
//@   ensures forall k int :: 0 <= k && k < n ==> out[k] == 0 && b.data[old(len(b.data)) + k] == 0
//@   ensures forall k int :: 0 <= k && k < old(len(b.data)) ==> b.data[k] == old(b.data[k])
//@   modifies b.data, b.data[..]

//@ func (b *writeBuffer) Write(data []byte) (n int, err error)
//@   serves C44
//@   ensures n == len(data) && err == nil && len(b.data) == old(len(b.data)) + len(data)
//@   ensures forall k int :: 0 <= k && k < old(len(b.data)) ==> b.data[k] == old(b.data[k])
//@   ensures forall k int :: 0 <= k && k < len(data) ==> b.data[old(len(b.data)) + k] == old(data[k])
//@   modifies b.data, b.data[..]

//@ func readUint24(b []byte) (v uint32)
//@   serves C44
//@   requires len(b) >= 3
//@   ensures v == b[0] * 65536 + b[1] * 256 + b[2]

//@ func putUint24(v uint32, b []byte)
//@   serves C44
//@   requires len(b) >= 3 && v < 16777216
//@   ensures b[0] == (v / 65536) % 256 && b[1] == (v / 256) % 256 && b[2] == v % 256
//@   ensures forall k int :: 3 <= k && k < len(b) ==> b[k] == old(b[k])
//@   modifies b[0:3]

// frame sizes survive the 24-bit header field
//@ func verifLemmaUint24RoundTrip(v uint32, b []byte) (r uint32)
//@   serves C44
//@   requires len(b) >= 3 && v < 16777216
//@   ensures r == v
//@   modifies b[0:3]

func verifLemmaUint24RoundTrip(v uint32, b []byte) (r uint32) {
	putUint24(v, b)
	return readUint24(b)
}

//@ func growslice(b []byte, wantLength int) (out []byte)
//@   serves C44
//@   requires wantLength >= 0
//@   ensures len(out) >= wantLength
//@   ensures len(b) >= wantLength ==> out == b
//@   ensures len(b) < wantLength && cap(b) >= wantLength ==> len(out) == cap(b) && (forall k int :: 0 <= k && k < len(b) ==> out[k] == b[k])

// ---- frames

// writeFrame refuses messages whose size does not fit the 24-bit header field (it never writes a
// truncated size: putUint24 requires v < 2^24 at its call site), and all its buffer arithmetic
// stays in range whatever the ciphers and MACs (havocked) produce.
//@ func (h *sessionState) writeFrame(conn io.Writer, code uint64, data []byte) (err error)
//@   serves C44
//@   requires len(zeroHeader) == 3
//@   modifies *h, typeof []byte
//@   ensures ite(code < 128, 1, 1 + rlp.isz(code)) + len(data) > 16777215 ==> err == errPlainMessageTooLarge
//@   mutates

// readFrame: every slice expression stays in range for any header bytes the peer sends; the
// returned frame is never longer than the 24-bit size field allows.
//@ func (h *sessionState) readFrame(conn io.Reader) (out []byte, err error)
//@   serves C44
//@   requires bufInv(&h.rbuf)
//@   modifies *h, typeof []byte
//@   ensures err == nil ==> len(out) <= 16777215
//@   atcall Equal#1 requires len(arg2) == 16
//@   atcall Equal#2 requires len(arg2) == 16
//@   mutates
