//go:build verif

// Machine-checked contracts for package netutil (verification only).

package netutil

// C46 (subnet counters): DistinctNetSet counts members per IP prefix and never lets a
// prefix exceed Limit.

// Representation invariant: a prefix is present in the map only while it has members.
//@ pure func membersInv(s *DistinctNetSet) bool { return forall q netip.Prefix :: haskey(s.members, q) ==> s.members[q] >= 1 }

// the subnet prefix of an address (netip.Addr.Prefix as a pure function)
//@ opaque pure func prefixOf(subnet int, ip netip.Addr) netip.Prefix

//@ func (s *DistinctNetSet) key(ip netip.Addr) (p netip.Prefix)
//@   serves C46
//@   trusted netip.Addr.Prefix is a pure function of (address, bits); assumed not to fail for the prefix lengths configured (key panics otherwise); the lazily created map is empty
//@   ensures p == prefixOf(s.Subnet, ip) && s.members != nil
//@   ensures old(s.members) != nil ==> s.members == old(s.members)
//@   ensures old(s.members) == nil ==> (forall q netip.Prefix :: s.members[q] == 0)
//@   modifies s.members

// AddAddr admits an address exactly when its prefix is below the limit; a refused address
// changes nothing; other prefixes are never affected.
//@ func (s *DistinctNetSet) AddAddr(ip netip.Addr) (ok bool)
//@   serves C46
//@   requires s.members != nil && membersInv(s)
//@   ensures membersInv(s)
//@   ensures ok == (old(s.members[prefixOf(s.Subnet, ip)]) < s.Limit)
//@   ensures ok ==> s.members[prefixOf(s.Subnet, ip)] == old(s.members[prefixOf(s.Subnet, ip)]) + 1
//@   ensures !ok ==> s.members[prefixOf(s.Subnet, ip)] == old(s.members[prefixOf(s.Subnet, ip)])
//@   ensures forall q netip.Prefix :: q != prefixOf(s.Subnet, ip) ==> s.members[q] == old(s.members[q])
//@   ensures s.members[prefixOf(s.Subnet, ip)] <= s.Limit || s.members[prefixOf(s.Subnet, ip)] == old(s.members[prefixOf(s.Subnet, ip)])
//@   modifies s.members, s.members[..]
//@   nowrap

//@ func (s *DistinctNetSet) RemoveAddr(ip netip.Addr)
//@   serves C46
//@   requires s.members != nil && membersInv(s)
//@   ensures membersInv(s)
//@   ensures s.members[prefixOf(s.Subnet, ip)] == ite(old(s.members[prefixOf(s.Subnet, ip)]) == 0, 0, old(s.members[prefixOf(s.Subnet, ip)]) - 1)
//@   ensures forall q netip.Prefix :: q != prefixOf(s.Subnet, ip) ==> s.members[q] == old(s.members[q])
//@   modifies s.members, s.members[..]
//@   nowrap
