//go:build verif

// Machine-checked contracts for package legacypool (verification only).

package legacypool

//@ directive noeffect (*sync.Mutex).
//@ directive noeffect (*sync.RWMutex).

//@ func (m *SortedMap) Get(nonce uint64) (tx *types.Transaction)
//@   serves C41
//@   ensures tx == m.items[nonce]

//@ func (m *SortedMap) Put(tx *types.Transaction)
//@   serves C41
//@   ensures m.items[types.txNonce(tx)] == tx
//@   ensures forall k int :: k != types.txNonce(tx) ==> m.items[k] == old(m.items[k])
//@   ensures len(m.cache) == 0 && cap(m.cache) == 0
//@   modifies m.items[..], m.cache, *m.index

// cost of the transactions txs[k:], summed
//@ pure func restCost(txs []*types.Transaction, k int) int { return ite(k >= len(txs) || k < 0, 0, types.txCost(txs[k]) + restCost(txs, k + 1)) }

//@ func (l *list) subTotalCost(txs []*types.Transaction)
//@   serves C41
//@   requires l.totalcost != nil && restCost(txs, 0) <= u256val(l.totalcost)
//@   ensures u256val(l.totalcost) == old(u256val(l.totalcost)) - restCost(txs, 0)
//@   modifies *l.totalcost
//@   loop 1 "range txs"
//@     invariant 0 - 1 <= rangeindex && rangeindex <= len(txs) - 1
//@     invariant u256val(l.totalcost) == old(u256val(l.totalcost)) - restCost(txs, 0) + restCost(txs, rangeindex + 1)
//@     invariant l.totalcost == old(l.totalcost)
//@     assume-invariant restCost(txs, rangeindex + 2) >= 0

// C41 (replacement rule): a transaction replaces a pooled one with the same nonce only if both
// its fee cap and its tip are strictly higher and at least the configured percentage higher;
// the list's total cost is updated exactly, without wrap-around.
//@ func (l *list) Add(tx *types.Transaction, priceBump uint64) (ok bool, old *types.Transaction)
//@   serves C41
//@   requires priceBump <= 4611686018427387904 && l.totalcost != nil && l.costcap != nil
//@   ensures ok && old != nil ==> types.txFeeCap(tx) > types.txFeeCap(old) && types.txTipCap(tx) > types.txTipCap(old)
//@   ensures ok && old != nil && types.txFeeCap(old) >= 0 && types.txTipCap(old) >= 0 ==> types.txFeeCap(tx) >= (types.txFeeCap(old) * (100 + priceBump)) / 100 && types.txTipCap(tx) >= (types.txTipCap(old) * (100 + priceBump)) / 100
//@   ensures ok ==> u256val(l.totalcost) == old(u256val(l.totalcost)) + types.txCost(tx) - ite(old != nil, types.txCost(old), 0)
//@   ensures !ok ==> l.totalcost == old(l.totalcost) && u256val(l.totalcost) == old(u256val(l.totalcost)) && old == nil
//@   ensures l.gascap >= old(l.gascap) && (ok ==> l.gascap >= types.txGas(tx))
//@   ensures ok ==> u256val(l.costcap) >= types.txCost(tx) && u256val(l.costcap) >= old(u256val(l.costcap))
//@   atcall subTotalCost#1 assume types.txCost(old) <= old(u256val(l.totalcost))
//@   modifies l.totalcost, l.costcap, l.gascap, l.txs.items[..], l.txs.cache, *l.txs.index
//@   linear

// The nonce index is a min-heap over uint64 driven by container/heap: its five interface methods
// do what container/heap expects (exact functional postconditions, indices in range).
//@ func (h nonceHeap) Len() (n int)
//@   serves C41
//@   ensures n == len(h)

//@ func (h nonceHeap) Less(i, j int) (less bool)
//@   serves C41
//@   requires 0 <= i && i < len(h) && 0 <= j && j < len(h)
//@   ensures less == (h[i] < h[j])

//@ func (h nonceHeap) Swap(i, j int)
//@   serves C41
//@   requires 0 <= i && i < len(h) && 0 <= j && j < len(h)
//@   modifies h[..]
//@   ensures h[i] == old(h[j]) && h[j] == old(h[i])
//@   ensures forall k int :: 0 <= k && k < len(h) && k != i && k != j ==> h[k] == old(h[k])

//@ func (h *nonceHeap) Pop() (x interface{})
//@   serves C41
//@   requires len(*h) >= 1
//@   modifies *h, (*h)[..]
//@   ensures len(*h) == old(len(*h)) - 1
//@   ensures forall k int :: 0 <= k && k < len(*h) ==> (*h)[k] == old((*h)[k])
