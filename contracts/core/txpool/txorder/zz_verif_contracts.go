//go:build verif

// Machine-checked contracts for package txorder (verification only).

package txorder

//@ directive pure-observer (time.Time).Before

// C43: effective miner tip and the price/time order relation.

// The effective tip is min(tipCap, feeCap - baseFee) (EIP-1559), or the tip cap without a
// base fee; a fee cap below the base fee is rejected; the transaction is not mutated.
//@ func newTxWithMinerFee(tx *txpool.LazyTransaction, from common.Address, baseFee *uint256.Int) (w *txWithMinerFee, err error)
//@   serves C43
//@   nilable baseFee
//@   requires tx.GasTipCap != nil && tx.GasFeeCap != nil
//@   ensures (err != nil) == (baseFee != nil && u256val(tx.GasFeeCap) < u256val(baseFee))
//@   ensures err != nil ==> err == types.ErrGasFeeCapTooLow && w == nil
//@   ensures err == nil ==> w != nil && w.tx == tx && w.from == from && w.fees != nil
//@   ensures err == nil && baseFee == nil ==> u256val(w.fees) == u256val(tx.GasTipCap)
//@   ensures err == nil && baseFee != nil ==> u256val(w.fees) == min(u256val(tx.GasTipCap), u256val(tx.GasFeeCap) - u256val(baseFee))
//@   ensures u256val(tx.GasTipCap) == old(u256val(tx.GasTipCap)) && u256val(tx.GasFeeCap) == old(u256val(tx.GasFeeCap))

//@ pure func feeOf(s txByPriceAndTime, i int) int { return u256val(s[i].fees) }

//@ func (s txByPriceAndTime) Less(i, j int) (less bool)
//@   serves C43
//@   requires 0 <= i && i < len(s) && 0 <= j && j < len(s)
//@   ensures less == (feeOf(s, i) > feeOf(s, j) || (feeOf(s, i) == feeOf(s, j) && observe(Before, s[i].tx.Time, s[j].tx.Time)))

//@ func (s txByPriceAndTime) Swap(i, j int)
//@   serves C43
//@   requires 0 <= i && i < len(s) && 0 <= j && j < len(s)
//@   ensures s[i] == old(s[j]) && s[j] == old(s[i])
//@   ensures forall k int :: 0 <= k && k < len(s) && k != i && k != j ==> s[k] == old(s[k])
//@   modifies s[..]

//@ func (s txByPriceAndTime) Len() (n int)
//@   serves C43
//@   ensures n == len(s)

//@ func (s *txByPriceAndTime) Pop() (x interface{})
//@   serves C43
//@   requires len(*s) >= 1
//@   ensures len(*s) == old(len(*s)) - 1
//@   ensures forall k int :: 0 <= k && k < len(*s) ==> (*s)[k] == old((*s)[k])
//@   modifies *s, (*s)[..]

// Less is a strict weak order whenever "first seen before" is one: irreflexive, asymmetric,
// transitive (the precondition of container/heap and sort).
//@ func verifLemmaLessIrreflexive(s txByPriceAndTime, i int) (r bool)
//@   serves C43
//@   requires 0 <= i && i < len(s)
//@   requires !observe(Before, s[i].tx.Time, s[i].tx.Time)
//@   ensures !r

func verifLemmaLessIrreflexive(s txByPriceAndTime, i int) (r bool) {
	return s.Less(i, i)
}

//@ func verifLemmaLessAsymmetric(s txByPriceAndTime, i int, j int) (a bool, b bool)
//@   serves C43
//@   requires 0 <= i && i < len(s) && 0 <= j && j < len(s)
//@   requires !(observe(Before, s[i].tx.Time, s[j].tx.Time) && observe(Before, s[j].tx.Time, s[i].tx.Time))
//@   ensures !(a && b)

func verifLemmaLessAsymmetric(s txByPriceAndTime, i int, j int) (a bool, b bool) {
	return s.Less(i, j), s.Less(j, i)
}

//@ func verifLemmaLessTransitive(s txByPriceAndTime, i int, j int, k int) (a bool, b bool, c bool)
//@   serves C43
//@   requires 0 <= i && i < len(s) && 0 <= j && j < len(s) && 0 <= k && k < len(s)
//@   requires observe(Before, s[i].tx.Time, s[j].tx.Time) && observe(Before, s[j].tx.Time, s[k].tx.Time) ==> observe(Before, s[i].tx.Time, s[k].tx.Time)
//@   ensures a && b ==> c

func verifLemmaLessTransitive(s txByPriceAndTime, i int, j int, k int) (a bool, b bool, c bool) {
	return s.Less(i, j), s.Less(j, k), s.Less(i, k)
}

//@ func (t *TransactionsByPriceAndNonce) Peek() (tx *txpool.LazyTransaction, fees *uint256.Int)
//@   serves C43
//@   ensures len(t.heads) == 0 ==> tx == nil && fees == nil
//@   ensures len(t.heads) > 0 ==> tx == t.heads[0].tx && fees == t.heads[0].fees

//@ func (t *TransactionsByPriceAndNonce) Empty() (e bool)
//@   serves C43
//@   ensures e == (len(t.heads) == 0)

//@ func (s *txByPriceAndTime) Push(x interface{})
//@   serves C43
//@   ensures len(*s) == old(len(*s)) + 1 && (*s)[len(*s) - 1] == x
//@   ensures forall k int :: 0 <= k && k < old(len(*s)) ==> (*s)[k] == old((*s)[k])
//@   modifies *s, (*s)[..]

// ---- the heads form a binary heap under Less (container/heap): no element is less than its
// parent. container/heap itself is a dependency: its contract is assumed (extern), stated for
// the concrete element type.
//@ pure func lessAt(s txByPriceAndTime, i int, j int) bool { return feeOf(s, i) > feeOf(s, j) || (feeOf(s, i) == feeOf(s, j) && observe(Before, s[i].tx.Time, s[j].tx.Time)) }
//@ pure func isHeap(s txByPriceAndTime) bool { return forall k int :: {s[k]} 1 <= k && k < len(s) ==> !lessAt(s, k, (k - 1) / 2) }
// heap order everywhere except for the relations of position i with its parent and children;
// the children of i are not less than the parent of i (so that moving i up or down repairs it)
//@ pure func heapExcept(s txByPriceAndTime, i int) bool { return (forall k int :: {s[k]} 1 <= k && k < len(s) && k != i && (k - 1) / 2 != i ==> !lessAt(s, k, (k - 1) / 2)) && (forall c int :: {s[c]} 1 <= c && c < len(s) && (c - 1) / 2 == i && i >= 1 ==> !lessAt(s, c, (i - 1) / 2)) }

//@ extern func container/heap.Fix(h *txByPriceAndTime, i int)
//@   requires 0 <= i && i < len(*h) && heapExcept(*h, i)
//@   modifies (*h)[..]
//@   ensures len(*h) == old(len(*h)) && isHeap(*h)

//@ extern func container/heap.Pop(h *txByPriceAndTime) (x interface{})
//@   requires len(*h) >= 1 && isHeap(*h)
//@   modifies *h, (*h)[..]
//@   ensures len(*h) == old(len(*h)) - 1 && isHeap(*h)

//@ extern func container/heap.Init(h *txByPriceAndTime)
//@   modifies (*h)[..]
//@   ensures len(*h) == old(len(*h)) && isHeap(*h)

// Every pending transaction handed to the iterator carries its fee caps.
//@ pure func lazyTxsWf() bool { return forall p *txpool.LazyTransaction :: {p.GasTipCap} p != nil ==> p.GasTipCap != nil && p.GasFeeCap != nil }

// Shift and Pop keep the heads heap-ordered, so that Peek (heads[0]) is a head no other head beats.
//@ func (t *TransactionsByPriceAndNonce) Shift()
//@   serves C43
//@   requires len(t.heads) >= 1 && isHeap(t.heads) && lazyTxsWf()
//@   requires forall a common.Address, k int :: 0 <= k && k < len(t.txs[a]) ==> t.txs[a][k] != nil
//@   modifies t.heads, t.heads[..], t.txs[..]
//@   ensures isHeap(t.heads)

//@ func (t *TransactionsByPriceAndNonce) Pop()
//@   serves C43
//@   requires len(t.heads) >= 1 && isHeap(t.heads)
//@   modifies t.heads, t.heads[..]
//@   ensures isHeap(t.heads) && len(t.heads) == old(len(t.heads)) - 1
