//go:build verif

// Machine-checked contracts for package txorder (verification only).

package txorder

//@ directive pure-observer (time.Time).Before

// C43: effective miner tip and the price/time order relation.

// The effective tip is min(tipCap, feeCap - baseFee) (EIP-1559), or the tip cap without a
// base fee; a fee cap below the base fee is rejected; the transaction is not mutated.
//@ func newTxWithMinerFee(tx *txpool.LazyTransaction, from common.Address, baseFee *uint256.Int) (w *txWithMinerFee, err error)
//@   serves C43
//@   nilable baseFee
//@   requires tx.GasTipCap != nil && tx.GasFeeCap != nil
//@   ensures (err != nil) == (baseFee != nil && u256val(tx.GasFeeCap) < u256val(baseFee))
//@   ensures err != nil ==> err == types.ErrGasFeeCapTooLow && w == nil
//@   ensures err == nil ==> w != nil && w.tx == tx && w.from == from && w.fees != nil
//@   ensures err == nil && baseFee == nil ==> u256val(w.fees) == u256val(tx.GasTipCap)
//@   ensures err == nil && baseFee != nil ==> u256val(w.fees) == min(u256val(tx.GasTipCap), u256val(tx.GasFeeCap) - u256val(baseFee))
//@   ensures u256val(tx.GasTipCap) == old(u256val(tx.GasTipCap)) && u256val(tx.GasFeeCap) == old(u256val(tx.GasFeeCap))

//@ pure func feeOf(s txByPriceAndTime, i int) int { return u256val(s[i].fees) }

//@ func (s txByPriceAndTime) Less(i, j int) (less bool)
//@   serves C43
//@   requires 0 <= i && i < len(s) && 0 <= j && j < len(s)
//@   ensures less == (feeOf(s, i) > feeOf(s, j) || (feeOf(s, i) == feeOf(s, j) && observe(Before, s[i].tx.Time, s[j].tx.Time)))

//@ func (s txByPriceAndTime) Swap(i, j int)
//@   serves C43
//@   requires 0 <= i && i < len(s) && 0 <= j && j < len(s)
//@   ensures s[i] == old(s[j]) && s[j] == old(s[i])
//@   ensures forall k int :: 0 <= k && k < len(s) && k != i && k != j ==> s[k] == old(s[k])
//@   modifies s[..]

//@ func (s txByPriceAndTime) Len() (n int)
//@   serves C43
//@   ensures n == len(s)

//@ func (s *txByPriceAndTime) Pop() (x interface{})
//@   serves C43
//@   requires len(*s) >= 1
//@   ensures len(*s) == old(len(*s)) - 1
//@   ensures forall k int :: 0 <= k && k < len(*s) ==> (*s)[k] == old((*s)[k])
//@   modifies *s, (*s)[..]

// Less is a strict weak order whenever "first seen before" is one: irreflexive, asymmetric,
// transitive (the precondition of container/heap and sort).
//@ func verifLemmaLessIrreflexive(s txByPriceAndTime, i int) (r bool)
//@   serves C43
//@   requires 0 <= i && i < len(s)
//@   requires !observe(Before, s[i].tx.Time, s[i].tx.Time)
//@   ensures !r

func verifLemmaLessIrreflexive(s txByPriceAndTime, i int) (r bool) {
	return s.Less(i, i)
}

//@ func verifLemmaLessAsymmetric(s txByPriceAndTime, i int, j int) (a bool, b bool)
//@   serves C43
//@   requires 0 <= i && i < len(s) && 0 <= j && j < len(s)
//@   requires !(observe(Before, s[i].tx.Time, s[j].tx.Time) && observe(Before, s[j].tx.Time, s[i].tx.Time))
//@   ensures !(a && b)

func verifLemmaLessAsymmetric(s txByPriceAndTime, i int, j int) (a bool, b bool) {
	return s.Less(i, j), s.Less(j, i)
}

//@ func verifLemmaLessTransitive(s txByPriceAndTime, i int, j int, k int) (a bool, b bool, c bool)
//@   serves C43
//@   requires 0 <= i && i < len(s) && 0 <= j && j < len(s) && 0 <= k && k < len(s)
//@   requires observe(Before, s[i].tx.Time, s[j].tx.Time) && observe(Before, s[j].tx.Time, s[k].tx.Time) ==> observe(Before, s[i].tx.Time, s[k].tx.Time)
//@   ensures a && b ==> c

func verifLemmaLessTransitive(s txByPriceAndTime, i int, j int, k int) (a bool, b bool, c bool) {
	return s.Less(i, j), s.Less(j, k), s.Less(i, k)
}

//@ func (t *TransactionsByPriceAndNonce) Peek() (tx *txpool.LazyTransaction, fees *uint256.Int)
//@   serves C43
//@   ensures len(t.heads) == 0 ==> tx == nil && fees == nil
//@   ensures len(t.heads) > 0 ==> tx == t.heads[0].tx && fees == t.heads[0].fees

//@ func (t *TransactionsByPriceAndNonce) Empty() (e bool)
//@   serves C43
//@   ensures e == (len(t.heads) == 0)

//@ func (s *txByPriceAndTime) Push(x interface{})
//@   serves C43
//@   ensures len(*s) == old(len(*s)) + 1 && (*s)[len(*s) - 1] == x
//@   ensures forall k int :: 0 <= k && k < old(len(*s)) ==> (*s)[k] == old((*s)[k])
//@   modifies *s, (*s)[..]
