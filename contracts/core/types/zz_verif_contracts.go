//go:build verif

// Machine-checked contracts for package types (verification only).

package types

// Total number of storage keys in an access list (abstract; the Go method sums lengths).
//@ opaque pure func storageKeysOf(al AccessList) int

//@ func (al AccessList) StorageKeys() (n int)
//@   serves C35
//@   trusted sums non-negative slice lengths; wrap-around would need more than 2^63 storage keys in memory (platform bound)
//@   ensures n >= 0 && n == storageKeysOf(al)

// ---------------------------------------------------------------------------
// Transaction accessors (used by C41). The inner TxData accessors are pure observers:
// a transaction is immutable, so they return the same (pointer) value every time.
// ---------------------------------------------------------------------------

//@ directive pure-observer core/types.TxData).gasFeeCap
//@ directive pure-observer core/types.TxData).gasTipCap
//@ directive pure-observer core/types.TxData).gasPrice
//@ directive pure-observer core/types.TxData).nonce
//@ directive pure-observer core/types.TxData).gas

//@ pure func txFeeCap(tx *Transaction) int { return bigval(observe(gasFeeCap, tx.inner)) }
//@ pure func txTipCap(tx *Transaction) int { return bigval(observe(gasTipCap, tx.inner)) }
//@ pure func txNonce(tx *Transaction) int { return observe(nonce, tx.inner) }
//@ pure func txGas(tx *Transaction) int { return observe(gas, tx.inner) }
//@ pure func cmp3(a int, b int) int { return ite(a < b, 0 - 1, ite(a == b, 0, 1)) }
// total cost gas x gasPrice (+ blob gas x blob fee cap) + value: abstract, non-negative
//@ opaque pure func txCost(tx *Transaction) int

//@ func (tx *Transaction) GasFeeCap() (r *big.Int)
//@   serves C41
//@   ensures isfresh(r) && bigval(r) == txFeeCap(tx)

//@ func (tx *Transaction) GasTipCap() (r *big.Int)
//@   serves C41
//@   ensures isfresh(r) && bigval(r) == txTipCap(tx)

//@ func (tx *Transaction) GasFeeCapCmp(other *Transaction) (c int)
//@   serves C41
//@   ensures c == cmp3(txFeeCap(tx), txFeeCap(other))

//@ func (tx *Transaction) GasTipCapCmp(other *Transaction) (c int)
//@   serves C41
//@   ensures c == cmp3(txTipCap(tx), txTipCap(other))

//@ func (tx *Transaction) GasFeeCapIntCmp(other *big.Int) (c int)
//@   serves C41
//@   ensures c == cmp3(txFeeCap(tx), bigval(other))

//@ func (tx *Transaction) GasTipCapIntCmp(other *big.Int) (c int)
//@   serves C41
//@   ensures c == cmp3(txTipCap(tx), bigval(other))

//@ func (tx *Transaction) Nonce() (n uint64)
//@   serves C41
//@   ensures n == txNonce(tx)

//@ func (tx *Transaction) Gas() (g uint64)
//@   serves C41
//@   ensures g == txGas(tx)

//@ func (tx *Transaction) Cost() (c *big.Int)
//@   serves C41
//@   trusted the body dispatches on the dynamic transaction type; assumed to return a fresh big.Int holding the (non-negative) total cost of the immutable transaction
//@   ensures isfresh(c) && bigval(c) == txCost(tx) && txCost(tx) >= 0
