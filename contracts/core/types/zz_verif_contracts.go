//go:build verif

// Machine-checked contracts for package types (verification only).

package types

// Total number of storage keys in an access list (abstract; the Go method sums lengths).
//@ opaque pure func storageKeysOf(al AccessList) int

//@ func (al AccessList) StorageKeys() (n int)
//@   serves C35
//@   trusted sums non-negative slice lengths; wrap-around would need more than 2^63 storage keys in memory (platform bound)
//@   ensures n >= 0 && n == storageKeysOf(al)
