//go:build verif

// Machine-checked contracts for package types (verification only).

package types

// Total number of storage keys in an access list (abstract; the Go method sums lengths).
//@ opaque pure func storageKeysOf(al AccessList) int

//@ func (al AccessList) StorageKeys() (n int)
//@   serves C35
//@   trusted sums non-negative slice lengths; wrap-around would need more than 2^63 storage keys in memory (platform bound)
//@   ensures n >= 0 && n == storageKeysOf(al)

// ---------------------------------------------------------------------------
// Transaction accessors (used by C41). The inner TxData accessors are pure observers:
// a transaction is immutable, so they return the same (pointer) value every time.
// ---------------------------------------------------------------------------

//@ directive pure-observer core/types.TxData).gasFeeCap
//@ directive pure-observer core/types.TxData).gasTipCap
//@ directive pure-observer core/types.TxData).gasPrice
//@ directive pure-observer core/types.TxData).nonce
//@ directive pure-observer core/types.TxData).gas
//@ directive pure-observer core/types.TxData).txType

//@ pure func txFeeCap(tx *Transaction) int { return bigval(observe(gasFeeCap, tx.inner)) }
//@ pure func txTipCap(tx *Transaction) int { return bigval(observe(gasTipCap, tx.inner)) }
//@ pure func txNonce(tx *Transaction) int { return observe(nonce, tx.inner) }
//@ pure func txGas(tx *Transaction) int { return observe(gas, tx.inner) }
//@ pure func cmp3(a int, b int) int { return ite(a < b, 0 - 1, ite(a == b, 0, 1)) }
// total cost gas x gasPrice (+ blob gas x blob fee cap) + value: abstract, non-negative
//@ opaque pure func txCost(tx *Transaction) int

//@ func (tx *Transaction) GasFeeCap() (r *big.Int)
//@   serves C41
//@   ensures isfresh(r) && bigval(r) == txFeeCap(tx)

//@ func (tx *Transaction) GasTipCap() (r *big.Int)
//@   serves C41
//@   ensures isfresh(r) && bigval(r) == txTipCap(tx)

//@ func (tx *Transaction) GasFeeCapCmp(other *Transaction) (c int)
//@   serves C41
//@   ensures c == cmp3(txFeeCap(tx), txFeeCap(other))

//@ func (tx *Transaction) GasTipCapCmp(other *Transaction) (c int)
//@   serves C41
//@   ensures c == cmp3(txTipCap(tx), txTipCap(other))

//@ func (tx *Transaction) GasFeeCapIntCmp(other *big.Int) (c int)
//@   serves C41
//@   ensures c == cmp3(txFeeCap(tx), bigval(other))

//@ func (tx *Transaction) GasTipCapIntCmp(other *big.Int) (c int)
//@   serves C41
//@   ensures c == cmp3(txTipCap(tx), bigval(other))

//@ pure func txTypeOf(tx *Transaction) int { return observe(txType, tx.inner) }

//@ func (tx *Transaction) Type() (t uint8)
//@   serves C03 C41
//@   ensures t == txTypeOf(tx)

//@ func (tx *Transaction) Nonce() (n uint64)
//@   serves C41
//@   ensures n == txNonce(tx)

//@ func (tx *Transaction) Gas() (g uint64)
//@   serves C41
//@   ensures g == txGas(tx)

//@ func (tx *Transaction) Cost() (c *big.Int)
//@   serves C41
//@   trusted the body dispatches on the dynamic transaction type; assumed to return a fresh big.Int holding the (non-negative) total cost of the immutable transaction
//@   ensures isfresh(c) && bigval(c) == txCost(tx) && txCost(tx) >= 0

// ---------------------------------------------------------------------------
// C03: signature value checks and EIP-155 v arithmetic (core/types/transaction_signing.go)
// ---------------------------------------------------------------------------

//@ directive noeffect go-ethereum/crypto.Ecrecover

//@ pure func SECPN() int { return 115792089237316195423570985008687907852837564279074904382605163141518161494337 }
//@ pure func validRS(r int, s int, homestead bool) bool { return 1 <= r && r < SECPN() && 1 <= s && s < SECPN() && (homestead ==> s <= 57896044618658097711785492504343953926418782139537452191302581570759080747168) }

// recoverPlain accepts only v in {27, 28} (in absolute value: a negative V cannot come out of
// the decoder) and in-range r, s (low s from Homestead on).
//@ func recoverPlain(sighash common.Hash, R, S, Vb *big.Int, homestead bool) (addr common.Address, err error)
//@   serves C03
//@   ensures err == nil ==> (abs(bigval(Vb)) == 27 || abs(bigval(Vb)) == 28) && validRS(bigval(R), bigval(S), homestead)
//@   ensures bigval(R) == old(bigval(R)) && bigval(S) == old(bigval(S)) && bigval(Vb) == old(bigval(Vb))

// deriveChainId: v in {27, 28} is unprotected (chain id 0); otherwise chain id == floor((v - 35) / 2).
//@ func deriveChainId(v *big.Int) (id *big.Int)
//@   serves C03
//@   requires bigval(v) >= 0
//@   ensures isfresh(id)
//@   ensures bigval(v) == 27 || bigval(v) == 28 ==> bigval(id) == 0
//@   ensures bigval(v) >= 35 ==> 2 * bigval(id) + 35 <= bigval(v) && bigval(v) <= 2 * bigval(id) + 36
//@   ensures bigval(v) == old(bigval(v))

//@ func isProtectedV(V *big.Int) (p bool)
//@   serves C03
//@   requires bigval(V) >= 0
//@   ensures p == !(bigval(V) == 0 || bigval(V) == 1 || bigval(V) == 27 || bigval(V) == 28)

//@ func decodeSignature(sig []byte) (r, s, v *big.Int, err error)
//@   serves C03
//@   ensures (err == nil) == (len(sig) == 65)
//@   ensures err == nil ==> bigval(r) == bevalue(sig[0:32]) && bigval(s) == bevalue(sig[32:64]) && bigval(v) == (sig[64] + 27) % 256
//@   ensures err == nil ==> bigval(r) < 115792089237316195423570985008687907853269984665640564039457584007913129639936 && bigval(s) < 115792089237316195423570985008687907853269984665640564039457584007913129639936

// EIP-155: V = recovery id + 35 + 2 * chain id (recovery id 0 or 1, as documented).
//@ func (s EIP155Signer) SignatureValues(tx *Transaction, sig []byte) (R, S, V *big.Int, err error)
//@   serves C03
//@   requires len(sig) == 65 ==> sig[64] <= 1
//@   requires s.chainId != nil && bigval(s.chainId) >= 0
//@   ensures err == nil ==> len(sig) == 65 && txTypeOf(tx) == 0
//@   ensures txTypeOf(tx) != 0 ==> err == ErrTxTypeNotSupported
//@   ensures err == nil && bigval(s.chainId) != 0 ==> bigval(V) == sig[64] + 35 + 2 * bigval(s.chainId)
//@   ensures err == nil && bigval(s.chainId) == 0 ==> bigval(V) == sig[64] + 27
//@   ensures err == nil ==> bigval(R) == bevalue(sig[0:32]) && bigval(S) == bevalue(sig[32:64])
//@   ensures bigval(s.chainId) == old(bigval(s.chainId))
//@   nowrap

// With V = b + 35 + 2c (b in {0,1}) the chain id derived from V is c and the value handed to
// recoverPlain by Sender, V - 2c - 8, is b + 27.
//@ lemma eip155VRoundTrip(b int, c int, v int, id int)
//@   serves C03
//@   requires 0 <= b && b <= 1 && c >= 0 && v == b + 35 + 2 * c
//@   requires 2 * id + 35 <= v && v <= 2 * id + 36
//@   ensures id == c && v - 2 * c - 8 == b + 27

// ---- Sender: what each signer hands to recoverPlain (which accepts only v in {27, 28} and
// in-range r, s, see above), and what it refuses before getting there.
//@ directive noeffect core/types.rlpHash
//@ directive noeffect core/types.prefixedRlpHash

// The accessors and the signing-hash functions Sender reads through are assumed not to write
// anything (they are one-line reads of tx.inner and an RLP hash of its fields).
//@ directive bigconst big8 8
//@ directive noeffect types.Transaction).RawSignatureValues
//@ directive noeffect types.Transaction).ChainId
//@ directive noeffect types.Transaction).Protected
//@ directive noeffect types.HomesteadSigner).Hash
//@ directive noeffect types.FrontierSigner).Hash
//@ directive noeffect types.EIP155Signer).Hash

// Homestead: legacy transactions only; V as stored; low-s enforced.
//@ func (hs HomesteadSigner) Sender(tx *Transaction) (addr common.Address, err error)
//@   serves C03
//@   mutates
//@   ghostvar v0 int = 0
//@   oncall RawSignatureValues: v0 = bigval(result0)
//@   ensures txTypeOf(tx) != 0 ==> err == ErrTxTypeNotSupported
//@   atcall recoverPlain requires bigval(arg4) == v0 && arg5

// Frontier: legacy transactions only; V as stored; high s still allowed.
//@ func (fs FrontierSigner) Sender(tx *Transaction) (addr common.Address, err error)
//@   serves C03
//@   mutates
//@   ghostvar v0 int = 0
//@   oncall RawSignatureValues: v0 = bigval(result0)
//@   ensures txTypeOf(tx) != 0 ==> err == ErrTxTypeNotSupported
//@   atcall recoverPlain requires bigval(arg4) == v0 && !arg5

// EIP-155: a protected transaction is accepted only for the signer's chain id, and the value
// checked by recoverPlain is V - 2*chainId - 8 (27 or 28 exactly when V = {35,36} + 2*chainId).
//@ func (s EIP155Signer) Sender(tx *Transaction) (addr common.Address, err error)
//@   serves C03
//@   requires s.chainId != nil
//@   mutates
//@   ghostvar v0 int = 0
//@   ghostvar cid int = 0
//@   ghostvar prot bool = false
//@   oncall RawSignatureValues: v0 = bigval(result0)
//@   oncall ChainId: cid = bigval(result)
//@   oncall Protected: prot = result
//@   ensures txTypeOf(tx) != 0 ==> err == ErrTxTypeNotSupported
//@   ensures err == nil && prot ==> cid == bigval(s.chainId)
//@   atcall recoverPlain requires bigval(arg4) == v0 - 2 * bigval(s.chainId) - 8 && arg5

// Typed transactions (and legacy ones, delegated): a type outside the signer's fork set is
// refused; a typed transaction is accepted only for the signer's chain id, and its recovery
// id 0/1 reaches recoverPlain as 27/28.
//@ directive noeffect types.modernSigner).Hash
//@ directive noeffect types.modernSigner).supportsType
//@ directive noeffect types.Signer).Sender
//@ func (s *modernSigner) Sender(tx *Transaction) (addr common.Address, err error)
//@   serves C03
//@   requires s.chainID != nil
//@   mutates
//@   ghostvar v0 int = 0
//@   ghostvar cid int = 0
//@   ghostvar sup bool = true
//@   oncall RawSignatureValues: v0 = bigval(result0)
//@   oncall ChainId: cid = bigval(result)
//@   oncall supportsType: sup = result
//@   ensures !sup ==> err == ErrTxTypeNotSupported
//@   ensures err == nil && txTypeOf(tx) != 0 ==> cid == bigval(s.chainID)
//@   atcall recoverPlain requires bigval(arg4) == v0 + 27 && arg5

// sanityCheckSignature (used when a transaction is decoded or built from raw values): accepted
// values have r and s in [1, N-1]; a v that cannot be EIP-155 protected must be the bare recovery
// id 0/1, an optionally protected but unprotected v must be 27/28 (not 0/1), and a protected v is
// refused where protection is not allowed. (Values 2..26 and 29..34 count as "protected" here and
// pass with a wrapped chain id - deriveChainId computes (v-35)/2 in uint64; the Sender methods above
// refuse them, which is what the property asks of recovery, so this is noted, not claimed.)
//@ func sanityCheckSignature(v *big.Int, r *big.Int, s *big.Int, maybeProtected bool) (err error)
//@   serves C03
//@   requires bigval(v) >= 0
//@   mutates
//@   ownwrites
//@   ensures err == nil ==> 1 <= bigval(r) && bigval(r) < 115792089237316195423570985008687907852837564279074904382605163141518161494337 && 1 <= bigval(s) && bigval(s) < 115792089237316195423570985008687907852837564279074904382605163141518161494337
//@   ensures err == nil && !maybeProtected ==> bigval(v) == 0 || bigval(v) == 1
//@   ensures err == nil && maybeProtected && (bigval(v) == 0 || bigval(v) == 1 || bigval(v) == 27 || bigval(v) == 28) ==> bigval(v) == 27 || bigval(v) == 28
//@   ensures !maybeProtected && !(bigval(v) == 0 || bigval(v) == 1 || bigval(v) == 27 || bigval(v) == 28) ==> err == ErrUnexpectedProtection
