//go:build verif

// Machine-checked contracts for package rawdb (verification only).

package rawdb

//@ directive pure-observer rawdb.chainFreezer).readHeadNumber
//@ directive pure-observer rawdb.chainFreezer).readFinalizedNumber

// C25 (threshold arithmetic): the freeze threshold is max(finalized, head -. 90000) where -. is
// truncated subtraction, it is unavailable exactly when both are zero, and it never exceeds
// max(head, finalized) -- so nothing above the chain head or the finalized block is ever frozen.
//@ func (f *chainFreezer) freezeThreshold(db ethdb.KeyValueReader) (threshold uint64, err error)
//@   serves C25
//@   ensures (err != nil) == (observe(readFinalizedNumber, f, db) == 0 && observe(readHeadNumber, f, db) <= 90000)
//@   ensures err == nil ==> threshold == max(observe(readFinalizedNumber, f, db), ite(observe(readHeadNumber, f, db) > 90000, observe(readHeadNumber, f, db) - 90000, 0))
//@   ensures err == nil ==> threshold <= max(observe(readHeadNumber, f, db), observe(readFinalizedNumber, f, db)) && threshold > 0
//@   ensures err != nil ==> threshold == 0
//@   nowrap
