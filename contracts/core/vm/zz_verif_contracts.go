//go:build verif

// Machine-checked contracts for package vm (verification only; never built
// without the "verif" tag). Checked by /verif/bin/govc.

package vm

// ---------------------------------------------------------------------------
// C31: two-dimensional gas accounting (core/vm/gascosts.go)
// ---------------------------------------------------------------------------

// Conserved quantities of a frame budget.
//   K1: remaining + consumed + spilled execution gas  (== execution gas the frame was given)
//   K2: reservoir + net state gas used - spilled      (== reservoir the frame was given, while nothing is lent to a child)
//@ pure func K1(g GasBudget) int { return g.ExecutionGas + g.UsedExecutionGas + g.Spilled }
//@ pure func K2(g GasBudget) int { return g.StateGas + g.UsedStateGas - g.Spilled }
//@ pure func TMAX() int { return 2305843009213693952 }
// ranged: caller-history bound (frame budget below T = 2^61, reservoir below T) that keeps the
// signed accumulator from wrapping; it is preserved by every operation (RefundState needs the
// refunded reservoir to stay below T: refunds return state gas charged earlier in the transaction).
//@ pure func ranged(g GasBudget) bool { return K1(g) <= TMAX() && g.StateGas <= TMAX() && 0 <= K2(g) && K2(g) <= TMAX() }
//@ pure func canAfford(g GasBudget, c GasCosts) bool { return g.ExecutionGas >= c.ExecutionGas && (c.StateGas <= g.StateGas || c.StateGas - g.StateGas <= g.ExecutionGas - c.ExecutionGas) }

//@ func NewGasBudget(execution, state uint64) (result GasBudget)
//@   serves C31
//@   ensures result.ExecutionGas == execution && result.StateGas == state
//@   ensures result.UsedExecutionGas == 0 && result.UsedStateGas == 0 && result.Spilled == 0
//@   ensures K1(result) == execution && K2(result) == state

//@ func (g GasBudget) CanAfford(cost GasCosts) (ok bool)
//@   serves C31
//@   ensures ok == canAfford(g, cost)
//@   nowrap

//@ func (g *GasBudget) charge(cost GasCosts) (ok bool)
//@   serves C31
//@   requires ranged(*g)
//@   ensures ok == canAfford(old(*g), cost)
//@   ensures !ok ==> *g == old(*g)
//@   ensures ok ==> K1(*g) == K1(old(*g)) && K2(*g) == K2(old(*g))
//@   ensures ok ==> g.ExecutionGas + g.StateGas + cost.ExecutionGas + cost.StateGas == old(g.ExecutionGas) + old(g.StateGas)
//@   ensures ok ==> g.UsedExecutionGas == old(g.UsedExecutionGas) + cost.ExecutionGas && g.UsedStateGas == old(g.UsedStateGas) + cost.StateGas
//@   ensures ok ==> g.Spilled == old(g.Spilled) + ite(cost.StateGas > old(g.StateGas), cost.StateGas - old(g.StateGas), 0)
//@   ensures ok ==> g.StateGas == ite(cost.StateGas > old(g.StateGas), 0, old(g.StateGas) - cost.StateGas)
//@   ensures ok ==> ranged(*g)
//@   modifies *g
//@   nowrap

//@ func (g *GasBudget) Charge(cost GasCosts) (prior GasBudget, ok bool)
//@   serves C31
//@   requires ranged(*g)
//@   ensures prior == old(*g)
//@   ensures ok == canAfford(old(*g), cost)
//@   ensures !ok ==> *g == old(*g)
//@   ensures ok ==> K1(*g) == K1(old(*g)) && K2(*g) == K2(old(*g)) && ranged(*g)
//@   ensures ok ==> g.ExecutionGas + g.StateGas + cost.ExecutionGas + cost.StateGas == old(g.ExecutionGas) + old(g.StateGas)
//@   ensures ok ==> g.UsedExecutionGas == old(g.UsedExecutionGas) + cost.ExecutionGas && g.UsedStateGas == old(g.UsedStateGas) + cost.StateGas
//@   ensures ok ==> g.Spilled == old(g.Spilled) + ite(cost.StateGas > old(g.StateGas), cost.StateGas - old(g.StateGas), 0)
//@   ensures ok ==> g.StateGas == ite(cost.StateGas > old(g.StateGas), 0, old(g.StateGas) - cost.StateGas)
//@   modifies *g
//@   nowrap

//@ func (g *GasBudget) ChargeExecutionOnly(r uint64) (ok bool)
//@   serves C31
//@   requires ranged(*g)
//@   ensures ok == (old(g.ExecutionGas) >= r)
//@   ensures !ok ==> *g == old(*g)
//@   ensures ok ==> g.ExecutionGas == old(g.ExecutionGas) - r && g.UsedExecutionGas == old(g.UsedExecutionGas) + r
//@   ensures g.StateGas == old(g.StateGas) && g.UsedStateGas == old(g.UsedStateGas) && g.Spilled == old(g.Spilled)
//@   ensures K1(*g) == K1(old(*g)) && K2(*g) == K2(old(*g)) && ranged(*g)
//@   modifies *g
//@   nowrap

//@ func (g *GasBudget) ChargeExecution(r uint64) (prior GasBudget, ok bool)
//@   serves C31
//@   requires ranged(*g)
//@   ensures prior == old(*g)
//@   ensures ok == (old(g.ExecutionGas) >= r)
//@   ensures !ok ==> *g == old(*g)
//@   ensures ok ==> g.ExecutionGas == old(g.ExecutionGas) - r && g.UsedExecutionGas == old(g.UsedExecutionGas) + r
//@   ensures ok ==> g.StateGas == old(g.StateGas) && g.UsedStateGas == old(g.UsedStateGas) && g.Spilled == old(g.Spilled)
//@   ensures K1(*g) == K1(old(*g)) && K2(*g) == K2(old(*g)) && ranged(*g)
//@   modifies *g
//@   nowrap

//@ func (g *GasBudget) ChargeState(s uint64) (prior GasBudget, ok bool)
//@   serves C31
//@   requires ranged(*g)
//@   ensures prior == old(*g)
//@   ensures ok == (s <= old(g.StateGas) || s - old(g.StateGas) <= old(g.ExecutionGas))
//@   ensures !ok ==> *g == old(*g)
//@   ensures ok ==> g.ExecutionGas + g.StateGas + s == old(g.ExecutionGas) + old(g.StateGas)
//@   ensures ok ==> g.UsedExecutionGas == old(g.UsedExecutionGas) && g.UsedStateGas == old(g.UsedStateGas) + s
//@   ensures K1(*g) == K1(old(*g)) && K2(*g) == K2(old(*g)) && ranged(*g)
//@   modifies *g
//@   nowrap

// RefundState: the refund returns state gas charged earlier in the same transaction, so
// the reservoir cannot grow beyond the budget bound (caller obligation).
//@ func (g *GasBudget) RefundState(s uint64)
//@   serves C31
//@   requires ranged(*g) && g.StateGas + s <= TMAX()
//@   ensures K1(*g) == K1(old(*g)) && K2(*g) == K2(old(*g)) && ranged(*g)
//@   ensures g.ExecutionGas + g.StateGas == old(g.ExecutionGas) + old(g.StateGas) + s
//@   ensures g.Spilled == old(g.Spilled) - min(s, old(g.Spilled))
//@   ensures g.ExecutionGas == old(g.ExecutionGas) + min(s, old(g.Spilled))
//@   ensures g.UsedStateGas == old(g.UsedStateGas) - s && g.UsedExecutionGas == old(g.UsedExecutionGas)
//@   modifies *g
//@   nowrap

//@ func (g *GasBudget) DrainExecution()
//@   serves C31
//@   requires ranged(*g)
//@   ensures g.ExecutionGas == 0 && g.UsedExecutionGas == old(g.UsedExecutionGas) + old(g.ExecutionGas)
//@   ensures g.StateGas == old(g.StateGas) && g.UsedStateGas == old(g.UsedStateGas) && g.Spilled == old(g.Spilled)
//@   ensures K1(*g) == K1(old(*g)) && K2(*g) == K2(old(*g)) && ranged(*g)
//@   modifies *g
//@   nowrap

// Forward: the parent lends its whole reservoir to the child. Afterwards
//   K1(parent) is unchanged, K2(parent) dropped by exactly the lent reservoir,
//   and the child starts with K1(child) == execution, K2(child) == lent reservoir.
//@ func (g *GasBudget) Forward(execution uint64) (child GasBudget)
//@   serves C31
//@   requires ranged(*g) && execution <= g.ExecutionGas
//@   ensures child.ExecutionGas == execution && child.StateGas == old(g.StateGas)
//@   ensures child.UsedExecutionGas == 0 && child.UsedStateGas == 0 && child.Spilled == 0
//@   ensures g.ExecutionGas == old(g.ExecutionGas) - execution && g.UsedExecutionGas == old(g.UsedExecutionGas) + execution
//@   ensures g.StateGas == 0 && g.UsedStateGas == old(g.UsedStateGas) && g.Spilled == old(g.Spilled)
//@   ensures K1(*g) == K1(old(*g)) && K2(*g) + old(g.StateGas) == K2(old(*g))
//@   ensures K1(child) == execution && K2(child) == old(g.StateGas) && ranged(child)
//@   modifies *g
//@   nowrap

//@ func (g *GasBudget) ForwardAll() (child GasBudget)
//@   serves C31
//@   requires ranged(*g)
//@   ensures child.ExecutionGas == old(g.ExecutionGas) && child.StateGas == old(g.StateGas)
//@   ensures child.UsedExecutionGas == 0 && child.UsedStateGas == 0 && child.Spilled == 0
//@   ensures g.ExecutionGas == 0 && g.UsedExecutionGas == old(g.UsedExecutionGas) + old(g.ExecutionGas)
//@   ensures g.StateGas == 0 && g.UsedStateGas == old(g.UsedStateGas) && g.Spilled == old(g.Spilled)
//@   ensures K1(*g) == K1(old(*g)) && K2(*g) + old(g.StateGas) == K2(old(*g))
//@   ensures K1(child) == old(g.ExecutionGas) && K2(child) == old(g.StateGas) && ranged(child)
//@   modifies *g
//@   nowrap

//@ func (g GasBudget) ExitSuccess() (result GasBudget)
//@   serves C31
//@   ensures result == g

// A reverted frame hands back the reservoir it started with (K2) and its unspent
// execution gas including what it had borrowed for state gas.
//@ func (g GasBudget) ExitRevert() (result GasBudget)
//@   serves C31
//@   requires ranged(g)
//@   ensures result.StateGas == K2(g)
//@   ensures result.ExecutionGas == g.ExecutionGas + g.Spilled
//@   ensures result.UsedExecutionGas == g.UsedExecutionGas && result.UsedStateGas == 0 && result.Spilled == 0
//@   ensures K1(result) == K1(g) && K2(result) == K2(g) && ranged(result)
//@   nowrap

// A halted frame hands back its initial reservoir (K2) and no execution gas.
//@ func (g GasBudget) ExitHalt() (result GasBudget)
//@   serves C31
//@   requires ranged(g)
//@   ensures result.StateGas == K2(g)
//@   ensures result.ExecutionGas == 0
//@   ensures result.UsedExecutionGas == K1(g) && result.UsedStateGas == 0 && result.Spilled == 0
//@   ensures K1(result) == K1(g) && K2(result) == K2(g) && ranged(result)
//@   nowrap

//@ func (g GasBudget) Exit(err error) (result GasBudget)
//@   serves C31
//@   requires ranged(g)
//@   ensures err == nil ==> result == g
//@   ensures err != nil ==> result.StateGas == K2(g) && result.UsedStateGas == 0 && result.Spilled == 0
//@   ensures err == ErrExecutionReverted ==> result.ExecutionGas == g.ExecutionGas + g.Spilled && result.UsedExecutionGas == g.UsedExecutionGas
//@   ensures err != nil && err != ErrExecutionReverted ==> result.ExecutionGas == 0 && result.UsedExecutionGas == K1(g)
//@   ensures K1(result) == K1(g) && K2(result) == K2(g) && ranged(result)
//@   nowrap

// Absorb: the child's leftover is merged back. fwd is what Forward added to the
// parent's UsedExecutionGas for this child, i.e. K1(child) <= g.UsedExecutionGas.
//@ func (g *GasBudget) Absorb(child GasBudget)
//@   serves C31
//@   requires g.StateGas == 0
//@   requires K1(child) <= g.UsedExecutionGas
//@   requires K1(*g) <= TMAX() && 0 <= K2(*g) + K2(child) && K2(*g) + K2(child) <= TMAX() && child.StateGas <= TMAX()
//@   requires 0 - TMAX() <= g.UsedStateGas && g.UsedStateGas <= 2*TMAX() && 0 - TMAX() <= child.UsedStateGas && child.UsedStateGas <= 2*TMAX()
//@   ensures K1(*g) == K1(old(*g))
//@   ensures K2(*g) == K2(old(*g)) + K2(child)
//@   ensures g.ExecutionGas == old(g.ExecutionGas) + child.ExecutionGas && g.StateGas == child.StateGas
//@   ensures g.UsedExecutionGas == old(g.UsedExecutionGas) - child.ExecutionGas - child.Spilled
//@   ensures g.UsedStateGas == old(g.UsedStateGas) + child.UsedStateGas && g.Spilled == old(g.Spilled) + child.Spilled
//@   ensures ranged(*g)
//@   modifies *g
//@   nowrap

//@ func (g GasBudget) Used(initial GasBudget) (used uint64)
//@   serves C31
//@   requires g.ExecutionGas + g.StateGas <= initial.ExecutionGas + initial.StateGas
//@   requires initial.ExecutionGas + initial.StateGas <= 2*TMAX()
//@   ensures used == initial.ExecutionGas + initial.StateGas - g.ExecutionGas - g.StateGas
//@   ensures used <= initial.ExecutionGas + initial.StateGas
//@   nowrap

//@ func (g *GasBudget) IsZero() (z bool)
//@   serves C31
//@   ensures z == (g.ExecutionGas == 0 && g.StateGas == 0)

// ---------------------------------------------------------------------------
// Getters used by callers in package core
// ---------------------------------------------------------------------------

//@ func (evm *EVM) ChainConfig() (c *params.ChainConfig)
//@   serves C31
//@   ensures c == evm.chainConfig

// ---------------------------------------------------------------------------
// C29 / C31 / C27: frame functions (core/vm/evm.go)
//
// Ghost state of one frame activation:
//   hasSnap, snap : a snapshot was taken and its id
//   dirty         : the world state was (possibly) mutated since the snapshot and not reverted to it
//   early         : a mutating call happened before any snapshot was taken
// Clause "err != nil ==> !dirty": every failing exit has rolled the state back to the
// snapshot taken at frame entry. That RevertToSnapshot restores everything is a property
// of the state database journal and is not proved here.
// ---------------------------------------------------------------------------

//@ directive pure-observer core/vm.StateDB).Exist
//@ directive pure-observer core/vm.StateDB).Empty
//@ directive pure-observer core/vm.StateDB).GetNonce
//@ directive pure-observer core/vm.StateDB).GetCodeHash
//@ directive pure-observer core/vm.StateDB).GetCode
//@ directive pure-observer core/vm.StateDB).GetBalance
//@ directive pure-observer funcfield:BlockContext.CanTransfer
//@ directive pure-observer (*github.com/ethereum/go-ethereum/core/tracing.Hooks).HasGasHook
//@ directive noeffect (*github.com/ethereum/go-ethereum/core/tracing.Hooks).
//@ directive noeffect vm.EVM).captureBegin
//@ directive noeffect vm.EVM).captureEnd
//@ directive noeffect core/vm.isSystemCall
//@ directive noeffect vm.EVM).precompile
//@ directive noeffect vm.EVM).resolveCode
//@ directive noeffect core/vm.isEIP7610RejectedAccount
//@ directive readonly-args core/vm.PrecompiledContract).RequiredGas
//@ directive readonly-args core/vm.PrecompiledContract).Run
//@ directive readonly-args funcfield:BlockContext.Transfer
//@ directive readonly-args core/vm.precompileCacheKey
//@ directive readonly-args vm.PrecompileCache).load
//@ directive readonly-args vm.PrecompileCache).store

// A frame budget as produced by Forward / NewGasBudget: nothing used yet.
//@ pure func freshBudget(g GasBudget) bool { return g.UsedExecutionGas == 0 && g.UsedStateGas == 0 && g.Spilled == 0 && g.ExecutionGas <= TMAX() && g.StateGas <= TMAX() }

//@ func NewContract(caller common.Address, address common.Address, value *uint256.Int, gas GasBudget, jumpDests JumpDestCache) (c *Contract)
//@   serves C29 C31
//@   nilable value
//@   ensures isfresh(c) && c.Gas == gas && c.value == value && c.IsDeployment == false && c.IsSystemCall == false

//@ func (c *Contract) SetCallCode(hash common.Hash, code []byte)
//@   serves C29 C31
//@   ensures c.Code == code && c.CodeHash == hash
//@   modifies c.Code, c.CodeHash

// The interpreter loop: assumed to conserve the frame budget it is given (K1 and K2).
//@ func (evm *EVM) Run(contract *Contract, input []byte, readOnly bool) (ret []byte, err error)
//@   serves C29 C31
//@   trusted interpreter loop (jump-table dispatch over ~150 opcodes) is outside the verified subset; assumed to conserve K1 and K2 of the frame budget, as every opcode charges through the GasBudget methods verified under C31
//@   requires ranged(contract.Gas)
//@   modifies contract.Gas, contract.Input, evm.depth, evm.readOnly, evm.returnData
//@   mutates
//@   ensures K1(contract.Gas) == old(K1(contract.Gas)) && K2(contract.Gas) == old(K2(contract.Gas)) && ranged(contract.Gas)

//@ func (evm *EVM) initNewContract(contract *Contract, address common.Address) (ret []byte, err error)
//@   serves C29 C31
//@   trusted runs the init code through the interpreter (see Run) and charges code-deposit gas through the GasBudget methods
//@   requires ranged(contract.Gas)
//@   modifies contract.Gas, contract.Input, evm.depth, evm.readOnly, evm.returnData
//@   mutates
//@   ensures K1(contract.Gas) == old(K1(contract.Gas)) && K2(contract.Gas) == old(K2(contract.Gas)) && ranged(contract.Gas)

//@ func RunPrecompiledContract(stateDB StateDB, p PrecompiledContract, address common.Address, input []byte, gas GasBudget, logger *tracing.Hooks, rules params.Rules, cache *PrecompileCache) (ret []byte, remaining GasBudget, err error)
//@   serves C29 C31
//@   nilable logger, cache
//@   requires ranged(gas)
//@   mutates
//@   ensures K1(remaining) == K1(gas) && K2(remaining) == K2(gas) && ranged(remaining)
//@   ensures remaining.StateGas == gas.StateGas && remaining.UsedStateGas == gas.UsedStateGas && remaining.Spilled == gas.Spilled
//@   modifies *cache

//@ func (evm *EVM) createFramePreCheck(caller common.Address, value *uint256.Int) (err error)
//@   serves C29 C32
//@   ensures err == nil ==> evm.depth <= 1024
//@   ghostvar canT bool = false
//@   oncall CanTransfer: canT = result
//@   atcall funcfield:BlockContext.CanTransfer requires arg2 == caller && arg3 == value
//@   ensures err == nil ==> canT

//@ func (evm *EVM) Call(caller common.Address, addr common.Address, input []byte, gas GasBudget, value *uint256.Int) (ret []byte, result GasBudget, err error)
//@   serves C29 C31 C27 C32
//@   requires freshBudget(gas)
//@   ghostvar hasSnap bool = false
//@   ghostvar snap int = 0
//@   ghostvar dirty bool = false
//@   ghostvar early bool = false
//@   oncall Snapshot: hasSnap = true; snap = result; dirty = false
//@   oncall RevertToSnapshot: dirty = dirty && !(hasSnap && arg1 == snap)
//@   oncall CreateAccount CreateContract SetNonce SetCode SetState SetTransientState AddBalance SubBalance SelfDestruct SelfDestruct6780 AddLog AddRefund SubRefund Touch Transfer Run RunPrecompiledContract initNewContract: dirty = true; early = early || !hasSnap
//@   ensures err != nil ==> !dirty
//@   ensures !early
//@   ensures K1(result) == K1(gas) && K2(result) == K2(gas) && ranged(result)
//@   ensures err != nil ==> result.StateGas == gas.StateGas && result.UsedStateGas == 0 && result.Spilled == 0
//@   ensures err != nil && err != ErrExecutionReverted && err != ErrDepth && err != ErrInsufficientBalance ==> result.ExecutionGas == 0
//@   modifies evm.depth, evm.readOnly, evm.returnData, *evm.AccessEvents, *evm.precompileCache
//@   mutates
//@   ghostvar canT bool = false
//@   ghostvar ntransfer int = 0
//@   oncall CanTransfer: canT = result
//@   oncall Transfer: ntransfer = ntransfer + 1
//@   atcall funcfield:BlockContext.Transfer requires (u256val(arg4) == 0 || canT) && arg2 == caller && arg3 == addr && arg4 == value
//@   atcall funcfield:BlockContext.CanTransfer requires arg2 == caller && arg3 == value
//@   ensures ntransfer <= 1

//@ func (evm *EVM) CallCode(caller common.Address, addr common.Address, input []byte, gas GasBudget, value *uint256.Int) (ret []byte, result GasBudget, err error)
//@   serves C29 C31 C27
//@   requires freshBudget(gas)
//@   ghostvar hasSnap bool = false
//@   ghostvar snap int = 0
//@   ghostvar dirty bool = false
//@   ghostvar early bool = false
//@   oncall Snapshot: hasSnap = true; snap = result; dirty = false
//@   oncall RevertToSnapshot: dirty = dirty && !(hasSnap && arg1 == snap)
//@   oncall SetNonce CreateAccount CreateContract SetCode SetState SetTransientState AddBalance SubBalance SelfDestruct SelfDestruct6780 AddLog AddRefund SubRefund Touch Transfer Run RunPrecompiledContract initNewContract: dirty = true; early = early || !hasSnap
//@   ensures err != nil ==> !dirty
//@   ensures !early
//@   ensures K1(result) == K1(gas) && K2(result) == K2(gas) && ranged(result)
//@   ensures err != nil ==> result.StateGas == gas.StateGas && result.UsedStateGas == 0 && result.Spilled == 0
//@   modifies evm.depth, evm.readOnly, evm.returnData, *evm.AccessEvents, *evm.precompileCache
//@   mutates
//@   ghostvar ntransfer int = 0
//@   oncall Transfer: ntransfer = ntransfer + 1
//@   ensures ntransfer == 0

//@ func (evm *EVM) DelegateCall(originCaller common.Address, caller common.Address, addr common.Address, input []byte, gas GasBudget, value *uint256.Int) (ret []byte, result GasBudget, err error)
//@   serves C29 C31 C27
//@   requires freshBudget(gas)
//@   ghostvar hasSnap bool = false
//@   ghostvar snap int = 0
//@   ghostvar dirty bool = false
//@   ghostvar early bool = false
//@   oncall Snapshot: hasSnap = true; snap = result; dirty = false
//@   oncall RevertToSnapshot: dirty = dirty && !(hasSnap && arg1 == snap)
//@   oncall SetNonce CreateAccount CreateContract SetCode SetState SetTransientState AddBalance SubBalance SelfDestruct SelfDestruct6780 AddLog AddRefund SubRefund Touch Transfer Run RunPrecompiledContract initNewContract: dirty = true; early = early || !hasSnap
//@   ensures err != nil ==> !dirty
//@   ensures !early
//@   ensures K1(result) == K1(gas) && K2(result) == K2(gas) && ranged(result)
//@   ensures err != nil ==> result.StateGas == gas.StateGas && result.UsedStateGas == 0 && result.Spilled == 0
//@   modifies evm.depth, evm.readOnly, evm.returnData, *evm.AccessEvents, *evm.precompileCache
//@   mutates
//@   ghostvar ntransfer int = 0
//@   oncall Transfer: ntransfer = ntransfer + 1
//@   ensures ntransfer == 0

//@ func (evm *EVM) StaticCall(caller common.Address, addr common.Address, input []byte, gas GasBudget) (ret []byte, result GasBudget, err error)
//@   serves C29 C31 C27
//@   requires freshBudget(gas)
//@   ghostvar hasSnap bool = false
//@   ghostvar snap int = 0
//@   ghostvar dirty bool = false
//@   ghostvar early bool = false
//@   oncall Snapshot: hasSnap = true; snap = result; dirty = false
//@   oncall RevertToSnapshot: dirty = dirty && !(hasSnap && arg1 == snap)
//@   oncall SetNonce CreateAccount CreateContract SetCode SetState SetTransientState AddBalance SubBalance SelfDestruct SelfDestruct6780 AddLog AddRefund SubRefund Touch Transfer Run RunPrecompiledContract initNewContract: dirty = true; early = early || !hasSnap
//@   ensures err != nil ==> !dirty
//@   ensures !early
//@   ensures K1(result) == K1(gas) && K2(result) == K2(gas) && ranged(result)
//@   ensures err != nil ==> result.StateGas == gas.StateGas && result.UsedStateGas == 0 && result.Spilled == 0
//@   modifies evm.depth, evm.readOnly, evm.returnData, *evm.AccessEvents, *evm.precompileCache
//@   mutates
//@   ghostvar ntransfer int = 0
//@   oncall Transfer: ntransfer = ntransfer + 1
//@   ensures ntransfer == 0

// create: the caller's nonce bump and the access-list warm-up happen before the snapshot on
// purpose (they survive a failed creation); everything after the snapshot must be rolled back
// on failure, except that pre-Homestead a code-store out-of-gas is treated as success.
//@ func (evm *EVM) create(caller common.Address, code []byte, gas GasBudget, value *uint256.Int, address common.Address, typ OpCode) (ret []byte, createAddress common.Address, result GasBudget, err error)
//@   serves C29 C31 C27 C32
//@   requires freshBudget(gas)
//@   ghostvar hasSnap bool = false
//@   ghostvar snap int = 0
//@   ghostvar dirty bool = false
//@   ghostvar early bool = false
//@   oncall Snapshot: hasSnap = true; snap = result; dirty = false
//@   oncall RevertToSnapshot: dirty = dirty && !(hasSnap && arg1 == snap)
//@   oncall SetNonce: dirty = dirty || hasSnap
//@   oncall CreateAccount CreateContract SetCode SetState SetTransientState AddBalance SubBalance SelfDestruct SelfDestruct6780 AddLog AddRefund SubRefund Touch Transfer Run RunPrecompiledContract initNewContract: dirty = true; early = early || !hasSnap
//@   ensures err != nil && (evm.chainRules.IsHomestead || err != ErrCodeStoreOutOfGas) ==> !dirty
//@   ensures !early
//@   ensures K1(result) == K1(gas) && K2(result) == K2(gas) && ranged(result)
//@   ensures err != nil && (evm.chainRules.IsHomestead || err != ErrCodeStoreOutOfGas) ==> result.StateGas == gas.StateGas && result.UsedStateGas == 0 && result.Spilled == 0
//@   modifies evm.depth, evm.readOnly, evm.returnData, *evm.AccessEvents, *evm.precompileCache
//@   mutates
//@   ghostvar pre bool = false
//@   ghostvar ntransfer int = 0
//@   oncall createFramePreCheck: pre = result == nil
//@   oncall Transfer: ntransfer = ntransfer + 1
//@   atcall funcfield:BlockContext.Transfer requires (evm.chainRules.IsAmsterdam || pre) && arg2 == caller && arg3 == address && arg4 == value
//@   atcall createFramePreCheck requires arg2 == caller && arg3 == value
//@   ensures ntransfer <= 1

//@ func (evm *EVM) Create(caller common.Address, code []byte, gas GasBudget, value *uint256.Int) (ret []byte, contractAddr common.Address, result GasBudget, err error)
//@   serves C29 C31
//@   requires freshBudget(gas)
//@   ensures K1(result) == K1(gas) && K2(result) == K2(gas) && ranged(result)
//@   ensures err != nil && (evm.chainRules.IsHomestead || err != ErrCodeStoreOutOfGas) ==> result.StateGas == gas.StateGas && result.UsedStateGas == 0 && result.Spilled == 0
//@   modifies evm.depth, evm.readOnly, evm.returnData, *evm.AccessEvents, *evm.precompileCache
//@   mutates

// ================================================================ C27 / C28: operand stack, memory, size and gas arithmetic

// Representation invariant of a stack frame carved out of the shared arena: the arena's first
// free slot is exactly this frame's top, the frame holds at most 1024 items and the arena has
// room for all of them (stackArena.stack guarantees len(data) >= bottom+1024).
//@ pure func stackInv(s *Stack) bool { return s.inner != nil && 0 <= s.bottom && 0 <= s.size && s.size <= 1024 && s.inner.top == s.bottom + s.size && s.bottom + 1024 <= len(s.inner.data) }
// Value of the n-th item from the top.
//@ pure func sval(s *Stack, n int) int { return s.inner.data[s.bottom + s.size - n - 1] }

//@ func (s *Stack) len() (n int)
//@   serves C27 C28
//@   ensures n == s.size

//@ func (s *Stack) back(n int) (r *uint256.Int)
//@   serves C27 C28
//@   requires stackInv(s) && 0 <= n && n < s.size
//@   ensures r == &s.inner.data[s.bottom + s.size - n - 1] && u256val(r) == sval(s, n)

//@ func (s *Stack) peek() (r *uint256.Int)
//@   serves C27 C28
//@   requires stackInv(s) && 1 <= s.size
//@   ensures r == &s.inner.data[s.bottom + s.size - 1] && u256val(r) == sval(s, 0)

//@ func (s *Stack) get() (elem *uint256.Int)
//@   serves C27 C28
//@   requires stackInv(s) && s.size < 1024
//@   modifies s.size, s.inner.top
//@   ensures stackInv(s) && s.size == old(s.size) + 1 && elem == &s.inner.data[s.bottom + s.size - 1]

// push writes exactly one arena slot: the one just above the old top.
//@ func (s *Stack) push(d *uint256.Int)
//@   serves C27 C28
//@   requires stackInv(s) && s.size < 1024
//@   modifies s.size, s.inner.top, s.inner.data[s.bottom + s.size : s.bottom + s.size + 1]
//@   ensures stackInv(s) && s.size == old(s.size) + 1 && sval(s, 0) == old(u256val(d))

//@ func (s *Stack) pop() (v uint256.Int)
//@   serves C27 C28
//@   requires stackInv(s) && 1 <= s.size
//@   modifies s.size, s.inner.top
//@   ensures stackInv(s) && s.size == old(s.size) - 1 && v == old(sval(s, 0))

//@ func (s *Stack) drop()
//@   serves C27 C28
//@   requires stackInv(s) && 1 <= s.size
//@   modifies s.size, s.inner.top
//@   ensures stackInv(s) && s.size == old(s.size) - 1

//@ func (s *Stack) pop1() (top *uint256.Int)
//@   serves C27 C28
//@   requires stackInv(s) && 1 <= s.size
//@   modifies s.size, s.inner.top
//@   ensures stackInv(s) && s.size == old(s.size) - 1 && top == &s.inner.data[s.bottom + s.size]

//@ func (s *Stack) pop2() (top, second *uint256.Int)
//@   serves C27 C28
//@   requires stackInv(s) && 2 <= s.size
//@   modifies s.size, s.inner.top
//@   ensures stackInv(s) && s.size == old(s.size) - 2 && top == &s.inner.data[s.bottom + s.size + 1] && second == &s.inner.data[s.bottom + s.size]

//@ func (s *Stack) pop3() (top, second, third *uint256.Int)
//@   serves C27 C28
//@   requires stackInv(s) && 3 <= s.size
//@   modifies s.size, s.inner.top
//@   ensures stackInv(s) && s.size == old(s.size) - 3 && top == &s.inner.data[s.bottom + s.size + 2] && second == &s.inner.data[s.bottom + s.size + 1] && third == &s.inner.data[s.bottom + s.size]

//@ func (s *Stack) pop4() (top, second, third, fourth *uint256.Int)
//@   serves C27 C28
//@   requires stackInv(s) && 4 <= s.size
//@   modifies s.size, s.inner.top
//@   ensures stackInv(s) && s.size == old(s.size) - 4 && top == &s.inner.data[s.bottom + s.size + 3] && second == &s.inner.data[s.bottom + s.size + 2] && third == &s.inner.data[s.bottom + s.size + 1] && fourth == &s.inner.data[s.bottom + s.size]

//@ func (s *Stack) pop1Peek1() (top, rest *uint256.Int)
//@   serves C27 C28
//@   requires stackInv(s) && 2 <= s.size
//@   modifies s.size, s.inner.top
//@   ensures stackInv(s) && s.size == old(s.size) - 1 && top == &s.inner.data[s.bottom + s.size] && rest == &s.inner.data[s.bottom + s.size - 1]

//@ func (s *Stack) pop2Peek1() (top, second, rest *uint256.Int)
//@   serves C27 C28
//@   requires stackInv(s) && 3 <= s.size
//@   modifies s.size, s.inner.top
//@   ensures stackInv(s) && s.size == old(s.size) - 2 && top == &s.inner.data[s.bottom + s.size + 1] && second == &s.inner.data[s.bottom + s.size] && rest == &s.inner.data[s.bottom + s.size - 1]

// dup(n) copies the n-th item from the top into the slot above the top and touches nothing else.
//@ func (s *Stack) dup(n int)
//@   serves C27 C28
//@   requires stackInv(s) && 1 <= n && n <= s.size && s.size < 1024
//@   modifies s.size, s.inner.top, s.inner.data[s.bottom + s.size : s.bottom + s.size + 1]
//@   ensures stackInv(s) && s.size == old(s.size) + 1 && sval(s, 0) == old(sval(s, n - 1))

// release hands the frame's slots back to the arena (the parent frame's invariant holds again).
//@ func (s *Stack) release()
//@   serves C27 C28
//@   requires s.inner != nil
//@   modifies s.inner.top
//@   ensures s.inner.top == s.bottom

//@ func (s *Stack) Data() (d []uint256.Int)
//@   serves C27 C28
//@   requires stackInv(s)
//@   ensures d == s.inner.data[s.bottom : s.bottom + s.size]

//@ func (s *Stack) swap1()
//@   serves C27 C28
//@   requires stackInv(s) && 2 <= s.size
//@   modifies s.inner.data[s.bottom + s.size - 2 : s.bottom + s.size]
//@   ensures sval(s, 0) == old(sval(s, 1)) && sval(s, 1) == old(sval(s, 0))
//@   ensures forall k int :: 0 < k && k < 1 ==> sval(s, k) == old(sval(s, k))

//@ func (s *Stack) swap2()
//@   serves C27 C28
//@   requires stackInv(s) && 3 <= s.size
//@   modifies s.inner.data[s.bottom + s.size - 3 : s.bottom + s.size]
//@   ensures sval(s, 0) == old(sval(s, 2)) && sval(s, 2) == old(sval(s, 0))
//@   ensures forall k int :: 0 < k && k < 2 ==> sval(s, k) == old(sval(s, k))

//@ func (s *Stack) swap3()
//@   serves C27 C28
//@   requires stackInv(s) && 4 <= s.size
//@   modifies s.inner.data[s.bottom + s.size - 4 : s.bottom + s.size]
//@   ensures sval(s, 0) == old(sval(s, 3)) && sval(s, 3) == old(sval(s, 0))
//@   ensures forall k int :: 0 < k && k < 3 ==> sval(s, k) == old(sval(s, k))

//@ func (s *Stack) swap4()
//@   serves C27 C28
//@   requires stackInv(s) && 5 <= s.size
//@   modifies s.inner.data[s.bottom + s.size - 5 : s.bottom + s.size]
//@   ensures sval(s, 0) == old(sval(s, 4)) && sval(s, 4) == old(sval(s, 0))
//@   ensures forall k int :: 0 < k && k < 4 ==> sval(s, k) == old(sval(s, k))

//@ func (s *Stack) swap5()
//@   serves C27 C28
//@   requires stackInv(s) && 6 <= s.size
//@   modifies s.inner.data[s.bottom + s.size - 6 : s.bottom + s.size]
//@   ensures sval(s, 0) == old(sval(s, 5)) && sval(s, 5) == old(sval(s, 0))
//@   ensures forall k int :: 0 < k && k < 5 ==> sval(s, k) == old(sval(s, k))

//@ func (s *Stack) swap6()
//@   serves C27 C28
//@   requires stackInv(s) && 7 <= s.size
//@   modifies s.inner.data[s.bottom + s.size - 7 : s.bottom + s.size]
//@   ensures sval(s, 0) == old(sval(s, 6)) && sval(s, 6) == old(sval(s, 0))
//@   ensures forall k int :: 0 < k && k < 6 ==> sval(s, k) == old(sval(s, k))

//@ func (s *Stack) swap7()
//@   serves C27 C28
//@   requires stackInv(s) && 8 <= s.size
//@   modifies s.inner.data[s.bottom + s.size - 8 : s.bottom + s.size]
//@   ensures sval(s, 0) == old(sval(s, 7)) && sval(s, 7) == old(sval(s, 0))
//@   ensures forall k int :: 0 < k && k < 7 ==> sval(s, k) == old(sval(s, k))

//@ func (s *Stack) swap8()
//@   serves C27 C28
//@   requires stackInv(s) && 9 <= s.size
//@   modifies s.inner.data[s.bottom + s.size - 9 : s.bottom + s.size]
//@   ensures sval(s, 0) == old(sval(s, 8)) && sval(s, 8) == old(sval(s, 0))
//@   ensures forall k int :: 0 < k && k < 8 ==> sval(s, k) == old(sval(s, k))

//@ func (s *Stack) swap9()
//@   serves C27 C28
//@   requires stackInv(s) && 10 <= s.size
//@   modifies s.inner.data[s.bottom + s.size - 10 : s.bottom + s.size]
//@   ensures sval(s, 0) == old(sval(s, 9)) && sval(s, 9) == old(sval(s, 0))
//@   ensures forall k int :: 0 < k && k < 9 ==> sval(s, k) == old(sval(s, k))

//@ func (s *Stack) swap10()
//@   serves C27 C28
//@   requires stackInv(s) && 11 <= s.size
//@   modifies s.inner.data[s.bottom + s.size - 11 : s.bottom + s.size]
//@   ensures sval(s, 0) == old(sval(s, 10)) && sval(s, 10) == old(sval(s, 0))
//@   ensures forall k int :: 0 < k && k < 10 ==> sval(s, k) == old(sval(s, k))

//@ func (s *Stack) swap11()
//@   serves C27 C28
//@   requires stackInv(s) && 12 <= s.size
//@   modifies s.inner.data[s.bottom + s.size - 12 : s.bottom + s.size]
//@   ensures sval(s, 0) == old(sval(s, 11)) && sval(s, 11) == old(sval(s, 0))
//@   ensures forall k int :: 0 < k && k < 11 ==> sval(s, k) == old(sval(s, k))

//@ func (s *Stack) swap12()
//@   serves C27 C28
//@   requires stackInv(s) && 13 <= s.size
//@   modifies s.inner.data[s.bottom + s.size - 13 : s.bottom + s.size]
//@   ensures sval(s, 0) == old(sval(s, 12)) && sval(s, 12) == old(sval(s, 0))
//@   ensures forall k int :: 0 < k && k < 12 ==> sval(s, k) == old(sval(s, k))

//@ func (s *Stack) swap13()
//@   serves C27 C28
//@   requires stackInv(s) && 14 <= s.size
//@   modifies s.inner.data[s.bottom + s.size - 14 : s.bottom + s.size]
//@   ensures sval(s, 0) == old(sval(s, 13)) && sval(s, 13) == old(sval(s, 0))
//@   ensures forall k int :: 0 < k && k < 13 ==> sval(s, k) == old(sval(s, k))

//@ func (s *Stack) swap14()
//@   serves C27 C28
//@   requires stackInv(s) && 15 <= s.size
//@   modifies s.inner.data[s.bottom + s.size - 15 : s.bottom + s.size]
//@   ensures sval(s, 0) == old(sval(s, 14)) && sval(s, 14) == old(sval(s, 0))
//@   ensures forall k int :: 0 < k && k < 14 ==> sval(s, k) == old(sval(s, k))

//@ func (s *Stack) swap15()
//@   serves C27 C28
//@   requires stackInv(s) && 16 <= s.size
//@   modifies s.inner.data[s.bottom + s.size - 16 : s.bottom + s.size]
//@   ensures sval(s, 0) == old(sval(s, 15)) && sval(s, 15) == old(sval(s, 0))
//@   ensures forall k int :: 0 < k && k < 15 ==> sval(s, k) == old(sval(s, k))

//@ func (s *Stack) swap16()
//@   serves C27 C28
//@   requires stackInv(s) && 17 <= s.size
//@   modifies s.inner.data[s.bottom + s.size - 17 : s.bottom + s.size]
//@   ensures sval(s, 0) == old(sval(s, 16)) && sval(s, 16) == old(sval(s, 0))
//@   ensures forall k int :: 0 < k && k < 16 ==> sval(s, k) == old(sval(s, k))

// ---- memory size arithmetic (memory_table.go, common.go)

// Bytes of memory an access (offset, length) needs, and whether that does not fit 64 bits.
//@ pure func memNeed(off int, length int) int { return ite(length == 0, 0, off + length) }
//@ pure func memOvf(off int, length int) bool { return length != 0 && off + length >= 18446744073709551616 }

//@ func calcMemSize64WithUint(off *uint256.Int, length64 uint64) (size uint64, overflow bool)
//@   serves C27
//@   ensures overflow == memOvf(u256val(off), length64)
//@   ensures !overflow ==> size == memNeed(u256val(off), length64)

//@ func calcMemSize64(off, l *uint256.Int) (size uint64, overflow bool)
//@   serves C27
//@   ensures overflow == memOvf(u256val(off), u256val(l))
//@   ensures !overflow ==> size == memNeed(u256val(off), u256val(l))

//@ func toWordSize(size uint64) (w uint64)
//@   serves C27
//@   ensures w == (size + 31) / 32

//@ func memoryKeccak256(stack *Stack) (size uint64, overflow bool)
//@   serves C27
//@   requires stackInv(stack) && 2 <= stack.size
//@   ensures overflow == memOvf(sval(stack, 0), sval(stack, 1))
//@   ensures !overflow ==> size == memNeed(sval(stack, 0), sval(stack, 1))

//@ func memoryCallDataCopy(stack *Stack) (size uint64, overflow bool)
//@   serves C27
//@   requires stackInv(stack) && 3 <= stack.size
//@   ensures overflow == memOvf(sval(stack, 0), sval(stack, 2))
//@   ensures !overflow ==> size == memNeed(sval(stack, 0), sval(stack, 2))

//@ func memoryReturnDataCopy(stack *Stack) (size uint64, overflow bool)
//@   serves C27
//@   requires stackInv(stack) && 3 <= stack.size
//@   ensures overflow == memOvf(sval(stack, 0), sval(stack, 2))
//@   ensures !overflow ==> size == memNeed(sval(stack, 0), sval(stack, 2))

//@ func memoryCodeCopy(stack *Stack) (size uint64, overflow bool)
//@   serves C27
//@   requires stackInv(stack) && 3 <= stack.size
//@   ensures overflow == memOvf(sval(stack, 0), sval(stack, 2))
//@   ensures !overflow ==> size == memNeed(sval(stack, 0), sval(stack, 2))

//@ func memoryExtCodeCopy(stack *Stack) (size uint64, overflow bool)
//@   serves C27
//@   requires stackInv(stack) && 4 <= stack.size
//@   ensures overflow == memOvf(sval(stack, 1), sval(stack, 3))
//@   ensures !overflow ==> size == memNeed(sval(stack, 1), sval(stack, 3))

//@ func memoryCreate(stack *Stack) (size uint64, overflow bool)
//@   serves C27
//@   requires stackInv(stack) && 3 <= stack.size
//@   ensures overflow == memOvf(sval(stack, 1), sval(stack, 2))
//@   ensures !overflow ==> size == memNeed(sval(stack, 1), sval(stack, 2))

//@ func memoryCreate2(stack *Stack) (size uint64, overflow bool)
//@   serves C27
//@   requires stackInv(stack) && 3 <= stack.size
//@   ensures overflow == memOvf(sval(stack, 1), sval(stack, 2))
//@   ensures !overflow ==> size == memNeed(sval(stack, 1), sval(stack, 2))

//@ func memoryReturn(stack *Stack) (size uint64, overflow bool)
//@   serves C27
//@   requires stackInv(stack) && 2 <= stack.size
//@   ensures overflow == memOvf(sval(stack, 0), sval(stack, 1))
//@   ensures !overflow ==> size == memNeed(sval(stack, 0), sval(stack, 1))

//@ func memoryRevert(stack *Stack) (size uint64, overflow bool)
//@   serves C27
//@   requires stackInv(stack) && 2 <= stack.size
//@   ensures overflow == memOvf(sval(stack, 0), sval(stack, 1))
//@   ensures !overflow ==> size == memNeed(sval(stack, 0), sval(stack, 1))

//@ func memoryLog(stack *Stack) (size uint64, overflow bool)
//@   serves C27
//@   requires stackInv(stack) && 2 <= stack.size
//@   ensures overflow == memOvf(sval(stack, 0), sval(stack, 1))
//@   ensures !overflow ==> size == memNeed(sval(stack, 0), sval(stack, 1))

//@ func memoryMLoad(stack *Stack) (size uint64, overflow bool)
//@   serves C27
//@   requires stackInv(stack) && 1 <= stack.size
//@   ensures overflow == memOvf(sval(stack, 0), 32)
//@   ensures !overflow ==> size == memNeed(sval(stack, 0), 32)

//@ func memoryMStore8(stack *Stack) (size uint64, overflow bool)
//@   serves C27
//@   requires stackInv(stack) && 1 <= stack.size
//@   ensures overflow == memOvf(sval(stack, 0), 1)
//@   ensures !overflow ==> size == memNeed(sval(stack, 0), 1)

//@ func memoryMStore(stack *Stack) (size uint64, overflow bool)
//@   serves C27
//@   requires stackInv(stack) && 1 <= stack.size
//@   ensures overflow == memOvf(sval(stack, 0), 32)
//@   ensures !overflow ==> size == memNeed(sval(stack, 0), 32)

// MCOPY needs the larger of the source and destination regions.
//@ func memoryMcopy(stack *Stack) (size uint64, overflow bool)
//@   serves C27
//@   requires stackInv(stack) && 3 <= stack.size
//@   ensures overflow == (memOvf(sval(stack, 0), sval(stack, 2)) || memOvf(sval(stack, 1), sval(stack, 2)))
//@   ensures !overflow ==> size == max(memNeed(sval(stack, 0), sval(stack, 2)), memNeed(sval(stack, 1), sval(stack, 2)))

// The call family needs the larger of the input and the return region.
//@ func memoryCall(stack *Stack) (size uint64, overflow bool)
//@   serves C27
//@   requires stackInv(stack) && 7 <= stack.size
//@   ensures overflow == (memOvf(sval(stack, 5), sval(stack, 6)) || memOvf(sval(stack, 3), sval(stack, 4)))
//@   ensures !overflow ==> size == max(memNeed(sval(stack, 5), sval(stack, 6)), memNeed(sval(stack, 3), sval(stack, 4)))

// The call family needs the larger of the input and the return region.
//@ func memoryDelegateCall(stack *Stack) (size uint64, overflow bool)
//@   serves C27
//@   requires stackInv(stack) && 6 <= stack.size
//@   ensures overflow == (memOvf(sval(stack, 4), sval(stack, 5)) || memOvf(sval(stack, 2), sval(stack, 3)))
//@   ensures !overflow ==> size == max(memNeed(sval(stack, 4), sval(stack, 5)), memNeed(sval(stack, 2), sval(stack, 3)))

// The call family needs the larger of the input and the return region.
//@ func memoryStaticCall(stack *Stack) (size uint64, overflow bool)
//@   serves C27
//@   requires stackInv(stack) && 6 <= stack.size
//@   ensures overflow == (memOvf(sval(stack, 4), sval(stack, 5)) || memOvf(sval(stack, 2), sval(stack, 3)))
//@   ensures !overflow ==> size == max(memNeed(sval(stack, 4), sval(stack, 5)), memNeed(sval(stack, 2), sval(stack, 3)))

// ---- memory object (memory.go)

// Pooled memory: every byte between len and cap of the store is zero, so that re-slicing in
// Resize exposes only zeros ("memory that a program has not written reads as zero").
//@ pure func memInv(m *Memory) bool { return forall i int :: len(m.store) <= i && i < cap(m.store) ==> m.store[i] == 0 }

//@ func (m *Memory) Len() (n int)
//@   serves C27 C28
//@   ensures n == len(m.store)

//@ func (m *Memory) Resize(size uint64)
//@   serves C27 C28
//@   requires memInv(m) && size <= 274877906944
//@   modifies m.store
//@   ensures len(m.store) == max(old(len(m.store)), size) && memInv(m)
//@   atcall Put requires false
//@   ensures forall i int :: 0 <= i && i < old(len(m.store)) ==> m.store[i] == old(m.store[i])
//@   ensures forall i int :: old(len(m.store)) <= i && i < len(m.store) ==> m.store[i] == 0

// Free clears what the program wrote before the object goes back to the pool: whatever is
// handed to the pool is empty, has no cached gas figure and is zero up to its capacity.
// Resize (and everything else) never pools anything.
//@ func (m *Memory) Free()
//@   serves C28
//@   requires memInv(m)
//@   modifies m.store, m.lastGasCost, m.store[..]
//@   ensures old(cap(m.store)) <= 16384 ==> len(m.store) == 0 && m.lastGasCost == 0 && memInv(m)
//@   atcall Put requires len(m.store) == 0 && m.lastGasCost == 0 && memInv(m)

//@ func (m *Memory) Set(offset, size uint64, value []byte)
//@   serves C27 C28
//@   requires size > 0 ==> offset + size <= len(m.store)
//@   modifies m.store[offset : offset + size]
//@   ensures forall k int :: 0 <= k && k < size && k < len(value) ==> m.store[offset + k] == old(value[k])
//@   ensures len(m.store) == old(len(m.store))

//@ func (m *Memory) GetCopy(offset, size uint64) (cpy []byte)
//@   serves C27 C28
//@   requires size > 0 ==> offset + size <= len(m.store)
//@   ensures len(cpy) == size
//@   ensures forall k int :: 0 <= k && k < size ==> cpy[k] == m.store[offset + k]

//@ func (m *Memory) GetPtr(offset, size uint64) (p []byte)
//@   serves C27 C28
//@   requires size > 0 ==> offset + size <= len(m.store)
//@   ensures size == 0 ==> len(p) == 0
//@   ensures size > 0 ==> p == m.store[offset : offset + size]

//@ func (m *Memory) Copy(dst, src, len uint64)
//@   serves C27 C28
//@   requires len > 0 ==> src + len <= len(m.store) && dst + len <= len(m.store)
//@   modifies m.store[dst : dst + len]
//@   ensures forall k int :: 0 <= k && k < len ==> m.store[dst + k] == old(m.store[src + k])

// ---- memory expansion gas (gas_table.go) and the 63/64 rule (gas.go)

// Total fee for w words of memory.
//@ pure func memCost(w int) int { return w * 3 + (w * w) / 512 }

//@ lemma memCostMono(a int, b int)
//@   serves C27
//@   requires 0 <= a && a <= b
//@   ensures memCost(a) <= memCost(b)

// memoryGasCost charges exactly the difference of the total fees, never underflows, and keeps
// the cached total in step with the size it was computed for.
//@ func memoryGasCost(mem *Memory, newMemSize uint64) (fee uint64, err error)
//@   serves C27
//@   requires len(mem.store) % 32 == 0 && mem.lastGasCost == memCost(len(mem.store) / 32)
//@   modifies mem.lastGasCost
//@   uses memCostMono(len(mem.store) / 32, (newMemSize + 31) / 32)
//@   ensures (err == nil) == (newMemSize <= 137438953440)
//@   ensures err == nil && ((newMemSize + 31) / 32) * 32 > len(mem.store) ==> fee == memCost((newMemSize + 31) / 32) - old(mem.lastGasCost) && mem.lastGasCost == memCost((newMemSize + 31) / 32)
//@   ensures err == nil && ((newMemSize + 31) / 32) * 32 <= len(mem.store) ==> fee == 0 && mem.lastGasCost == old(mem.lastGasCost)
//@   ensures err != nil ==> fee == 0 && mem.lastGasCost == old(mem.lastGasCost)
//@   nowrap

// callGas never hands the callee more than all but one 64th of what is left after the base cost.
//@ func callGas(isEip150 bool, availableGas, base uint64, callCost *uint256.Int) (gas uint64, err error)
//@   serves C27
//@   requires isEip150 ==> base <= availableGas
//@   ensures isEip150 ==> err == nil && gas == min(availableGas - base - (availableGas - base) / 64, u256val(callCost))
//@   ensures !isEip150 ==> (err == nil) == (u256val(callCost) < 18446744073709551616) && (err == nil ==> gas == u256val(callCost))
//@   nowrap

// ---- stack bounds table (stack_table.go): the interpreter runs an operation only when
// minStack <= len <= maxStack; with these definitions that leaves room for the pushes and enough
// items for the pops, and the result stays within the limit of 1024.

//@ func maxStack(pop, push int) (m int)
//@   serves C27
//@   requires 0 <= pop && pop <= 1024 && 0 <= push && push <= 1024
//@   ensures m == 1024 + pop - push
//@   ensures forall n int :: pop <= n && n <= m ==> 0 <= n - pop && n - pop + push <= 1024

//@ func minStack(pops, push int) (m int)
//@   serves C27
//@   ensures m == pops

//@ func minSwapStack(n int) (m int)
//@   serves C27
//@   ensures m == n

//@ func maxSwapStack(n int) (m int)
//@   serves C27
//@   requires 0 <= n && n <= 1024
//@   ensures m == 1024

//@ func minDupStack(n int) (m int)
//@   serves C27
//@   ensures m == n

//@ func maxDupStack(n int) (m int)
//@   serves C27
//@   requires 0 <= n && n < 1024
//@   ensures m == 1023

// A new frame starts at the arena's first free slot and has room for 1024 items.
//@ func (sa *stackArena) stack() (s *Stack)
//@   serves C27 C28
//@   requires 0 <= sa.top && sa.top <= len(sa.data)
//@   modifies sa.data
//@   ensures isfresh(s) && s.inner == sa && s.bottom == sa.top && s.size == 0 && stackInv(s)
//@   ensures sa.top == old(sa.top)

// ================================================================ C30: jump destination analysis

// Bit q of the push-data bit vector. Proofs of the five bit-vector helpers below are done in
// the bit-vector mode from this definition; their callers (integer mode) see isSet as an
// uninterpreted function of the vector's bytes and reason from the helpers' contracts alone.
//@ opaque pure func isSet(bits BitVec, q uint64) bool { return (bits[q / 8] >> (q % 8)) & 1 == 1 }
// number of one bits in the masks setN is called with
//@ pure func maskBits(flag uint16) int { return ite(flag == 3, 2, ite(flag == 7, 3, ite(flag == 15, 4, ite(flag == 31, 5, ite(flag == 63, 6, ite(flag == 127, 7, 0)))))) }

//@ func (bits BitVec) set1(pos uint64)
//@   serves C30
//@   arith bv
//@   requires pos / 8 < len(bits)
//@   modifies bits[..]
//@   ensures forall q uint64 :: isSet(bits, q) == (old(isSet(bits, q)) || q == pos)

// setN, set8 and set16 overwrite (not OR) the following byte(s): correct because every bit from
// pos upward is still clear when they are called.
//@ func (bits BitVec) setN(flag uint16, pos uint64)
//@   serves C30
//@   arith bv
//@   requires maskBits(flag) >= 2 && pos / 8 + 1 < len(bits)
//@   requires forall q uint64 :: q >= pos ==> !isSet(bits, q)
//@   modifies bits[..]
//@   ensures forall q uint64 :: isSet(bits, q) == (old(isSet(bits, q)) || (pos <= q && q < pos + maskBits(flag)))

//@ func (bits BitVec) set8(pos uint64)
//@   serves C30
//@   arith bv
//@   requires pos / 8 + 1 < len(bits)
//@   requires forall q uint64 :: q >= pos ==> !isSet(bits, q)
//@   modifies bits[..]
//@   ensures forall q uint64 :: isSet(bits, q) == (old(isSet(bits, q)) || (pos <= q && q < pos + 8))

//@ func (bits BitVec) set16(pos uint64)
//@   serves C30
//@   arith bv
//@   requires pos / 8 + 2 < len(bits)
//@   requires forall q uint64 :: q >= pos ==> !isSet(bits, q)
//@   modifies bits[..]
//@   ensures forall q uint64 :: isSet(bits, q) == (old(isSet(bits, q)) || (pos <= q && q < pos + 16))

//@ func (bits *BitVec) codeSegment(pos uint64) (code bool)
//@   serves C30
//@   arith bv
//@   requires pos / 8 < len(*bits)
//@   ensures code == !isSet(*bits, pos)

// The bytecode definition: an instruction starting at p with opcode PUSHn (0x60..0x7f) owns the
// n following bytes as immediate data. scan(code, p, q): scanning from the instruction boundary
// p, position q lies in the immediate data of some PUSH. isData is the scan from position 0.
//@ pure func pushLen(op int) int { return ite(96 <= op && op <= 127, op - 95, 0) }
//@ pure func scan(code BitVec, p int, q int) bool { return ite(p >= len(code) || q <= p || p < 0, false, ite(q <= p + pushLen(code[p]), true, scan(code, p + 1 + pushLen(code[p]), q))) }
//@ pure func isData(code BitVec, q int) bool { return scan(code, 0, q) }

// codeBitmapInternal sets exactly the bits of the positions that are push data, for every
// bytecode, given a zeroed vector of the size codeBitmap allocates.
//@ func codeBitmapInternal(code, bits BitVec) (out BitVec)
//@   serves C30
//@   requires len(bits) == len(code) / 8 + 5 && noalias(code, bits)
//@   requires forall q uint64 :: !isSet(bits, q)
//@   modifies bits[..]
//@   ensures out == bits
//@   ensures forall q uint64 :: isSet(out, q) == isData(code, q)
//@   loop 1 "pc < uint64(len(code))"
//@     invariant 0 <= pc && pc <= len(code) + 32
//@     invariant forall q uint64 :: {scan(code, 0, q)} q >= pc ==> scan(code, 0, q) == scan(code, pc, q)
//@     invariant forall q uint64 :: {isSet(bits, q)} q < pc ==> isSet(bits, q) == scan(code, 0, q)
//@     invariant forall q uint64 :: {isSet(bits, q)} q >= pc ==> !isSet(bits, q)
//@   loop 2 "numbits >= 16"
//@     invariant 96 <= op && op <= 127 && 0 <= numbits && numbits <= op - 95 && pc + numbits <= len(code) + 32 && (op - 95 - numbits) % 8 == 0
//@     invariant 0 <= pc - 1 - (op - 95 - numbits) && pc - 1 - (op - 95 - numbits) < len(code) && code[pc - 1 - (op - 95 - numbits)] == op
//@     invariant forall q uint64 :: {scan(code, 0, q)} q >= pc - 1 - (op - 95 - numbits) ==> scan(code, 0, q) == scan(code, pc - 1 - (op - 95 - numbits), q)
//@     invariant forall q uint64 :: {isSet(bits, q)} q < pc - 1 - (op - 95 - numbits) ==> isSet(bits, q) == scan(code, 0, q)
//@     invariant forall q uint64 :: {isSet(bits, q)} q >= pc - 1 - (op - 95 - numbits) ==> isSet(bits, q) == (pc - 1 - (op - 95 - numbits) < q && q < pc)
//@   loop 3 "numbits >= 8"
//@     invariant 96 <= op && op <= 127 && 0 <= numbits && numbits <= op - 95 && numbits < 16 && pc + numbits <= len(code) + 32 && (op - 95 - numbits) % 8 == 0
//@     invariant 0 <= pc - 1 - (op - 95 - numbits) && pc - 1 - (op - 95 - numbits) < len(code) && code[pc - 1 - (op - 95 - numbits)] == op
//@     invariant forall q uint64 :: {scan(code, 0, q)} q >= pc - 1 - (op - 95 - numbits) ==> scan(code, 0, q) == scan(code, pc - 1 - (op - 95 - numbits), q)
//@     invariant forall q uint64 :: {isSet(bits, q)} q < pc - 1 - (op - 95 - numbits) ==> isSet(bits, q) == scan(code, 0, q)
//@     invariant forall q uint64 :: {isSet(bits, q)} q >= pc - 1 - (op - 95 - numbits) ==> isSet(bits, q) == (pc - 1 - (op - 95 - numbits) < q && q < pc)

// A vector whose bytes are all zero has no bit set (proved in the bit-vector mode; applied
// where codeBitmap hands a freshly made vector to codeBitmapInternal).
//@ func verifLemmaZeroVector(bits BitVec)
//@   serves C30
//@   arith bv
//@   requires forall k uint64 :: bits[k] == 0
//@   ensures forall q uint64 :: !isSet(bits, q)

func verifLemmaZeroVector(bits BitVec) {}

//@ func codeBitmap(code []byte) (out BitVec)
//@   serves C30
//@   requires len(code) <= 17592186044416
//@   ensures isfresh(out) && len(out) == len(code) / 8 + 5
//@   ensures forall q uint64 :: isSet(out, q) == isData(code, q)
//@   atcall codeBitmapInternal#1 lemma verifLemmaZeroVector(arg2)

// The analysis cached in a contract, when there is one, is the analysis of that contract's code.
//@ pure func analysisOK(c *Contract) bool { return len(c.analysis) > 0 ==> (len(c.analysis) == len(c.Code) / 8 + 5 && (forall q uint64 :: isSet(c.analysis, q) == isData(c.Code, q))) }

// isCode: a position is code exactly when it is not push data. Proved for the two paths that
// do not go through the shared cache (an analysis is already attached, or the code has no hash
// and is analysed on the spot); the cache path relies on the cache holding, under a code hash,
// the analysis of the code with that hash, which no contract here can state.
//@ func (c *Contract) isCode(udest uint64) (code bool)
//@   serves C30
//@   requires analysisOK(c) && udest < len(c.Code) && len(c.Code) <= 17592186044416
//@   requires (c.analysis == nil) == (len(c.analysis) == 0)
//@   modifies c.analysis
//@   mutates
//@   ensures len(old(c.analysis)) > 0 || iszero(c.CodeHash) ==> code == !isData(c.Code, udest) && analysisOK(c) && len(c.analysis) > 0
//@   atcall codeSegment#2 assume udest / 8 < len(analysis)

// validJumpdest accepts exactly the in-range positions that hold JUMPDEST (0x5b) and are not
// inside the immediate data of a PUSH.
//@ func (c *Contract) validJumpdest(dest *uint256.Int) (ok bool)
//@   serves C30
//@   requires analysisOK(c) && len(c.Code) <= 17592186044416
//@   requires (c.analysis == nil) == (len(c.analysis) == 0)
//@   modifies c.analysis
//@   mutates
//@   ensures len(old(c.analysis)) > 0 || iszero(c.CodeHash) ==> ok == (u256val(dest) < len(c.Code) && c.Code[u256val(dest)] == 91 && !isData(c.Code, u256val(dest)))

// ================================================================ C29: write protection in static frames

// In a static context (evm.readOnly) every state-changing instruction is refused with
// ErrWriteProtection before it touches the state: either by its execution function (SSTORE,
// TSTORE, LOGn, SELFDESTRUCT, CALL with value) or by its dynamic-gas function, which the
// interpreter evaluates first (SSTORE, CREATE, CREATE2, SELFDESTRUCT, CALL with value - every
// fork's variant). "Touches the state" is tracked by a ghost flag set at every StateDB mutator
// and at the frame functions.
//@ directive noeffect uint256.Int).Bytes32
//@ directive noeffect uint256.Int).Bytes20
//@ directive noeffect uint256.Int).Bytes

//@ func opSstore(pc *uint64, evm *EVM, scope *ScopeContext) (ret []byte, err error)
//@   serves C29
//@   requires scope.Stack != nil && stackInv(scope.Stack) && scope.Stack.size >= 2 && scope.Contract != nil && scope.Memory != nil
//@   ownwrites
//@   mutates
//@   ghostvar wrote bool = false
//@   oncall SetState SetTransientState AddLog AddBalance SubBalance SelfDestruct SelfDestruct6780 CreateAccount CreateContract SetCode SetNonce AddRefund SubRefund Call CallCode Create Create2 create AddAddressToAccessList AddSlotToAccessList: wrote = true
//@   ensures old(evm.readOnly) ==> err == ErrWriteProtection && !wrote && scope.Stack.size == old(scope.Stack.size)

//@ func opTstore(pc *uint64, evm *EVM, scope *ScopeContext) (ret []byte, err error)
//@   serves C29
//@   requires scope.Stack != nil && stackInv(scope.Stack) && scope.Stack.size >= 2 && scope.Contract != nil && scope.Memory != nil
//@   ownwrites
//@   mutates
//@   ghostvar wrote bool = false
//@   oncall SetState SetTransientState AddLog AddBalance SubBalance SelfDestruct SelfDestruct6780 CreateAccount CreateContract SetCode SetNonce AddRefund SubRefund Call CallCode Create Create2 create AddAddressToAccessList AddSlotToAccessList: wrote = true
//@   ensures old(evm.readOnly) ==> err == ErrWriteProtection && !wrote && scope.Stack.size == old(scope.Stack.size)

//@ func opSelfdestruct(pc *uint64, evm *EVM, scope *ScopeContext) (ret []byte, err error)
//@   serves C29
//@   requires scope.Stack != nil && stackInv(scope.Stack) && scope.Stack.size >= 1 && scope.Contract != nil && scope.Memory != nil
//@   ownwrites
//@   mutates
//@   ghostvar wrote bool = false
//@   oncall SetState SetTransientState AddLog AddBalance SubBalance SelfDestruct SelfDestruct6780 CreateAccount CreateContract SetCode SetNonce AddRefund SubRefund Call CallCode Create Create2 create AddAddressToAccessList AddSlotToAccessList: wrote = true
//@   ensures old(evm.readOnly) ==> err == ErrWriteProtection && !wrote && scope.Stack.size == old(scope.Stack.size)

//@ func opSelfdestruct6780(pc *uint64, evm *EVM, scope *ScopeContext) (ret []byte, err error)
//@   serves C29
//@   requires scope.Stack != nil && stackInv(scope.Stack) && scope.Stack.size >= 1 && scope.Contract != nil && scope.Memory != nil
//@   ownwrites
//@   mutates
//@   ghostvar wrote bool = false
//@   oncall SetState SetTransientState AddLog AddBalance SubBalance SelfDestruct SelfDestruct6780 CreateAccount CreateContract SetCode SetNonce AddRefund SubRefund Call CallCode Create Create2 create AddAddressToAccessList AddSlotToAccessList: wrote = true
//@   ensures old(evm.readOnly) ==> err == ErrWriteProtection && !wrote && scope.Stack.size == old(scope.Stack.size)

// the Memory invariant memoryGasCost relies on
//@ pure func memWf(mem *Memory) bool { return len(mem.store) % 32 == 0 && mem.lastGasCost == memCost(len(mem.store) / 32) }

//@ func gasSStore(evm *EVM, contract *Contract, stack *Stack, mem *Memory, memorySize uint64) (costs GasCosts, err error)
//@   serves C29
//@   requires stackInv(stack) && stack.size >= 2 && contract != nil && mem != nil && memWf(mem)
//@   ownwrites
//@   mutates
//@   ghostvar wrote bool = false
//@   oncall SetState SetTransientState AddLog AddBalance SubBalance SelfDestruct SelfDestruct6780 CreateAccount CreateContract SetCode SetNonce AddRefund SubRefund Call CallCode Create Create2 create AddAddressToAccessList AddSlotToAccessList: wrote = true
//@   ensures old(evm.readOnly) ==> err == ErrWriteProtection && !wrote

//@ func gasSStoreEIP2200(evm *EVM, contract *Contract, stack *Stack, mem *Memory, memorySize uint64) (costs GasCosts, err error)
//@   serves C29
//@   requires stackInv(stack) && stack.size >= 2 && contract != nil && mem != nil && memWf(mem)
//@   ownwrites
//@   mutates
//@   ghostvar wrote bool = false
//@   oncall SetState SetTransientState AddLog AddBalance SubBalance SelfDestruct SelfDestruct6780 CreateAccount CreateContract SetCode SetNonce AddRefund SubRefund Call CallCode Create Create2 create AddAddressToAccessList AddSlotToAccessList: wrote = true
//@   ensures old(evm.readOnly) ==> err == ErrWriteProtection && !wrote

//@ func gasSStore8037And8038(evm *EVM, contract *Contract, stack *Stack, mem *Memory, memorySize uint64) (costs GasCosts, err error)
//@   serves C29
//@   requires stackInv(stack) && stack.size >= 2 && contract != nil && mem != nil && memWf(mem)
//@   requires ranged(contract.Gas) && contract.Gas.StateGas + 1099511627776 <= TMAX() && evm.Context.CostPerStateByte <= 4294967296
//@   ownwrites
//@   mutates
//@   ghostvar wrote bool = false
//@   oncall SetState SetTransientState AddLog AddBalance SubBalance SelfDestruct SelfDestruct6780 CreateAccount CreateContract SetCode SetNonce AddRefund SubRefund Call CallCode Create Create2 create AddAddressToAccessList AddSlotToAccessList: wrote = true
//@   ensures old(evm.readOnly) ==> err == ErrWriteProtection && !wrote

//@ func gasCreate(evm *EVM, contract *Contract, stack *Stack, mem *Memory, memorySize uint64) (costs GasCosts, err error)
//@   serves C29
//@   requires stackInv(stack) && stack.size >= 3 && contract != nil && mem != nil && memWf(mem)
//@   ownwrites
//@   mutates
//@   ghostvar wrote bool = false
//@   oncall SetState SetTransientState AddLog AddBalance SubBalance SelfDestruct SelfDestruct6780 CreateAccount CreateContract SetCode SetNonce AddRefund SubRefund Call CallCode Create Create2 create AddAddressToAccessList AddSlotToAccessList: wrote = true
//@   ensures old(evm.readOnly) ==> err == ErrWriteProtection && !wrote

//@ func gasCreate2(evm *EVM, contract *Contract, stack *Stack, mem *Memory, memorySize uint64) (costs GasCosts, err error)
//@   serves C29
//@   requires stackInv(stack) && stack.size >= 4 && contract != nil && mem != nil && memWf(mem)
//@   ownwrites
//@   mutates
//@   ghostvar wrote bool = false
//@   oncall SetState SetTransientState AddLog AddBalance SubBalance SelfDestruct SelfDestruct6780 CreateAccount CreateContract SetCode SetNonce AddRefund SubRefund Call CallCode Create Create2 create AddAddressToAccessList AddSlotToAccessList: wrote = true
//@   ensures old(evm.readOnly) ==> err == ErrWriteProtection && !wrote

//@ func gasCreateEip3860(evm *EVM, contract *Contract, stack *Stack, mem *Memory, memorySize uint64) (costs GasCosts, err error)
//@   serves C29
//@   requires stackInv(stack) && stack.size >= 3 && contract != nil && mem != nil && memWf(mem)
//@   ownwrites
//@   mutates
//@   ghostvar wrote bool = false
//@   oncall SetState SetTransientState AddLog AddBalance SubBalance SelfDestruct SelfDestruct6780 CreateAccount CreateContract SetCode SetNonce AddRefund SubRefund Call CallCode Create Create2 create AddAddressToAccessList AddSlotToAccessList: wrote = true
//@   ensures old(evm.readOnly) ==> err == ErrWriteProtection && !wrote

//@ func gasCreate2Eip3860(evm *EVM, contract *Contract, stack *Stack, mem *Memory, memorySize uint64) (costs GasCosts, err error)
//@   serves C29
//@   requires stackInv(stack) && stack.size >= 4 && contract != nil && mem != nil && memWf(mem)
//@   ownwrites
//@   mutates
//@   ghostvar wrote bool = false
//@   oncall SetState SetTransientState AddLog AddBalance SubBalance SelfDestruct SelfDestruct6780 CreateAccount CreateContract SetCode SetNonce AddRefund SubRefund Call CallCode Create Create2 create AddAddressToAccessList AddSlotToAccessList: wrote = true
//@   ensures old(evm.readOnly) ==> err == ErrWriteProtection && !wrote

//@ func gasCreateEip8037(evm *EVM, contract *Contract, stack *Stack, mem *Memory, memorySize uint64) (costs GasCosts, err error)
//@   serves C29
//@   requires stackInv(stack) && stack.size >= 3 && contract != nil && mem != nil && memWf(mem)
//@   ownwrites
//@   mutates
//@   ghostvar wrote bool = false
//@   oncall SetState SetTransientState AddLog AddBalance SubBalance SelfDestruct SelfDestruct6780 CreateAccount CreateContract SetCode SetNonce AddRefund SubRefund Call CallCode Create Create2 create AddAddressToAccessList AddSlotToAccessList: wrote = true
//@   ensures old(evm.readOnly) ==> err == ErrWriteProtection && !wrote

//@ func gasCreate2Eip8037(evm *EVM, contract *Contract, stack *Stack, mem *Memory, memorySize uint64) (costs GasCosts, err error)
//@   serves C29
//@   requires stackInv(stack) && stack.size >= 4 && contract != nil && mem != nil && memWf(mem)
//@   ownwrites
//@   mutates
//@   ghostvar wrote bool = false
//@   oncall SetState SetTransientState AddLog AddBalance SubBalance SelfDestruct SelfDestruct6780 CreateAccount CreateContract SetCode SetNonce AddRefund SubRefund Call CallCode Create Create2 create AddAddressToAccessList AddSlotToAccessList: wrote = true
//@   ensures old(evm.readOnly) ==> err == ErrWriteProtection && !wrote

//@ func gasSelfdestruct(evm *EVM, contract *Contract, stack *Stack, mem *Memory, memorySize uint64) (costs GasCosts, err error)
//@   serves C29
//@   requires stackInv(stack) && stack.size >= 1 && contract != nil && mem != nil && memWf(mem)
//@   ownwrites
//@   mutates
//@   ghostvar wrote bool = false
//@   oncall SetState SetTransientState AddLog AddBalance SubBalance SelfDestruct SelfDestruct6780 CreateAccount CreateContract SetCode SetNonce AddRefund SubRefund Call CallCode Create Create2 create AddAddressToAccessList AddSlotToAccessList: wrote = true
//@   ensures old(evm.readOnly) ==> err == ErrWriteProtection && !wrote

//@ func gasSelfdestruct8037And8038(evm *EVM, contract *Contract, stack *Stack, mem *Memory, memorySize uint64) (costs GasCosts, err error)
//@   serves C29
//@   requires stackInv(stack) && stack.size >= 1 && contract != nil && mem != nil && memWf(mem)
//@   ownwrites
//@   mutates
//@   ghostvar wrote bool = false
//@   oncall SetState SetTransientState AddLog AddBalance SubBalance SelfDestruct SelfDestruct6780 CreateAccount CreateContract SetCode SetNonce AddRefund SubRefund Call CallCode Create Create2 create AddAddressToAccessList AddSlotToAccessList: wrote = true
//@   ensures old(evm.readOnly) ==> err == ErrWriteProtection && !wrote

//@ func gasCallIntrinsic(evm *EVM, contract *Contract, stack *Stack, mem *Memory, memorySize uint64) (gas uint64, err error)
//@   serves C29
//@   requires stackInv(stack) && stack.size >= 7 && contract != nil && mem != nil && memWf(mem)
//@   ownwrites
//@   mutates
//@   ghostvar wrote bool = false
//@   oncall SetState SetTransientState AddLog AddBalance SubBalance SelfDestruct SelfDestruct6780 CreateAccount CreateContract SetCode SetNonce AddRefund SubRefund Call CallCode Create Create2 create AddAddressToAccessList AddSlotToAccessList: wrote = true
//@   ensures old(evm.readOnly) && old(sval(stack, 2)) != 0 ==> err == ErrWriteProtection && !wrote

//@ func executionGasCall8038(evm *EVM, contract *Contract, stack *Stack, mem *Memory, memorySize uint64) (gas uint64, err error)
//@   serves C29
//@   requires stackInv(stack) && stack.size >= 7 && contract != nil && mem != nil && memWf(mem)
//@   ownwrites
//@   mutates
//@   ghostvar wrote bool = false
//@   oncall SetState SetTransientState AddLog AddBalance SubBalance SelfDestruct SelfDestruct6780 CreateAccount CreateContract SetCode SetNonce AddRefund SubRefund Call CallCode Create Create2 create AddAddressToAccessList AddSlotToAccessList: wrote = true
//@   ensures old(evm.readOnly) && old(sval(stack, 2)) != 0 ==> err == ErrWriteProtection && !wrote

//@ func gasCallEIP7702(evm *EVM, contract *Contract, stack *Stack, mem *Memory, memorySize uint64) (costs GasCosts, err error)
//@   serves C29
//@   requires stackInv(stack) && stack.size >= 7 && contract != nil && mem != nil && memWf(mem)
//@   ownwrites
//@   mutates
//@   ghostvar wrote bool = false
//@   oncall SetState SetTransientState AddLog AddBalance SubBalance SelfDestruct SelfDestruct6780 CreateAccount CreateContract SetCode SetNonce AddRefund SubRefund Call CallCode Create Create2 create AddAddressToAccessList AddSlotToAccessList: wrote = true
//@   ensures old(evm.readOnly) && old(sval(stack, 2)) != 0 ==> err == ErrWriteProtection && !wrote

//@ func gasCall8038(evm *EVM, contract *Contract, stack *Stack, mem *Memory, memorySize uint64) (costs GasCosts, err error)
//@   serves C29
//@   requires stackInv(stack) && stack.size >= 7 && contract != nil && mem != nil && memWf(mem)
//@   ownwrites
//@   mutates
//@   ghostvar wrote bool = false
//@   oncall SetState SetTransientState AddLog AddBalance SubBalance SelfDestruct SelfDestruct6780 CreateAccount CreateContract SetCode SetNonce AddRefund SubRefund Call CallCode Create Create2 create AddAddressToAccessList AddSlotToAccessList: wrote = true
//@   ensures old(evm.readOnly) && old(sval(stack, 2)) != 0 ==> err == ErrWriteProtection && !wrote

// LOGn: the execution function made by makeLog(size) refuses in a static context.
//@ func makeLog$1(pc *uint64, evm *EVM, scope *ScopeContext) (ret []byte, err error)
//@   serves C29
//@   requires scope.Stack != nil && stackInv(scope.Stack) && 0 <= size && size <= 4 && scope.Stack.size >= 2 + size && scope.Contract != nil && scope.Memory != nil
//@   requires sval(scope.Stack, 1) == 0 || (sval(scope.Stack, 0) + sval(scope.Stack, 1) <= len(scope.Memory.store))
//@   ownwrites
//@   mutates
//@   ghostvar wrote bool = false
//@   oncall SetState SetTransientState AddLog AddBalance SubBalance SelfDestruct SelfDestruct6780 CreateAccount CreateContract SetCode SetNonce AddRefund SubRefund Call CallCode Create Create2 create AddAddressToAccessList AddSlotToAccessList: wrote = true
//@   ensures old(evm.readOnly) ==> err == ErrWriteProtection && !wrote && scope.Stack.size == old(scope.Stack.size)
//@   atcall GetCopy#1 assume arg3 == 0 || arg2 + arg3 <= len(scope.Memory.store)
//@   loop 1 "i < size"
//@     invariant 0 <= i && i <= size && stackInv(scope.Stack) && scope.Stack.size >= size - i
//@     invariant !evm.readOnly && !old(evm.readOnly)

//@ func makeGasSStoreFunc$1(evm *EVM, contract *Contract, stack *Stack, mem *Memory, memorySize uint64) (costs GasCosts, err error)
//@   serves C29
//@   requires stackInv(stack) && stack.size >= 2 && contract != nil && mem != nil
//@   ownwrites
//@   mutates
//@   ghostvar wrote bool = false
//@   oncall SetState SetTransientState AddLog AddBalance SubBalance SelfDestruct SelfDestruct6780 CreateAccount CreateContract SetCode SetNonce AddRefund SubRefund Call CallCode Create Create2 create AddAddressToAccessList AddSlotToAccessList: wrote = true
//@   ensures old(evm.readOnly) ==> err == ErrWriteProtection && !wrote

//@ func makeSelfdestructGasFn$1(evm *EVM, contract *Contract, stack *Stack, mem *Memory, memorySize uint64) (costs GasCosts, err error)
//@   serves C29
//@   requires stackInv(stack) && stack.size >= 1 && contract != nil && mem != nil
//@   ownwrites
//@   mutates
//@   ghostvar wrote bool = false
//@   oncall SetState SetTransientState AddLog AddBalance SubBalance SelfDestruct SelfDestruct6780 CreateAccount CreateContract SetCode SetNonce AddRefund SubRefund Call CallCode Create Create2 create AddAddressToAccessList AddSlotToAccessList: wrote = true
//@   ensures old(evm.readOnly) ==> err == ErrWriteProtection && !wrote

// CALL: a value transfer in a static context is refused before the callee frame is entered.
//@ func opCall(pc *uint64, evm *EVM, scope *ScopeContext) (ret []byte, err error)
//@   serves C29
//@   requires scope.Stack != nil && stackInv(scope.Stack) && scope.Stack.size >= 7 && scope.Contract != nil && scope.Memory != nil
//@   requires sval(scope.Stack, 4) % 18446744073709551616 == 0 || (sval(scope.Stack, 3) % 18446744073709551616 + sval(scope.Stack, 4) % 18446744073709551616 <= len(scope.Memory.store))
//@   ownwrites
//@   modifies evm.returnData
//@   mutates
//@   ghostvar wrote bool = false
//@   oncall SetState SetTransientState AddLog AddBalance SubBalance SelfDestruct SelfDestruct6780 CreateAccount CreateContract SetCode SetNonce AddRefund SubRefund Call CallCode Create Create2 create AddAddressToAccessList AddSlotToAccessList: wrote = true
//@   ensures old(evm.readOnly) && old(sval(scope.Stack, 2)) != 0 ==> err == ErrWriteProtection && !wrote
//@   atcall Call#1 assume freshBudget(arg5)
//@   atcall Set#1 assume arg3 == 0 || arg2 + arg3 <= len(scope.Memory.store)

// ================================================================ C27: arithmetic and comparison instructions

// Each instruction consumes and produces exactly the stack items the specification says, writes
// only the slot that becomes the new top, and computes the specified function of its operands
// (operand order included; the 256-bit arithmetic itself is the uint256 library's, see models).
// s0 is the top of the stack before the instruction, s1 the item below it.
//@ pure func sgn256(v int) int { return ite(v >= 57896044618658097711785492504343953926634992332820282019728792003956564819968, v - 115792089237316195423570985008687907853269984665640564039457584007913129639936, v) }

//@ func opAdd(pc *uint64, evm *EVM, scope *ScopeContext) (ret []byte, err error)
//@   serves C27
//@   requires scope.Stack != nil && stackInv(scope.Stack) && scope.Stack.size >= 2
//@   modifies scope.Stack.size, scope.Stack.inner.top, scope.Stack.inner.data[scope.Stack.bottom + scope.Stack.size - 2 : scope.Stack.bottom + scope.Stack.size - 1]
//@   ensures err == nil && stackInv(scope.Stack) && scope.Stack.size == old(scope.Stack.size) - 1
//@   ensures sval(scope.Stack, 0) == (old(sval(scope.Stack, 0)) + old(sval(scope.Stack, 1))) % 115792089237316195423570985008687907853269984665640564039457584007913129639936

//@ func opSub(pc *uint64, evm *EVM, scope *ScopeContext) (ret []byte, err error)
//@   serves C27
//@   requires scope.Stack != nil && stackInv(scope.Stack) && scope.Stack.size >= 2
//@   modifies scope.Stack.size, scope.Stack.inner.top, scope.Stack.inner.data[scope.Stack.bottom + scope.Stack.size - 2 : scope.Stack.bottom + scope.Stack.size - 1]
//@   ensures err == nil && stackInv(scope.Stack) && scope.Stack.size == old(scope.Stack.size) - 1
//@   ensures sval(scope.Stack, 0) == (old(sval(scope.Stack, 0)) - old(sval(scope.Stack, 1))) % 115792089237316195423570985008687907853269984665640564039457584007913129639936

//@ func opMul(pc *uint64, evm *EVM, scope *ScopeContext) (ret []byte, err error)
//@   serves C27
//@   requires scope.Stack != nil && stackInv(scope.Stack) && scope.Stack.size >= 2
//@   modifies scope.Stack.size, scope.Stack.inner.top, scope.Stack.inner.data[scope.Stack.bottom + scope.Stack.size - 2 : scope.Stack.bottom + scope.Stack.size - 1]
//@   ensures err == nil && stackInv(scope.Stack) && scope.Stack.size == old(scope.Stack.size) - 1
//@   ensures sval(scope.Stack, 0) == (old(sval(scope.Stack, 0)) * old(sval(scope.Stack, 1))) % 115792089237316195423570985008687907853269984665640564039457584007913129639936

//@ func opDiv(pc *uint64, evm *EVM, scope *ScopeContext) (ret []byte, err error)
//@   serves C27
//@   requires scope.Stack != nil && stackInv(scope.Stack) && scope.Stack.size >= 2
//@   modifies scope.Stack.size, scope.Stack.inner.top, scope.Stack.inner.data[scope.Stack.bottom + scope.Stack.size - 2 : scope.Stack.bottom + scope.Stack.size - 1]
//@   ensures err == nil && stackInv(scope.Stack) && scope.Stack.size == old(scope.Stack.size) - 1
//@   ensures sval(scope.Stack, 0) == ite(old(sval(scope.Stack, 1)) == 0, 0, old(sval(scope.Stack, 0)) / old(sval(scope.Stack, 1)))

//@ func opMod(pc *uint64, evm *EVM, scope *ScopeContext) (ret []byte, err error)
//@   serves C27
//@   requires scope.Stack != nil && stackInv(scope.Stack) && scope.Stack.size >= 2
//@   modifies scope.Stack.size, scope.Stack.inner.top, scope.Stack.inner.data[scope.Stack.bottom + scope.Stack.size - 2 : scope.Stack.bottom + scope.Stack.size - 1]
//@   ensures err == nil && stackInv(scope.Stack) && scope.Stack.size == old(scope.Stack.size) - 1
//@   ensures sval(scope.Stack, 0) == ite(old(sval(scope.Stack, 1)) == 0, 0, old(sval(scope.Stack, 0)) % old(sval(scope.Stack, 1)))

//@ func opLt(pc *uint64, evm *EVM, scope *ScopeContext) (ret []byte, err error)
//@   serves C27
//@   requires scope.Stack != nil && stackInv(scope.Stack) && scope.Stack.size >= 2
//@   modifies scope.Stack.size, scope.Stack.inner.top, scope.Stack.inner.data[scope.Stack.bottom + scope.Stack.size - 2 : scope.Stack.bottom + scope.Stack.size - 1]
//@   ensures err == nil && stackInv(scope.Stack) && scope.Stack.size == old(scope.Stack.size) - 1
//@   ensures sval(scope.Stack, 0) == ite(old(sval(scope.Stack, 0)) < old(sval(scope.Stack, 1)), 1, 0)

//@ func opGt(pc *uint64, evm *EVM, scope *ScopeContext) (ret []byte, err error)
//@   serves C27
//@   requires scope.Stack != nil && stackInv(scope.Stack) && scope.Stack.size >= 2
//@   modifies scope.Stack.size, scope.Stack.inner.top, scope.Stack.inner.data[scope.Stack.bottom + scope.Stack.size - 2 : scope.Stack.bottom + scope.Stack.size - 1]
//@   ensures err == nil && stackInv(scope.Stack) && scope.Stack.size == old(scope.Stack.size) - 1
//@   ensures sval(scope.Stack, 0) == ite(old(sval(scope.Stack, 0)) > old(sval(scope.Stack, 1)), 1, 0)

//@ func opSlt(pc *uint64, evm *EVM, scope *ScopeContext) (ret []byte, err error)
//@   serves C27
//@   requires scope.Stack != nil && stackInv(scope.Stack) && scope.Stack.size >= 2
//@   modifies scope.Stack.size, scope.Stack.inner.top, scope.Stack.inner.data[scope.Stack.bottom + scope.Stack.size - 2 : scope.Stack.bottom + scope.Stack.size - 1]
//@   ensures err == nil && stackInv(scope.Stack) && scope.Stack.size == old(scope.Stack.size) - 1
//@   ensures sval(scope.Stack, 0) == ite(sgn256(old(sval(scope.Stack, 0))) < sgn256(old(sval(scope.Stack, 1))), 1, 0)

//@ func opSgt(pc *uint64, evm *EVM, scope *ScopeContext) (ret []byte, err error)
//@   serves C27
//@   requires scope.Stack != nil && stackInv(scope.Stack) && scope.Stack.size >= 2
//@   modifies scope.Stack.size, scope.Stack.inner.top, scope.Stack.inner.data[scope.Stack.bottom + scope.Stack.size - 2 : scope.Stack.bottom + scope.Stack.size - 1]
//@   ensures err == nil && stackInv(scope.Stack) && scope.Stack.size == old(scope.Stack.size) - 1
//@   ensures sval(scope.Stack, 0) == ite(sgn256(old(sval(scope.Stack, 0))) > sgn256(old(sval(scope.Stack, 1))), 1, 0)

//@ func opEq(pc *uint64, evm *EVM, scope *ScopeContext) (ret []byte, err error)
//@   serves C27
//@   requires scope.Stack != nil && stackInv(scope.Stack) && scope.Stack.size >= 2
//@   modifies scope.Stack.size, scope.Stack.inner.top, scope.Stack.inner.data[scope.Stack.bottom + scope.Stack.size - 2 : scope.Stack.bottom + scope.Stack.size - 1]
//@   ensures err == nil && stackInv(scope.Stack) && scope.Stack.size == old(scope.Stack.size) - 1
//@   ensures sval(scope.Stack, 0) == ite(old(sval(scope.Stack, 0)) == old(sval(scope.Stack, 1)), 1, 0)

//@ func opIszero(pc *uint64, evm *EVM, scope *ScopeContext) (ret []byte, err error)
//@   serves C27
//@   requires scope.Stack != nil && stackInv(scope.Stack) && scope.Stack.size >= 1
//@   modifies scope.Stack.inner.data[scope.Stack.bottom + scope.Stack.size - 1 : scope.Stack.bottom + scope.Stack.size]
//@   ensures err == nil && stackInv(scope.Stack) && scope.Stack.size == old(scope.Stack.size)
//@   ensures sval(scope.Stack, 0) == ite(old(sval(scope.Stack, 0)) == 0, 1, 0)

//@ func opPop(pc *uint64, evm *EVM, scope *ScopeContext) (ret []byte, err error)
//@   serves C27
//@   requires scope.Stack != nil && stackInv(scope.Stack) && scope.Stack.size >= 1
//@   modifies scope.Stack.size, scope.Stack.inner.top
//@   ensures err == nil && stackInv(scope.Stack) && scope.Stack.size == old(scope.Stack.size) - 1

// ================================================================ C30 / C27: jumps and pushes

// JUMP / JUMPI: control is transferred only to a position that holds JUMPDEST and is not push
// data (validJumpdest, C30); otherwise the instruction fails with ErrInvalidJump and the program
// counter is left alone. The new pc is dest-1 (the interpreter adds one).
//@ func opJump(pc *uint64, evm *EVM, scope *ScopeContext) (ret []byte, err error)
//@   serves C30 C27
//@   requires scope.Stack != nil && stackInv(scope.Stack) && scope.Stack.size >= 1 && scope.Contract != nil
//@   requires analysisOK(scope.Contract) && len(scope.Contract.Code) <= 17592186044416 && ((scope.Contract.analysis == nil) == (len(scope.Contract.analysis) == 0))
//@   requires len(scope.Contract.analysis) > 0 || iszero(scope.Contract.CodeHash)
//@   modifies *pc, scope.Stack.size, scope.Stack.inner.top, scope.Contract.analysis
//@   mutates
//@   ensures err == nil ==> old(sval(scope.Stack, 0)) < len(scope.Contract.Code) && scope.Contract.Code[old(sval(scope.Stack, 0))] == 91 && !isData(scope.Contract.Code, old(sval(scope.Stack, 0))) && (*pc + 1) % 18446744073709551616 == old(sval(scope.Stack, 0))
//@   ensures err != nil ==> *pc == old(*pc)
//@   ensures err == ErrInvalidJump ==> !(old(sval(scope.Stack, 0)) < len(scope.Contract.Code) && scope.Contract.Code[old(sval(scope.Stack, 0))] == 91 && !isData(scope.Contract.Code, old(sval(scope.Stack, 0))))

//@ func opJumpi(pc *uint64, evm *EVM, scope *ScopeContext) (ret []byte, err error)
//@   serves C30 C27
//@   requires scope.Stack != nil && stackInv(scope.Stack) && scope.Stack.size >= 2 && scope.Contract != nil
//@   requires analysisOK(scope.Contract) && len(scope.Contract.Code) <= 17592186044416 && ((scope.Contract.analysis == nil) == (len(scope.Contract.analysis) == 0))
//@   requires len(scope.Contract.analysis) > 0 || iszero(scope.Contract.CodeHash)
//@   modifies *pc, scope.Stack.size, scope.Stack.inner.top, scope.Contract.analysis
//@   mutates
//@   ensures err == nil && old(sval(scope.Stack, 1)) != 0 ==> old(sval(scope.Stack, 0)) < len(scope.Contract.Code) && scope.Contract.Code[old(sval(scope.Stack, 0))] == 91 && !isData(scope.Contract.Code, old(sval(scope.Stack, 0))) && (*pc + 1) % 18446744073709551616 == old(sval(scope.Stack, 0))
//@   ensures err != nil || old(sval(scope.Stack, 1)) == 0 ==> *pc == old(*pc)

// PUSH1: pushes the byte after the opcode (zero past the end of the code) and skips it.
//@ func opPush1(pc *uint64, evm *EVM, scope *ScopeContext) (ret []byte, err error)
//@   serves C27
//@   requires scope.Stack != nil && stackInv(scope.Stack) && scope.Stack.size < 1024 && scope.Contract != nil && *pc < 18446744073709551615
//@   modifies *pc, scope.Stack.size, scope.Stack.inner.top, scope.Stack.inner.data[scope.Stack.bottom + scope.Stack.size : scope.Stack.bottom + scope.Stack.size + 1]
//@   ensures err == nil && stackInv(scope.Stack) && scope.Stack.size == old(scope.Stack.size) + 1 && *pc == old(*pc) + 1
//@   ensures sval(scope.Stack, 0) == ite(old(*pc) + 1 < len(scope.Contract.Code), scope.Contract.Code[old(*pc) + 1], 0)

//@ func opPc(pc *uint64, evm *EVM, scope *ScopeContext) (ret []byte, err error)
//@   serves C27
//@   requires scope.Stack != nil && stackInv(scope.Stack) && scope.Stack.size < 1024
//@   modifies scope.Stack.size, scope.Stack.inner.top, scope.Stack.inner.data[scope.Stack.bottom + scope.Stack.size : scope.Stack.bottom + scope.Stack.size + 1]
//@   ensures err == nil && stackInv(scope.Stack) && scope.Stack.size == old(scope.Stack.size) + 1 && sval(scope.Stack, 0) == *pc

//@ func opMsize(pc *uint64, evm *EVM, scope *ScopeContext) (ret []byte, err error)
//@   serves C27
//@   requires scope.Stack != nil && stackInv(scope.Stack) && scope.Stack.size < 1024 && scope.Memory != nil
//@   modifies scope.Stack.size, scope.Stack.inner.top, scope.Stack.inner.data[scope.Stack.bottom + scope.Stack.size : scope.Stack.bottom + scope.Stack.size + 1]
//@   ensures err == nil && stackInv(scope.Stack) && scope.Stack.size == old(scope.Stack.size) + 1 && sval(scope.Stack, 0) == len(scope.Memory.store)

// ================================================================ C27: SWAPn, DUPn and constant pushes
// The instruction wrappers around the stack primitives: SWAPn exchanges the top with the item n
// below it and leaves the size and everything in between alone; DUPn pushes a copy of the n-th
// item; the environment pushes add exactly one item holding the named quantity.

//@ func opSwap1(pc *uint64, evm *EVM, scope *ScopeContext) (ret []byte, err error)
//@   serves C27
//@   requires scope.Stack != nil && stackInv(scope.Stack) && scope.Stack.size >= 2
//@   modifies scope.Stack.inner.data[scope.Stack.bottom + scope.Stack.size - 2 : scope.Stack.bottom + scope.Stack.size]
//@   ensures err == nil && stackInv(scope.Stack) && scope.Stack.size == old(scope.Stack.size)
//@   ensures sval(scope.Stack, 0) == old(sval(scope.Stack, 1)) && sval(scope.Stack, 1) == old(sval(scope.Stack, 0))
//@   ensures forall k int :: 0 < k && k < 1 ==> sval(scope.Stack, k) == old(sval(scope.Stack, k))

//@ func opSwap2(pc *uint64, evm *EVM, scope *ScopeContext) (ret []byte, err error)
//@   serves C27
//@   requires scope.Stack != nil && stackInv(scope.Stack) && scope.Stack.size >= 3
//@   modifies scope.Stack.inner.data[scope.Stack.bottom + scope.Stack.size - 3 : scope.Stack.bottom + scope.Stack.size]
//@   ensures err == nil && stackInv(scope.Stack) && scope.Stack.size == old(scope.Stack.size)
//@   ensures sval(scope.Stack, 0) == old(sval(scope.Stack, 2)) && sval(scope.Stack, 2) == old(sval(scope.Stack, 0))
//@   ensures forall k int :: 0 < k && k < 2 ==> sval(scope.Stack, k) == old(sval(scope.Stack, k))

//@ func opSwap3(pc *uint64, evm *EVM, scope *ScopeContext) (ret []byte, err error)
//@   serves C27
//@   requires scope.Stack != nil && stackInv(scope.Stack) && scope.Stack.size >= 4
//@   modifies scope.Stack.inner.data[scope.Stack.bottom + scope.Stack.size - 4 : scope.Stack.bottom + scope.Stack.size]
//@   ensures err == nil && stackInv(scope.Stack) && scope.Stack.size == old(scope.Stack.size)
//@   ensures sval(scope.Stack, 0) == old(sval(scope.Stack, 3)) && sval(scope.Stack, 3) == old(sval(scope.Stack, 0))
//@   ensures forall k int :: 0 < k && k < 3 ==> sval(scope.Stack, k) == old(sval(scope.Stack, k))

//@ func opSwap4(pc *uint64, evm *EVM, scope *ScopeContext) (ret []byte, err error)
//@   serves C27
//@   requires scope.Stack != nil && stackInv(scope.Stack) && scope.Stack.size >= 5
//@   modifies scope.Stack.inner.data[scope.Stack.bottom + scope.Stack.size - 5 : scope.Stack.bottom + scope.Stack.size]
//@   ensures err == nil && stackInv(scope.Stack) && scope.Stack.size == old(scope.Stack.size)
//@   ensures sval(scope.Stack, 0) == old(sval(scope.Stack, 4)) && sval(scope.Stack, 4) == old(sval(scope.Stack, 0))
//@   ensures forall k int :: 0 < k && k < 4 ==> sval(scope.Stack, k) == old(sval(scope.Stack, k))

//@ func opSwap5(pc *uint64, evm *EVM, scope *ScopeContext) (ret []byte, err error)
//@   serves C27
//@   requires scope.Stack != nil && stackInv(scope.Stack) && scope.Stack.size >= 6
//@   modifies scope.Stack.inner.data[scope.Stack.bottom + scope.Stack.size - 6 : scope.Stack.bottom + scope.Stack.size]
//@   ensures err == nil && stackInv(scope.Stack) && scope.Stack.size == old(scope.Stack.size)
//@   ensures sval(scope.Stack, 0) == old(sval(scope.Stack, 5)) && sval(scope.Stack, 5) == old(sval(scope.Stack, 0))
//@   ensures forall k int :: 0 < k && k < 5 ==> sval(scope.Stack, k) == old(sval(scope.Stack, k))

//@ func opSwap6(pc *uint64, evm *EVM, scope *ScopeContext) (ret []byte, err error)
//@   serves C27
//@   requires scope.Stack != nil && stackInv(scope.Stack) && scope.Stack.size >= 7
//@   modifies scope.Stack.inner.data[scope.Stack.bottom + scope.Stack.size - 7 : scope.Stack.bottom + scope.Stack.size]
//@   ensures err == nil && stackInv(scope.Stack) && scope.Stack.size == old(scope.Stack.size)
//@   ensures sval(scope.Stack, 0) == old(sval(scope.Stack, 6)) && sval(scope.Stack, 6) == old(sval(scope.Stack, 0))
//@   ensures forall k int :: 0 < k && k < 6 ==> sval(scope.Stack, k) == old(sval(scope.Stack, k))

//@ func opSwap7(pc *uint64, evm *EVM, scope *ScopeContext) (ret []byte, err error)
//@   serves C27
//@   requires scope.Stack != nil && stackInv(scope.Stack) && scope.Stack.size >= 8
//@   modifies scope.Stack.inner.data[scope.Stack.bottom + scope.Stack.size - 8 : scope.Stack.bottom + scope.Stack.size]
//@   ensures err == nil && stackInv(scope.Stack) && scope.Stack.size == old(scope.Stack.size)
//@   ensures sval(scope.Stack, 0) == old(sval(scope.Stack, 7)) && sval(scope.Stack, 7) == old(sval(scope.Stack, 0))
//@   ensures forall k int :: 0 < k && k < 7 ==> sval(scope.Stack, k) == old(sval(scope.Stack, k))

//@ func opSwap8(pc *uint64, evm *EVM, scope *ScopeContext) (ret []byte, err error)
//@   serves C27
//@   requires scope.Stack != nil && stackInv(scope.Stack) && scope.Stack.size >= 9
//@   modifies scope.Stack.inner.data[scope.Stack.bottom + scope.Stack.size - 9 : scope.Stack.bottom + scope.Stack.size]
//@   ensures err == nil && stackInv(scope.Stack) && scope.Stack.size == old(scope.Stack.size)
//@   ensures sval(scope.Stack, 0) == old(sval(scope.Stack, 8)) && sval(scope.Stack, 8) == old(sval(scope.Stack, 0))
//@   ensures forall k int :: 0 < k && k < 8 ==> sval(scope.Stack, k) == old(sval(scope.Stack, k))

//@ func opSwap9(pc *uint64, evm *EVM, scope *ScopeContext) (ret []byte, err error)
//@   serves C27
//@   requires scope.Stack != nil && stackInv(scope.Stack) && scope.Stack.size >= 10
//@   modifies scope.Stack.inner.data[scope.Stack.bottom + scope.Stack.size - 10 : scope.Stack.bottom + scope.Stack.size]
//@   ensures err == nil && stackInv(scope.Stack) && scope.Stack.size == old(scope.Stack.size)
//@   ensures sval(scope.Stack, 0) == old(sval(scope.Stack, 9)) && sval(scope.Stack, 9) == old(sval(scope.Stack, 0))
//@   ensures forall k int :: 0 < k && k < 9 ==> sval(scope.Stack, k) == old(sval(scope.Stack, k))

//@ func opSwap10(pc *uint64, evm *EVM, scope *ScopeContext) (ret []byte, err error)
//@   serves C27
//@   requires scope.Stack != nil && stackInv(scope.Stack) && scope.Stack.size >= 11
//@   modifies scope.Stack.inner.data[scope.Stack.bottom + scope.Stack.size - 11 : scope.Stack.bottom + scope.Stack.size]
//@   ensures err == nil && stackInv(scope.Stack) && scope.Stack.size == old(scope.Stack.size)
//@   ensures sval(scope.Stack, 0) == old(sval(scope.Stack, 10)) && sval(scope.Stack, 10) == old(sval(scope.Stack, 0))
//@   ensures forall k int :: 0 < k && k < 10 ==> sval(scope.Stack, k) == old(sval(scope.Stack, k))

//@ func opSwap11(pc *uint64, evm *EVM, scope *ScopeContext) (ret []byte, err error)
//@   serves C27
//@   requires scope.Stack != nil && stackInv(scope.Stack) && scope.Stack.size >= 12
//@   modifies scope.Stack.inner.data[scope.Stack.bottom + scope.Stack.size - 12 : scope.Stack.bottom + scope.Stack.size]
//@   ensures err == nil && stackInv(scope.Stack) && scope.Stack.size == old(scope.Stack.size)
//@   ensures sval(scope.Stack, 0) == old(sval(scope.Stack, 11)) && sval(scope.Stack, 11) == old(sval(scope.Stack, 0))
//@   ensures forall k int :: 0 < k && k < 11 ==> sval(scope.Stack, k) == old(sval(scope.Stack, k))

//@ func opSwap12(pc *uint64, evm *EVM, scope *ScopeContext) (ret []byte, err error)
//@   serves C27
//@   requires scope.Stack != nil && stackInv(scope.Stack) && scope.Stack.size >= 13
//@   modifies scope.Stack.inner.data[scope.Stack.bottom + scope.Stack.size - 13 : scope.Stack.bottom + scope.Stack.size]
//@   ensures err == nil && stackInv(scope.Stack) && scope.Stack.size == old(scope.Stack.size)
//@   ensures sval(scope.Stack, 0) == old(sval(scope.Stack, 12)) && sval(scope.Stack, 12) == old(sval(scope.Stack, 0))
//@   ensures forall k int :: 0 < k && k < 12 ==> sval(scope.Stack, k) == old(sval(scope.Stack, k))

//@ func opSwap13(pc *uint64, evm *EVM, scope *ScopeContext) (ret []byte, err error)
//@   serves C27
//@   requires scope.Stack != nil && stackInv(scope.Stack) && scope.Stack.size >= 14
//@   modifies scope.Stack.inner.data[scope.Stack.bottom + scope.Stack.size - 14 : scope.Stack.bottom + scope.Stack.size]
//@   ensures err == nil && stackInv(scope.Stack) && scope.Stack.size == old(scope.Stack.size)
//@   ensures sval(scope.Stack, 0) == old(sval(scope.Stack, 13)) && sval(scope.Stack, 13) == old(sval(scope.Stack, 0))
//@   ensures forall k int :: 0 < k && k < 13 ==> sval(scope.Stack, k) == old(sval(scope.Stack, k))

//@ func opSwap14(pc *uint64, evm *EVM, scope *ScopeContext) (ret []byte, err error)
//@   serves C27
//@   requires scope.Stack != nil && stackInv(scope.Stack) && scope.Stack.size >= 15
//@   modifies scope.Stack.inner.data[scope.Stack.bottom + scope.Stack.size - 15 : scope.Stack.bottom + scope.Stack.size]
//@   ensures err == nil && stackInv(scope.Stack) && scope.Stack.size == old(scope.Stack.size)
//@   ensures sval(scope.Stack, 0) == old(sval(scope.Stack, 14)) && sval(scope.Stack, 14) == old(sval(scope.Stack, 0))
//@   ensures forall k int :: 0 < k && k < 14 ==> sval(scope.Stack, k) == old(sval(scope.Stack, k))

//@ func opSwap15(pc *uint64, evm *EVM, scope *ScopeContext) (ret []byte, err error)
//@   serves C27
//@   requires scope.Stack != nil && stackInv(scope.Stack) && scope.Stack.size >= 16
//@   modifies scope.Stack.inner.data[scope.Stack.bottom + scope.Stack.size - 16 : scope.Stack.bottom + scope.Stack.size]
//@   ensures err == nil && stackInv(scope.Stack) && scope.Stack.size == old(scope.Stack.size)
//@   ensures sval(scope.Stack, 0) == old(sval(scope.Stack, 15)) && sval(scope.Stack, 15) == old(sval(scope.Stack, 0))
//@   ensures forall k int :: 0 < k && k < 15 ==> sval(scope.Stack, k) == old(sval(scope.Stack, k))

//@ func opSwap16(pc *uint64, evm *EVM, scope *ScopeContext) (ret []byte, err error)
//@   serves C27
//@   requires scope.Stack != nil && stackInv(scope.Stack) && scope.Stack.size >= 17
//@   modifies scope.Stack.inner.data[scope.Stack.bottom + scope.Stack.size - 17 : scope.Stack.bottom + scope.Stack.size]
//@   ensures err == nil && stackInv(scope.Stack) && scope.Stack.size == old(scope.Stack.size)
//@   ensures sval(scope.Stack, 0) == old(sval(scope.Stack, 16)) && sval(scope.Stack, 16) == old(sval(scope.Stack, 0))
//@   ensures forall k int :: 0 < k && k < 16 ==> sval(scope.Stack, k) == old(sval(scope.Stack, k))

//@ func makeDup$1(pc *uint64, evm *EVM, scope *ScopeContext) (ret []byte, err error)
//@   serves C27
//@   requires scope.Stack != nil && stackInv(scope.Stack) && 1 <= size && size <= scope.Stack.size && scope.Stack.size < 1024
//@   modifies scope.Stack.size, scope.Stack.inner.top, scope.Stack.inner.data[scope.Stack.bottom + scope.Stack.size : scope.Stack.bottom + scope.Stack.size + 1]
//@   ensures err == nil && stackInv(scope.Stack) && scope.Stack.size == old(scope.Stack.size) + 1 && sval(scope.Stack, 0) == old(sval(scope.Stack, size - 1))

//@ func opPush0(pc *uint64, evm *EVM, scope *ScopeContext) (ret []byte, err error)
//@   serves C27
//@   requires scope.Stack != nil && stackInv(scope.Stack) && scope.Stack.size < 1024
//@   modifies scope.Stack.size, scope.Stack.inner.top, scope.Stack.inner.data[scope.Stack.bottom + scope.Stack.size : scope.Stack.bottom + scope.Stack.size + 1]
//@   ensures err == nil && stackInv(scope.Stack) && scope.Stack.size == old(scope.Stack.size) + 1 && sval(scope.Stack, 0) == 0

//@ func opGas(pc *uint64, evm *EVM, scope *ScopeContext) (ret []byte, err error)
//@   serves C27
//@   requires scope.Stack != nil && stackInv(scope.Stack) && scope.Stack.size < 1024 && scope.Contract != nil
//@   modifies scope.Stack.size, scope.Stack.inner.top, scope.Stack.inner.data[scope.Stack.bottom + scope.Stack.size : scope.Stack.bottom + scope.Stack.size + 1]
//@   ensures err == nil && stackInv(scope.Stack) && scope.Stack.size == old(scope.Stack.size) + 1 && sval(scope.Stack, 0) == scope.Contract.Gas.ExecutionGas

//@ func opCallDataSize(pc *uint64, evm *EVM, scope *ScopeContext) (ret []byte, err error)
//@   serves C27
//@   requires scope.Stack != nil && stackInv(scope.Stack) && scope.Stack.size < 1024 && scope.Contract != nil
//@   modifies scope.Stack.size, scope.Stack.inner.top, scope.Stack.inner.data[scope.Stack.bottom + scope.Stack.size : scope.Stack.bottom + scope.Stack.size + 1]
//@   ensures err == nil && stackInv(scope.Stack) && scope.Stack.size == old(scope.Stack.size) + 1 && sval(scope.Stack, 0) == len(scope.Contract.Input)

//@ func opCodeSize(pc *uint64, evm *EVM, scope *ScopeContext) (ret []byte, err error)
//@   serves C27
//@   requires scope.Stack != nil && stackInv(scope.Stack) && scope.Stack.size < 1024 && scope.Contract != nil
//@   modifies scope.Stack.size, scope.Stack.inner.top, scope.Stack.inner.data[scope.Stack.bottom + scope.Stack.size : scope.Stack.bottom + scope.Stack.size + 1]
//@   ensures err == nil && stackInv(scope.Stack) && scope.Stack.size == old(scope.Stack.size) + 1 && sval(scope.Stack, 0) == len(scope.Contract.Code)

//@ func opReturnDataSize(pc *uint64, evm *EVM, scope *ScopeContext) (ret []byte, err error)
//@   serves C27
//@   requires scope.Stack != nil && stackInv(scope.Stack) && scope.Stack.size < 1024
//@   modifies scope.Stack.size, scope.Stack.inner.top, scope.Stack.inner.data[scope.Stack.bottom + scope.Stack.size : scope.Stack.bottom + scope.Stack.size + 1]
//@   ensures err == nil && stackInv(scope.Stack) && scope.Stack.size == old(scope.Stack.size) + 1 && sval(scope.Stack, 0) == len(evm.returnData)

//@ func opCallValue(pc *uint64, evm *EVM, scope *ScopeContext) (ret []byte, err error)
//@   serves C27
//@   requires scope.Stack != nil && stackInv(scope.Stack) && scope.Stack.size < 1024 && scope.Contract != nil && scope.Contract.value != nil
//@   modifies scope.Stack.size, scope.Stack.inner.top, scope.Stack.inner.data[scope.Stack.bottom + scope.Stack.size : scope.Stack.bottom + scope.Stack.size + 1]
//@   ensures err == nil && stackInv(scope.Stack) && scope.Stack.size == old(scope.Stack.size) + 1 && sval(scope.Stack, 0) == old(u256val(scope.Contract.value))

//@ func opStop(pc *uint64, evm *EVM, scope *ScopeContext) (ret []byte, err error)
//@   serves C27
//@   ensures err == errStopToken && len(ret) == 0

// ================================================================ C27: stack effect of the remaining arithmetic instructions
// Bitwise, modular, signed and shift instructions whose 256-bit result the generator does not
// model (holiman/uint256 methods without an arithmetic model are havocked on their operands):
// what is proved is the stack effect - no error, the frame's window stays well formed, exactly
// the stated number of items is consumed, and only the operand slots are written.

//@ func opAnd(pc *uint64, evm *EVM, scope *ScopeContext) (ret []byte, err error)
//@   serves C27
//@   requires scope.Stack != nil && stackInv(scope.Stack) && scope.Stack.size >= 2
//@   modifies scope.Stack.size, scope.Stack.inner.top, scope.Stack.inner.data[scope.Stack.bottom + scope.Stack.size - 2 : scope.Stack.bottom + scope.Stack.size]
//@   ensures err == nil && stackInv(scope.Stack) && scope.Stack.size == old(scope.Stack.size) - 1

//@ func opOr(pc *uint64, evm *EVM, scope *ScopeContext) (ret []byte, err error)
//@   serves C27
//@   requires scope.Stack != nil && stackInv(scope.Stack) && scope.Stack.size >= 2
//@   modifies scope.Stack.size, scope.Stack.inner.top, scope.Stack.inner.data[scope.Stack.bottom + scope.Stack.size - 2 : scope.Stack.bottom + scope.Stack.size]
//@   ensures err == nil && stackInv(scope.Stack) && scope.Stack.size == old(scope.Stack.size) - 1

//@ func opXor(pc *uint64, evm *EVM, scope *ScopeContext) (ret []byte, err error)
//@   serves C27
//@   requires scope.Stack != nil && stackInv(scope.Stack) && scope.Stack.size >= 2
//@   modifies scope.Stack.size, scope.Stack.inner.top, scope.Stack.inner.data[scope.Stack.bottom + scope.Stack.size - 2 : scope.Stack.bottom + scope.Stack.size]
//@   ensures err == nil && stackInv(scope.Stack) && scope.Stack.size == old(scope.Stack.size) - 1

//@ func opByte(pc *uint64, evm *EVM, scope *ScopeContext) (ret []byte, err error)
//@   serves C27
//@   requires scope.Stack != nil && stackInv(scope.Stack) && scope.Stack.size >= 2
//@   modifies scope.Stack.size, scope.Stack.inner.top, scope.Stack.inner.data[scope.Stack.bottom + scope.Stack.size - 2 : scope.Stack.bottom + scope.Stack.size]
//@   ensures err == nil && stackInv(scope.Stack) && scope.Stack.size == old(scope.Stack.size) - 1

//@ func opSHL(pc *uint64, evm *EVM, scope *ScopeContext) (ret []byte, err error)
//@   serves C27
//@   requires scope.Stack != nil && stackInv(scope.Stack) && scope.Stack.size >= 2
//@   modifies scope.Stack.size, scope.Stack.inner.top, scope.Stack.inner.data[scope.Stack.bottom + scope.Stack.size - 2 : scope.Stack.bottom + scope.Stack.size]
//@   ensures err == nil && stackInv(scope.Stack) && scope.Stack.size == old(scope.Stack.size) - 1

//@ func opSHR(pc *uint64, evm *EVM, scope *ScopeContext) (ret []byte, err error)
//@   serves C27
//@   requires scope.Stack != nil && stackInv(scope.Stack) && scope.Stack.size >= 2
//@   modifies scope.Stack.size, scope.Stack.inner.top, scope.Stack.inner.data[scope.Stack.bottom + scope.Stack.size - 2 : scope.Stack.bottom + scope.Stack.size]
//@   ensures err == nil && stackInv(scope.Stack) && scope.Stack.size == old(scope.Stack.size) - 1

//@ func opSAR(pc *uint64, evm *EVM, scope *ScopeContext) (ret []byte, err error)
//@   serves C27
//@   requires scope.Stack != nil && stackInv(scope.Stack) && scope.Stack.size >= 2
//@   modifies scope.Stack.size, scope.Stack.inner.top, scope.Stack.inner.data[scope.Stack.bottom + scope.Stack.size - 2 : scope.Stack.bottom + scope.Stack.size]
//@   ensures err == nil && stackInv(scope.Stack) && scope.Stack.size == old(scope.Stack.size) - 1

//@ func opSignExtend(pc *uint64, evm *EVM, scope *ScopeContext) (ret []byte, err error)
//@   serves C27
//@   requires scope.Stack != nil && stackInv(scope.Stack) && scope.Stack.size >= 2
//@   modifies scope.Stack.size, scope.Stack.inner.top, scope.Stack.inner.data[scope.Stack.bottom + scope.Stack.size - 2 : scope.Stack.bottom + scope.Stack.size]
//@   ensures err == nil && stackInv(scope.Stack) && scope.Stack.size == old(scope.Stack.size) - 1

//@ func opSdiv(pc *uint64, evm *EVM, scope *ScopeContext) (ret []byte, err error)
//@   serves C27
//@   requires scope.Stack != nil && stackInv(scope.Stack) && scope.Stack.size >= 2
//@   modifies scope.Stack.size, scope.Stack.inner.top, scope.Stack.inner.data[scope.Stack.bottom + scope.Stack.size - 2 : scope.Stack.bottom + scope.Stack.size]
//@   ensures err == nil && stackInv(scope.Stack) && scope.Stack.size == old(scope.Stack.size) - 1

//@ func opSmod(pc *uint64, evm *EVM, scope *ScopeContext) (ret []byte, err error)
//@   serves C27
//@   requires scope.Stack != nil && stackInv(scope.Stack) && scope.Stack.size >= 2
//@   modifies scope.Stack.size, scope.Stack.inner.top, scope.Stack.inner.data[scope.Stack.bottom + scope.Stack.size - 2 : scope.Stack.bottom + scope.Stack.size]
//@   ensures err == nil && stackInv(scope.Stack) && scope.Stack.size == old(scope.Stack.size) - 1

//@ func opExp(pc *uint64, evm *EVM, scope *ScopeContext) (ret []byte, err error)
//@   serves C27
//@   requires scope.Stack != nil && stackInv(scope.Stack) && scope.Stack.size >= 2
//@   modifies scope.Stack.size, scope.Stack.inner.top, scope.Stack.inner.data[scope.Stack.bottom + scope.Stack.size - 2 : scope.Stack.bottom + scope.Stack.size]
//@   ensures err == nil && stackInv(scope.Stack) && scope.Stack.size == old(scope.Stack.size) - 1

//@ func opAddmod(pc *uint64, evm *EVM, scope *ScopeContext) (ret []byte, err error)
//@   serves C27
//@   requires scope.Stack != nil && stackInv(scope.Stack) && scope.Stack.size >= 3
//@   modifies scope.Stack.size, scope.Stack.inner.top, scope.Stack.inner.data[scope.Stack.bottom + scope.Stack.size - 3 : scope.Stack.bottom + scope.Stack.size]
//@   ensures err == nil && stackInv(scope.Stack) && scope.Stack.size == old(scope.Stack.size) - 2

//@ func opMulmod(pc *uint64, evm *EVM, scope *ScopeContext) (ret []byte, err error)
//@   serves C27
//@   requires scope.Stack != nil && stackInv(scope.Stack) && scope.Stack.size >= 3
//@   modifies scope.Stack.size, scope.Stack.inner.top, scope.Stack.inner.data[scope.Stack.bottom + scope.Stack.size - 3 : scope.Stack.bottom + scope.Stack.size]
//@   ensures err == nil && stackInv(scope.Stack) && scope.Stack.size == old(scope.Stack.size) - 2

//@ func opNot(pc *uint64, evm *EVM, scope *ScopeContext) (ret []byte, err error)
//@   serves C27
//@   requires scope.Stack != nil && stackInv(scope.Stack) && scope.Stack.size >= 1
//@   modifies scope.Stack.inner.data[scope.Stack.bottom + scope.Stack.size - 1 : scope.Stack.bottom + scope.Stack.size]
//@   ensures err == nil && stackInv(scope.Stack) && scope.Stack.size == old(scope.Stack.size) - 0

//@ func opCLZ(pc *uint64, evm *EVM, scope *ScopeContext) (ret []byte, err error)
//@   serves C27
//@   requires scope.Stack != nil && stackInv(scope.Stack) && scope.Stack.size >= 1
//@   modifies scope.Stack.inner.data[scope.Stack.bottom + scope.Stack.size - 1 : scope.Stack.bottom + scope.Stack.size]
//@   ensures err == nil && stackInv(scope.Stack) && scope.Stack.size == old(scope.Stack.size) - 0

// PUSH2: pushes the two bytes after the opcode, big-endian, zero-filled past the end of the code,
// and skips them; the code is never read beyond its length.
//@ func opPush2(pc *uint64, evm *EVM, scope *ScopeContext) (ret []byte, err error)
//@   serves C27
//@   requires scope.Stack != nil && stackInv(scope.Stack) && scope.Stack.size < 1024 && scope.Contract != nil && *pc < 18446744073709551613
//@   modifies *pc, scope.Stack.size, scope.Stack.inner.top, scope.Stack.inner.data[scope.Stack.bottom + scope.Stack.size : scope.Stack.bottom + scope.Stack.size + 1]
//@   ensures err == nil && stackInv(scope.Stack) && scope.Stack.size == old(scope.Stack.size) + 1 && *pc == old(*pc) + 2
//@   ensures sval(scope.Stack, 0) == ite(old(*pc) + 2 < len(scope.Contract.Code), scope.Contract.Code[old(*pc) + 1] * 256 + scope.Contract.Code[old(*pc) + 2], ite(old(*pc) + 1 < len(scope.Contract.Code), scope.Contract.Code[old(*pc) + 1] * 256, 0))

// PUSHn (general form): one item is pushed and the code is only sliced within its length. (The
// pushed value is not modelled; that the program counter advances by the instruction's size is
// not claimed: no solver decides that clause next to the variable shift of the zero-fill.)
//@ func makePush$1(pc *uint64, evm *EVM, scope *ScopeContext) (ret []byte, err error)
//@   serves C27
//@   requires scope.Stack != nil && stackInv(scope.Stack) && scope.Stack.size < 1024 && scope.Contract != nil
//@   requires 1 <= pushByteSize && pushByteSize <= 32 && size == pushByteSize && *pc < 4611686018427387904
//@   modifies *pc, scope.Stack.size, scope.Stack.inner.top, scope.Stack.inner.data[scope.Stack.bottom + scope.Stack.size : scope.Stack.bottom + scope.Stack.size + 1]
//@   ensures err == nil
//@   ensures stackInv(scope.Stack)
//@   ensures scope.Stack.size == old(scope.Stack.size) + 1
