//go:build verif

// Machine-checked contracts for package vm (verification only; never built
// without the "verif" tag). Checked by /verif/bin/govc.

package vm

// ---------------------------------------------------------------------------
// C31: two-dimensional gas accounting (core/vm/gascosts.go)
// ---------------------------------------------------------------------------

// Conserved quantities of a frame budget.
//   K1: remaining + consumed + spilled execution gas  (== execution gas the frame was given)
//   K2: reservoir + net state gas used - spilled      (== reservoir the frame was given, while nothing is lent to a child)
//@ pure func K1(g GasBudget) int { return g.ExecutionGas + g.UsedExecutionGas + g.Spilled }
//@ pure func K2(g GasBudget) int { return g.StateGas + g.UsedStateGas - g.Spilled }
//@ pure func TMAX() int { return 2305843009213693952 }
// ranged: caller-history bound (total frame budget < 2^61) that keeps the signed accumulator from wrapping.
//@ pure func ranged(g GasBudget) bool { return K1(g) <= TMAX() && g.StateGas <= TMAX() && 0 <= K2(g) && K2(g) <= TMAX() }
//@ pure func canAfford(g GasBudget, c GasCosts) bool { return g.ExecutionGas >= c.ExecutionGas && (c.StateGas <= g.StateGas || c.StateGas - g.StateGas <= g.ExecutionGas - c.ExecutionGas) }

//@ func NewGasBudget(execution, state uint64) (result GasBudget)
//@   serves C31
//@   ensures result.ExecutionGas == execution && result.StateGas == state
//@   ensures result.UsedExecutionGas == 0 && result.UsedStateGas == 0 && result.Spilled == 0
//@   ensures K1(result) == execution && K2(result) == state

//@ func (g GasBudget) CanAfford(cost GasCosts) (ok bool)
//@   serves C31
//@   ensures ok == canAfford(g, cost)
//@   nowrap

//@ func (g *GasBudget) charge(cost GasCosts) (ok bool)
//@   serves C31
//@   requires ranged(*g)
//@   ensures ok == canAfford(old(*g), cost)
//@   ensures !ok ==> *g == old(*g)
//@   ensures ok ==> K1(*g) == K1(old(*g)) && K2(*g) == K2(old(*g))
//@   ensures ok ==> g.ExecutionGas + g.StateGas + cost.ExecutionGas + cost.StateGas == old(g.ExecutionGas) + old(g.StateGas)
//@   ensures ok ==> g.UsedExecutionGas == old(g.UsedExecutionGas) + cost.ExecutionGas && g.UsedStateGas == old(g.UsedStateGas) + cost.StateGas
//@   ensures ok ==> g.Spilled == old(g.Spilled) + ite(cost.StateGas > old(g.StateGas), cost.StateGas - old(g.StateGas), 0)
//@   ensures ok ==> g.StateGas == ite(cost.StateGas > old(g.StateGas), 0, old(g.StateGas) - cost.StateGas)
//@   ensures ok ==> ranged(*g)
//@   modifies *g
//@   nowrap
