//go:build verif

// Machine-checked contracts for package vm (verification only; never built
// without the "verif" tag). Checked by /verif/bin/govc.

package vm

// ---------------------------------------------------------------------------
// C31: two-dimensional gas accounting (core/vm/gascosts.go)
// ---------------------------------------------------------------------------

// Conserved quantities of a frame budget.
//   K1: remaining + consumed + spilled execution gas  (== execution gas the frame was given)
//   K2: reservoir + net state gas used - spilled      (== reservoir the frame was given, while nothing is lent to a child)
//@ pure func K1(g GasBudget) int { return g.ExecutionGas + g.UsedExecutionGas + g.Spilled }
//@ pure func K2(g GasBudget) int { return g.StateGas + g.UsedStateGas - g.Spilled }
//@ pure func TMAX() int { return 2305843009213693952 }
// ranged: caller-history bound (frame budget below T = 2^61, reservoir below T) that keeps the
// signed accumulator from wrapping; it is preserved by every operation (RefundState needs the
// refunded reservoir to stay below T: refunds return state gas charged earlier in the transaction).
//@ pure func ranged(g GasBudget) bool { return K1(g) <= TMAX() && g.StateGas <= TMAX() && 0 <= K2(g) && K2(g) <= TMAX() }
//@ pure func canAfford(g GasBudget, c GasCosts) bool { return g.ExecutionGas >= c.ExecutionGas && (c.StateGas <= g.StateGas || c.StateGas - g.StateGas <= g.ExecutionGas - c.ExecutionGas) }

//@ func NewGasBudget(execution, state uint64) (result GasBudget)
//@   serves C31
//@   ensures result.ExecutionGas == execution && result.StateGas == state
//@   ensures result.UsedExecutionGas == 0 && result.UsedStateGas == 0 && result.Spilled == 0
//@   ensures K1(result) == execution && K2(result) == state

//@ func (g GasBudget) CanAfford(cost GasCosts) (ok bool)
//@   serves C31
//@   ensures ok == canAfford(g, cost)
//@   nowrap

//@ func (g *GasBudget) charge(cost GasCosts) (ok bool)
//@   serves C31
//@   requires ranged(*g)
//@   ensures ok == canAfford(old(*g), cost)
//@   ensures !ok ==> *g == old(*g)
//@   ensures ok ==> K1(*g) == K1(old(*g)) && K2(*g) == K2(old(*g))
//@   ensures ok ==> g.ExecutionGas + g.StateGas + cost.ExecutionGas + cost.StateGas == old(g.ExecutionGas) + old(g.StateGas)
//@   ensures ok ==> g.UsedExecutionGas == old(g.UsedExecutionGas) + cost.ExecutionGas && g.UsedStateGas == old(g.UsedStateGas) + cost.StateGas
//@   ensures ok ==> g.Spilled == old(g.Spilled) + ite(cost.StateGas > old(g.StateGas), cost.StateGas - old(g.StateGas), 0)
//@   ensures ok ==> g.StateGas == ite(cost.StateGas > old(g.StateGas), 0, old(g.StateGas) - cost.StateGas)
//@   ensures ok ==> ranged(*g)
//@   modifies *g
//@   nowrap

//@ func (g *GasBudget) Charge(cost GasCosts) (prior GasBudget, ok bool)
//@   serves C31
//@   requires ranged(*g)
//@   ensures prior == old(*g)
//@   ensures ok == canAfford(old(*g), cost)
//@   ensures !ok ==> *g == old(*g)
//@   ensures ok ==> K1(*g) == K1(old(*g)) && K2(*g) == K2(old(*g)) && ranged(*g)
//@   ensures ok ==> g.ExecutionGas + g.StateGas + cost.ExecutionGas + cost.StateGas == old(g.ExecutionGas) + old(g.StateGas)
//@   ensures ok ==> g.UsedExecutionGas == old(g.UsedExecutionGas) + cost.ExecutionGas && g.UsedStateGas == old(g.UsedStateGas) + cost.StateGas
//@   ensures ok ==> g.Spilled == old(g.Spilled) + ite(cost.StateGas > old(g.StateGas), cost.StateGas - old(g.StateGas), 0)
//@   ensures ok ==> g.StateGas == ite(cost.StateGas > old(g.StateGas), 0, old(g.StateGas) - cost.StateGas)
//@   modifies *g
//@   nowrap

//@ func (g *GasBudget) ChargeExecutionOnly(r uint64) (ok bool)
//@   serves C31
//@   requires ranged(*g)
//@   ensures ok == (old(g.ExecutionGas) >= r)
//@   ensures !ok ==> *g == old(*g)
//@   ensures ok ==> g.ExecutionGas == old(g.ExecutionGas) - r && g.UsedExecutionGas == old(g.UsedExecutionGas) + r
//@   ensures g.StateGas == old(g.StateGas) && g.UsedStateGas == old(g.UsedStateGas) && g.Spilled == old(g.Spilled)
//@   ensures K1(*g) == K1(old(*g)) && K2(*g) == K2(old(*g)) && ranged(*g)
//@   modifies *g
//@   nowrap

//@ func (g *GasBudget) ChargeExecution(r uint64) (prior GasBudget, ok bool)
//@   serves C31
//@   requires ranged(*g)
//@   ensures prior == old(*g)
//@   ensures ok == (old(g.ExecutionGas) >= r)
//@   ensures !ok ==> *g == old(*g)
//@   ensures ok ==> g.ExecutionGas == old(g.ExecutionGas) - r && g.UsedExecutionGas == old(g.UsedExecutionGas) + r
//@   ensures ok ==> g.StateGas == old(g.StateGas) && g.UsedStateGas == old(g.UsedStateGas) && g.Spilled == old(g.Spilled)
//@   ensures K1(*g) == K1(old(*g)) && K2(*g) == K2(old(*g)) && ranged(*g)
//@   modifies *g
//@   nowrap

//@ func (g *GasBudget) ChargeState(s uint64) (prior GasBudget, ok bool)
//@   serves C31
//@   requires ranged(*g)
//@   ensures prior == old(*g)
//@   ensures ok == (s <= old(g.StateGas) || s - old(g.StateGas) <= old(g.ExecutionGas))
//@   ensures !ok ==> *g == old(*g)
//@   ensures ok ==> g.ExecutionGas + g.StateGas + s == old(g.ExecutionGas) + old(g.StateGas)
//@   ensures ok ==> g.UsedExecutionGas == old(g.UsedExecutionGas) && g.UsedStateGas == old(g.UsedStateGas) + s
//@   ensures K1(*g) == K1(old(*g)) && K2(*g) == K2(old(*g)) && ranged(*g)
//@   modifies *g
//@   nowrap

// RefundState: the refund returns state gas charged earlier in the same transaction, so
// the reservoir cannot grow beyond the budget bound (caller obligation).
//@ func (g *GasBudget) RefundState(s uint64)
//@   serves C31
//@   requires ranged(*g) && g.StateGas + s <= TMAX()
//@   ensures K1(*g) == K1(old(*g)) && K2(*g) == K2(old(*g)) && ranged(*g)
//@   ensures g.ExecutionGas + g.StateGas == old(g.ExecutionGas) + old(g.StateGas) + s
//@   ensures g.Spilled == old(g.Spilled) - min(s, old(g.Spilled))
//@   ensures g.ExecutionGas == old(g.ExecutionGas) + min(s, old(g.Spilled))
//@   ensures g.UsedStateGas == old(g.UsedStateGas) - s && g.UsedExecutionGas == old(g.UsedExecutionGas)
//@   modifies *g
//@   nowrap

//@ func (g *GasBudget) DrainExecution()
//@   serves C31
//@   requires ranged(*g)
//@   ensures g.ExecutionGas == 0 && g.UsedExecutionGas == old(g.UsedExecutionGas) + old(g.ExecutionGas)
//@   ensures g.StateGas == old(g.StateGas) && g.UsedStateGas == old(g.UsedStateGas) && g.Spilled == old(g.Spilled)
//@   ensures K1(*g) == K1(old(*g)) && K2(*g) == K2(old(*g)) && ranged(*g)
//@   modifies *g
//@   nowrap

// Forward: the parent lends its whole reservoir to the child. Afterwards
//   K1(parent) is unchanged, K2(parent) dropped by exactly the lent reservoir,
//   and the child starts with K1(child) == execution, K2(child) == lent reservoir.
//@ func (g *GasBudget) Forward(execution uint64) (child GasBudget)
//@   serves C31
//@   requires ranged(*g) && execution <= g.ExecutionGas
//@   ensures child.ExecutionGas == execution && child.StateGas == old(g.StateGas)
//@   ensures child.UsedExecutionGas == 0 && child.UsedStateGas == 0 && child.Spilled == 0
//@   ensures g.ExecutionGas == old(g.ExecutionGas) - execution && g.UsedExecutionGas == old(g.UsedExecutionGas) + execution
//@   ensures g.StateGas == 0 && g.UsedStateGas == old(g.UsedStateGas) && g.Spilled == old(g.Spilled)
//@   ensures K1(*g) == K1(old(*g)) && K2(*g) + old(g.StateGas) == K2(old(*g))
//@   ensures K1(child) == execution && K2(child) == old(g.StateGas) && ranged(child)
//@   modifies *g
//@   nowrap

//@ func (g *GasBudget) ForwardAll() (child GasBudget)
//@   serves C31
//@   requires ranged(*g)
//@   ensures child.ExecutionGas == old(g.ExecutionGas) && child.StateGas == old(g.StateGas)
//@   ensures child.UsedExecutionGas == 0 && child.UsedStateGas == 0 && child.Spilled == 0
//@   ensures g.ExecutionGas == 0 && g.UsedExecutionGas == old(g.UsedExecutionGas) + old(g.ExecutionGas)
//@   ensures g.StateGas == 0 && g.UsedStateGas == old(g.UsedStateGas) && g.Spilled == old(g.Spilled)
//@   ensures K1(*g) == K1(old(*g)) && K2(*g) + old(g.StateGas) == K2(old(*g))
//@   ensures K1(child) == old(g.ExecutionGas) && K2(child) == old(g.StateGas) && ranged(child)
//@   modifies *g
//@   nowrap

//@ func (g GasBudget) ExitSuccess() (result GasBudget)
//@   serves C31
//@   ensures result == g

// A reverted frame hands back the reservoir it started with (K2) and its unspent
// execution gas including what it had borrowed for state gas.
//@ func (g GasBudget) ExitRevert() (result GasBudget)
//@   serves C31
//@   requires ranged(g)
//@   ensures result.StateGas == K2(g)
//@   ensures result.ExecutionGas == g.ExecutionGas + g.Spilled
//@   ensures result.UsedExecutionGas == g.UsedExecutionGas && result.UsedStateGas == 0 && result.Spilled == 0
//@   ensures K1(result) == K1(g) && K2(result) == K2(g) && ranged(result)
//@   nowrap

// A halted frame hands back its initial reservoir (K2) and no execution gas.
//@ func (g GasBudget) ExitHalt() (result GasBudget)
//@   serves C31
//@   requires ranged(g)
//@   ensures result.StateGas == K2(g)
//@   ensures result.ExecutionGas == 0
//@   ensures result.UsedExecutionGas == K1(g) && result.UsedStateGas == 0 && result.Spilled == 0
//@   ensures K1(result) == K1(g) && K2(result) == K2(g) && ranged(result)
//@   nowrap

//@ func (g GasBudget) Exit(err error) (result GasBudget)
//@   serves C31
//@   requires ranged(g)
//@   ensures err == nil ==> result == g
//@   ensures err != nil ==> result.StateGas == K2(g) && result.UsedStateGas == 0 && result.Spilled == 0
//@   ensures err == ErrExecutionReverted ==> result.ExecutionGas == g.ExecutionGas + g.Spilled && result.UsedExecutionGas == g.UsedExecutionGas
//@   ensures err != nil && err != ErrExecutionReverted ==> result.ExecutionGas == 0 && result.UsedExecutionGas == K1(g)
//@   ensures K1(result) == K1(g) && K2(result) == K2(g) && ranged(result)
//@   nowrap

// Absorb: the child's leftover is merged back. fwd is what Forward added to the
// parent's UsedExecutionGas for this child, i.e. K1(child) <= g.UsedExecutionGas.
//@ func (g *GasBudget) Absorb(child GasBudget)
//@   serves C31
//@   requires g.StateGas == 0
//@   requires K1(child) <= g.UsedExecutionGas
//@   requires K1(*g) <= TMAX() && 0 <= K2(*g) + K2(child) && K2(*g) + K2(child) <= TMAX() && child.StateGas <= TMAX()
//@   requires 0 - TMAX() <= g.UsedStateGas && g.UsedStateGas <= 2*TMAX() && 0 - TMAX() <= child.UsedStateGas && child.UsedStateGas <= 2*TMAX()
//@   ensures K1(*g) == K1(old(*g))
//@   ensures K2(*g) == K2(old(*g)) + K2(child)
//@   ensures g.ExecutionGas == old(g.ExecutionGas) + child.ExecutionGas && g.StateGas == child.StateGas
//@   ensures g.UsedExecutionGas == old(g.UsedExecutionGas) - child.ExecutionGas - child.Spilled
//@   ensures g.UsedStateGas == old(g.UsedStateGas) + child.UsedStateGas && g.Spilled == old(g.Spilled) + child.Spilled
//@   ensures ranged(*g)
//@   modifies *g
//@   nowrap

//@ func (g GasBudget) Used(initial GasBudget) (used uint64)
//@   serves C31
//@   requires g.ExecutionGas + g.StateGas <= initial.ExecutionGas + initial.StateGas
//@   requires initial.ExecutionGas + initial.StateGas <= 2*TMAX()
//@   ensures used == initial.ExecutionGas + initial.StateGas - g.ExecutionGas - g.StateGas
//@   ensures used <= initial.ExecutionGas + initial.StateGas
//@   nowrap

//@ func (g *GasBudget) IsZero() (z bool)
//@   serves C31
//@   ensures z == (g.ExecutionGas == 0 && g.StateGas == 0)

// ---------------------------------------------------------------------------
// Getters used by callers in package core
// ---------------------------------------------------------------------------

//@ func (evm *EVM) ChainConfig() (c *params.ChainConfig)
//@   serves C31
//@   ensures c == evm.chainConfig

// ---------------------------------------------------------------------------
// C29 / C31 / C27: frame functions (core/vm/evm.go)
//
// Ghost state of one frame activation:
//   hasSnap, snap : a snapshot was taken and its id
//   dirty         : the world state was (possibly) mutated since the snapshot and not reverted to it
//   early         : a mutating call happened before any snapshot was taken
// Clause "err != nil ==> !dirty": every failing exit has rolled the state back to the
// snapshot taken at frame entry. That RevertToSnapshot restores everything is a property
// of the state database journal and is not proved here.
// ---------------------------------------------------------------------------

//@ directive pure-observer core/vm.StateDB).Exist
//@ directive pure-observer core/vm.StateDB).Empty
//@ directive pure-observer core/vm.StateDB).GetNonce
//@ directive pure-observer core/vm.StateDB).GetCodeHash
//@ directive pure-observer core/vm.StateDB).GetCode
//@ directive pure-observer core/vm.StateDB).GetBalance
//@ directive pure-observer funcfield:BlockContext.CanTransfer
//@ directive pure-observer (*github.com/ethereum/go-ethereum/core/tracing.Hooks).HasGasHook
//@ directive noeffect (*github.com/ethereum/go-ethereum/core/tracing.Hooks).
//@ directive noeffect vm.EVM).captureBegin
//@ directive noeffect vm.EVM).captureEnd
//@ directive noeffect core/vm.isSystemCall
//@ directive noeffect vm.EVM).precompile
//@ directive noeffect vm.EVM).resolveCode
//@ directive noeffect core/vm.isEIP7610RejectedAccount
//@ directive readonly-args core/vm.PrecompiledContract).RequiredGas
//@ directive readonly-args core/vm.PrecompiledContract).Run
//@ directive readonly-args funcfield:BlockContext.Transfer
//@ directive readonly-args core/vm.precompileCacheKey
//@ directive readonly-args vm.PrecompileCache).load
//@ directive readonly-args vm.PrecompileCache).store

// A frame budget as produced by Forward / NewGasBudget: nothing used yet.
//@ pure func freshBudget(g GasBudget) bool { return g.UsedExecutionGas == 0 && g.UsedStateGas == 0 && g.Spilled == 0 && g.ExecutionGas <= TMAX() && g.StateGas <= TMAX() }

//@ func NewContract(caller common.Address, address common.Address, value *uint256.Int, gas GasBudget, jumpDests JumpDestCache) (c *Contract)
//@   serves C29 C31
//@   nilable value
//@   ensures isfresh(c) && c.Gas == gas && c.value == value && c.IsDeployment == false && c.IsSystemCall == false

//@ func (c *Contract) SetCallCode(hash common.Hash, code []byte)
//@   serves C29 C31
//@   ensures c.Code == code && c.CodeHash == hash
//@   modifies c.Code, c.CodeHash

// The interpreter loop: assumed to conserve the frame budget it is given (K1 and K2).
//@ func (evm *EVM) Run(contract *Contract, input []byte, readOnly bool) (ret []byte, err error)
//@   serves C29 C31
//@   trusted interpreter loop (jump-table dispatch over ~150 opcodes) is outside the verified subset; assumed to conserve K1 and K2 of the frame budget, as every opcode charges through the GasBudget methods verified under C31
//@   requires ranged(contract.Gas)
//@   modifies contract.Gas, contract.Input, evm.depth, evm.readOnly, evm.returnData
//@   mutates
//@   ensures K1(contract.Gas) == old(K1(contract.Gas)) && K2(contract.Gas) == old(K2(contract.Gas)) && ranged(contract.Gas)

//@ func (evm *EVM) initNewContract(contract *Contract, address common.Address) (ret []byte, err error)
//@   serves C29 C31
//@   trusted runs the init code through the interpreter (see Run) and charges code-deposit gas through the GasBudget methods
//@   requires ranged(contract.Gas)
//@   modifies contract.Gas, contract.Input, evm.depth, evm.readOnly, evm.returnData
//@   mutates
//@   ensures K1(contract.Gas) == old(K1(contract.Gas)) && K2(contract.Gas) == old(K2(contract.Gas)) && ranged(contract.Gas)

//@ func RunPrecompiledContract(stateDB StateDB, p PrecompiledContract, address common.Address, input []byte, gas GasBudget, logger *tracing.Hooks, rules params.Rules, cache *PrecompileCache) (ret []byte, remaining GasBudget, err error)
//@   serves C29 C31
//@   nilable logger, cache
//@   requires ranged(gas)
//@   mutates
//@   ensures K1(remaining) == K1(gas) && K2(remaining) == K2(gas) && ranged(remaining)
//@   ensures remaining.StateGas == gas.StateGas && remaining.UsedStateGas == gas.UsedStateGas && remaining.Spilled == gas.Spilled
//@   modifies *cache

//@ func (evm *EVM) createFramePreCheck(caller common.Address, value *uint256.Int) (err error)
//@   serves C29
//@   ensures err == nil ==> evm.depth <= 1024

//@ func (evm *EVM) Call(caller common.Address, addr common.Address, input []byte, gas GasBudget, value *uint256.Int) (ret []byte, result GasBudget, err error)
//@   serves C29 C31 C27
//@   requires freshBudget(gas)
//@   ghostvar hasSnap bool = false
//@   ghostvar snap int = 0
//@   ghostvar dirty bool = false
//@   ghostvar early bool = false
//@   oncall Snapshot: hasSnap = true; snap = result; dirty = false
//@   oncall RevertToSnapshot: dirty = dirty && !(hasSnap && arg1 == snap)
//@   oncall CreateAccount CreateContract SetNonce SetCode SetState SetTransientState AddBalance SubBalance SelfDestruct SelfDestruct6780 AddLog AddRefund SubRefund Touch Transfer Run RunPrecompiledContract initNewContract: dirty = true; early = early || !hasSnap
//@   ensures err != nil ==> !dirty
//@   ensures !early
//@   ensures K1(result) == K1(gas) && K2(result) == K2(gas) && ranged(result)
//@   ensures err != nil ==> result.StateGas == gas.StateGas && result.UsedStateGas == 0 && result.Spilled == 0
//@   ensures err != nil && err != ErrExecutionReverted && err != ErrDepth && err != ErrInsufficientBalance ==> result.ExecutionGas == 0
//@   modifies evm.depth, evm.readOnly, evm.returnData, *evm.AccessEvents, *evm.precompileCache
//@   mutates

//@ func (evm *EVM) CallCode(caller common.Address, addr common.Address, input []byte, gas GasBudget, value *uint256.Int) (ret []byte, result GasBudget, err error)
//@   serves C29 C31 C27
//@   requires freshBudget(gas)
//@   ghostvar hasSnap bool = false
//@   ghostvar snap int = 0
//@   ghostvar dirty bool = false
//@   ghostvar early bool = false
//@   oncall Snapshot: hasSnap = true; snap = result; dirty = false
//@   oncall RevertToSnapshot: dirty = dirty && !(hasSnap && arg1 == snap)
//@   oncall SetNonce CreateAccount CreateContract SetCode SetState SetTransientState AddBalance SubBalance SelfDestruct SelfDestruct6780 AddLog AddRefund SubRefund Touch Transfer Run RunPrecompiledContract initNewContract: dirty = true; early = early || !hasSnap
//@   ensures err != nil ==> !dirty
//@   ensures !early
//@   ensures K1(result) == K1(gas) && K2(result) == K2(gas) && ranged(result)
//@   ensures err != nil ==> result.StateGas == gas.StateGas && result.UsedStateGas == 0 && result.Spilled == 0
//@   modifies evm.depth, evm.readOnly, evm.returnData, *evm.AccessEvents, *evm.precompileCache
//@   mutates

//@ func (evm *EVM) DelegateCall(originCaller common.Address, caller common.Address, addr common.Address, input []byte, gas GasBudget, value *uint256.Int) (ret []byte, result GasBudget, err error)
//@   serves C29 C31 C27
//@   requires freshBudget(gas)
//@   ghostvar hasSnap bool = false
//@   ghostvar snap int = 0
//@   ghostvar dirty bool = false
//@   ghostvar early bool = false
//@   oncall Snapshot: hasSnap = true; snap = result; dirty = false
//@   oncall RevertToSnapshot: dirty = dirty && !(hasSnap && arg1 == snap)
//@   oncall SetNonce CreateAccount CreateContract SetCode SetState SetTransientState AddBalance SubBalance SelfDestruct SelfDestruct6780 AddLog AddRefund SubRefund Touch Transfer Run RunPrecompiledContract initNewContract: dirty = true; early = early || !hasSnap
//@   ensures err != nil ==> !dirty
//@   ensures !early
//@   ensures K1(result) == K1(gas) && K2(result) == K2(gas) && ranged(result)
//@   ensures err != nil ==> result.StateGas == gas.StateGas && result.UsedStateGas == 0 && result.Spilled == 0
//@   modifies evm.depth, evm.readOnly, evm.returnData, *evm.AccessEvents, *evm.precompileCache
//@   mutates

//@ func (evm *EVM) StaticCall(caller common.Address, addr common.Address, input []byte, gas GasBudget) (ret []byte, result GasBudget, err error)
//@   serves C29 C31 C27
//@   requires freshBudget(gas)
//@   ghostvar hasSnap bool = false
//@   ghostvar snap int = 0
//@   ghostvar dirty bool = false
//@   ghostvar early bool = false
//@   oncall Snapshot: hasSnap = true; snap = result; dirty = false
//@   oncall RevertToSnapshot: dirty = dirty && !(hasSnap && arg1 == snap)
//@   oncall SetNonce CreateAccount CreateContract SetCode SetState SetTransientState AddBalance SubBalance SelfDestruct SelfDestruct6780 AddLog AddRefund SubRefund Touch Transfer Run RunPrecompiledContract initNewContract: dirty = true; early = early || !hasSnap
//@   ensures err != nil ==> !dirty
//@   ensures !early
//@   ensures K1(result) == K1(gas) && K2(result) == K2(gas) && ranged(result)
//@   ensures err != nil ==> result.StateGas == gas.StateGas && result.UsedStateGas == 0 && result.Spilled == 0
//@   modifies evm.depth, evm.readOnly, evm.returnData, *evm.AccessEvents, *evm.precompileCache
//@   mutates

// create: the caller's nonce bump and the access-list warm-up happen before the snapshot on
// purpose (they survive a failed creation); everything after the snapshot must be rolled back
// on failure, except that pre-Homestead a code-store out-of-gas is treated as success.
//@ func (evm *EVM) create(caller common.Address, code []byte, gas GasBudget, value *uint256.Int, address common.Address, typ OpCode) (ret []byte, createAddress common.Address, result GasBudget, err error)
//@   serves C29 C31 C27
//@   requires freshBudget(gas)
//@   ghostvar hasSnap bool = false
//@   ghostvar snap int = 0
//@   ghostvar dirty bool = false
//@   ghostvar early bool = false
//@   oncall Snapshot: hasSnap = true; snap = result; dirty = false
//@   oncall RevertToSnapshot: dirty = dirty && !(hasSnap && arg1 == snap)
//@   oncall SetNonce: dirty = dirty || hasSnap
//@   oncall CreateAccount CreateContract SetCode SetState SetTransientState AddBalance SubBalance SelfDestruct SelfDestruct6780 AddLog AddRefund SubRefund Touch Transfer Run RunPrecompiledContract initNewContract: dirty = true; early = early || !hasSnap
//@   ensures err != nil && (evm.chainRules.IsHomestead || err != ErrCodeStoreOutOfGas) ==> !dirty
//@   ensures !early
//@   ensures K1(result) == K1(gas) && K2(result) == K2(gas) && ranged(result)
//@   ensures err != nil && (evm.chainRules.IsHomestead || err != ErrCodeStoreOutOfGas) ==> result.StateGas == gas.StateGas && result.UsedStateGas == 0 && result.Spilled == 0
//@   modifies evm.depth, evm.readOnly, evm.returnData, *evm.AccessEvents, *evm.precompileCache
//@   mutates

//@ func (evm *EVM) Create(caller common.Address, code []byte, gas GasBudget, value *uint256.Int) (ret []byte, contractAddr common.Address, result GasBudget, err error)
//@   serves C29 C31
//@   requires freshBudget(gas)
//@   ensures K1(result) == K1(gas) && K2(result) == K2(gas) && ranged(result)
//@   ensures err != nil && (evm.chainRules.IsHomestead || err != ErrCodeStoreOutOfGas) ==> result.StateGas == gas.StateGas && result.UsedStateGas == 0 && result.Spilled == 0
//@   modifies evm.depth, evm.readOnly, evm.returnData, *evm.AccessEvents, *evm.precompileCache
//@   mutates
