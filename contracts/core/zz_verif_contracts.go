//go:build verif

// Machine-checked contracts for package core (verification only; never built
// without the "verif" tag). Checked by /verif/bin/govc.

package core

//@ directive pure-observer (*github.com/ethereum/go-ethereum/params.ChainConfig).Is
//@ directive pure-observer core/vm.StateDB).GetRefund
//@ directive pure-observer core/vm.StateDB).GetBalance
//@ directive pure-observer core/vm.StateDB).GetNonce
//@ directive pure-observer core/vm.StateDB).Empty
//@ directive pure-observer core/vm.StateDB).Exist
//@ directive pure-observer core/vm.StateDB).GetCode
//@ directive pure-observer core/vm.StateDB).AddressInAccessList
//@ directive pure-observer (*github.com/ethereum/go-ethereum/core/tracing.Hooks).HasGasHook
//@ directive noeffect (*github.com/ethereum/go-ethereum/core/tracing.Hooks).

// ---------------------------------------------------------------------------
// C31: block gas pool (core/gaspool.go)
// ---------------------------------------------------------------------------

//@ pure func MAXGAS() int { return 9223372036854775807 }
// Amsterdam pool invariant: both cumulative dimensions stay within the block limit.
//@ pure func poolInvA(gp *GasPool) bool { return gp.cumulativeExecution <= gp.initial && gp.cumulativeState <= gp.initial && gp.initial <= MAXGAS() }

//@ func NewGasPool(amount uint64) (gp *GasPool)
//@   serves C31
//@   ensures isfresh(gp)
//@   ensures gp.remaining == amount && gp.initial == amount && gp.cumulativeUsed == 0 && gp.cumulativeExecution == 0 && gp.cumulativeState == 0

//@ func (gp *GasPool) CheckGasLegacy(amount uint64) (err error)
//@   serves C31
//@   ensures (err == nil) == (old(gp.remaining) >= amount)
//@   ensures err == nil ==> gp.remaining == old(gp.remaining) - amount
//@   ensures err != nil ==> err == ErrGasLimitReached && gp.remaining == old(gp.remaining)
//@   ensures gp.initial == old(gp.initial) && gp.cumulativeUsed == old(gp.cumulativeUsed) && gp.cumulativeExecution == old(gp.cumulativeExecution) && gp.cumulativeState == old(gp.cumulativeState)
//@   ensures old(gp.remaining) <= old(gp.initial) ==> gp.remaining <= gp.initial
//@   modifies gp.remaining
//@   nowrap

//@ func (gp *GasPool) CheckGasAmsterdam(executionReservation, stateReservation uint64) (err error)
//@   serves C31
//@   requires poolInvA(gp)
//@   ensures (err == nil) == (gp.cumulativeExecution + executionReservation <= gp.initial && gp.cumulativeState + stateReservation <= gp.initial)
//@   ensures err != nil ==> err == ErrGasLimitReached
//@   nowrap

//@ func (gp *GasPool) ChargeGasLegacy(returned uint64, gasUsed uint64) (err error)
//@   serves C31
//@   requires gp.cumulativeUsed + gasUsed <= 18446744073709551615
//@   ensures (err == nil) == (old(gp.remaining) + returned <= 18446744073709551615)
//@   ensures err == nil ==> gp.remaining == old(gp.remaining) + returned && gp.cumulativeUsed == old(gp.cumulativeUsed) + gasUsed
//@   ensures err != nil ==> gp.remaining == old(gp.remaining) && gp.cumulativeUsed == old(gp.cumulativeUsed)
//@   ensures gp.initial == old(gp.initial) && gp.cumulativeExecution == old(gp.cumulativeExecution) && gp.cumulativeState == old(gp.cumulativeState)
//@   modifies gp.remaining, gp.cumulativeUsed
//@   nowrap

//@ func (gp *GasPool) ChargeGasAmsterdam(txExecution, txState, receiptGasUsed uint64) (err error)
//@   serves C31
//@   requires poolInvA(gp) && txExecution <= MAXGAS() && txState <= MAXGAS() && gp.cumulativeUsed + receiptGasUsed <= 18446744073709551615
//@   ensures (err == nil) == (old(gp.cumulativeExecution) + txExecution <= gp.initial && old(gp.cumulativeState) + txState <= gp.initial)
//@   ensures err == nil ==> gp.cumulativeExecution == old(gp.cumulativeExecution) + txExecution && gp.cumulativeState == old(gp.cumulativeState) + txState
//@   ensures err == nil ==> gp.cumulativeUsed == old(gp.cumulativeUsed) + receiptGasUsed && gp.remaining == gp.initial - gp.cumulativeExecution
//@   ensures err != nil ==> *gp == old(*gp)
//@   ensures gp.initial == old(gp.initial) && poolInvA(gp)
//@   modifies *gp
//@   nowrap

//@ func (gp *GasPool) Used() (used uint64)
//@   serves C31
//@   requires gp.cumulativeExecution > 0 || gp.cumulativeState > 0 || gp.remaining <= gp.initial
//@   ensures (gp.cumulativeExecution > 0 || gp.cumulativeState > 0) ==> used == max(gp.cumulativeExecution, gp.cumulativeState)
//@   ensures !(gp.cumulativeExecution > 0 || gp.cumulativeState > 0) ==> used == gp.initial - gp.remaining
//@   ensures poolInvA(gp) && (gp.cumulativeExecution > 0 || gp.cumulativeState > 0) ==> used <= gp.initial
//@   nowrap

// Snapshot/Set round trip (used when a transaction is rolled back during block building):
// every counter of the pool is carried over.
//@ func (gp *GasPool) Snapshot() (snap *GasPool)
//@   serves C31
//@   ensures isfresh(snap) && *snap == *gp

//@ func (gp *GasPool) Set(other *GasPool)
//@   serves C31
//@   ensures *gp == old(*other)
//@   modifies *gp

// ---------------------------------------------------------------------------
// C31: transaction-level gas accounting (core/state_transition.go)
// ---------------------------------------------------------------------------

//@ func (st *stateTransition) calcRefund(gasUsedBeforeRefund uint64) (refund uint64)
//@   serves C31
//@   ensures refund <= gasUsedBeforeRefund / 2
//@   ensures observe(IsLondon, st.evm.chainConfig, st.evm.Context.BlockNumber) ==> refund <= gasUsedBeforeRefund / 5
//@   ensures refund <= observe(GetRefund, st.state)
//@   ensures refund == min(gasUsedBeforeRefund / ite(observe(IsLondon, st.evm.chainConfig, st.evm.Context.BlockNumber), 5, 2), observe(GetRefund, st.state))
//@   nowrap

//@ func (st *stateTransition) chargeRuntimeGas(cost vm.GasCosts) (ok bool)
//@   serves C31
//@   requires vm.ranged(st.gasRemaining)
//@   ensures ok == vm.canAfford(old(st.gasRemaining), cost)
//@   ensures !ok ==> st.gasRemaining == old(st.gasRemaining)
//@   ensures ok ==> vm.K1(st.gasRemaining) == vm.K1(old(st.gasRemaining)) && vm.K2(st.gasRemaining) == vm.K2(old(st.gasRemaining))
//@   ensures ok ==> st.gasRemaining.ExecutionGas + st.gasRemaining.StateGas + cost.ExecutionGas + cost.StateGas == old(st.gasRemaining.ExecutionGas) + old(st.gasRemaining.StateGas)
//@   ensures vm.ranged(st.gasRemaining)
//@   ensures st.gasRemaining.StateGas <= old(st.gasRemaining.StateGas) && st.gasRemaining.UsedExecutionGas >= old(st.gasRemaining.UsedExecutionGas)
//@   modifies st.gasRemaining

// initRuntimeGasBudget: the running budget is exactly what the gas limit leaves after the
// intrinsic cost; the execution dimension never exceeds the EIP-7825 cap under Amsterdam.
//@ func (st *stateTransition) initRuntimeGasBudget(rules params.Rules, intrinsicGas uint64)
//@   serves C31
//@   requires intrinsicGas <= st.msg.GasLimit
//@   requires rules.IsAmsterdam ==> intrinsicGas <= params.MaxTxGas
//@   ensures st.gasRemaining.ExecutionGas + st.gasRemaining.StateGas == st.msg.GasLimit - intrinsicGas
//@   ensures st.gasRemaining.UsedExecutionGas == 0 && st.gasRemaining.UsedStateGas == 0 && st.gasRemaining.Spilled == 0
//@   ensures vm.K1(st.gasRemaining) + vm.K2(st.gasRemaining) == st.msg.GasLimit - intrinsicGas
//@   ensures rules.IsAmsterdam ==> st.gasRemaining.ExecutionGas + intrinsicGas <= params.MaxTxGas
//@   ensures !rules.IsAmsterdam ==> st.gasRemaining.StateGas == 0
//@   modifies st.gasRemaining
//@   nowrap

// settleGas: the running budget came from initRuntimeGasBudget and was only changed by
// operations that conserve K1 and K2, so K1 + K2 + intrinsic == GasLimit; we only need "<=".
//@ func (st *stateTransition) settleGas(rules params.Rules, floorDataGas uint64) (gasUsed, peakUsed uint64, err error)
//@   serves C31 C32
//@   requires st.msg.GasPrice != nil
//@   requires vm.K1(st.gasRemaining) + vm.K2(st.gasRemaining) <= st.msg.GasLimit
//@   requires floorDataGas <= st.msg.GasLimit
//@   requires st.msg.GasLimit <= MAXGAS()
//@   requires rules.IsAmsterdam ==> poolInvA(st.gp)
//@   requires st.gp.cumulativeUsed + st.msg.GasLimit <= 18446744073709551615
//@   ensures err == nil ==> gasUsed <= st.msg.GasLimit
//@   ensures err == nil ==> peakUsed >= gasUsed && peakUsed <= st.msg.GasLimit
//@   ensures err == nil && rules.IsPrague ==> gasUsed >= floorDataGas
//@   ensures err == nil && rules.IsAmsterdam ==> poolInvA(st.gp)
//@   ensures err == nil && rules.IsAmsterdam ==> st.gp.cumulativeUsed == old(st.gp.cumulativeUsed) + gasUsed
//@   ensures err == nil && !rules.IsAmsterdam ==> st.gp.cumulativeUsed == old(st.gp.cumulativeUsed) + gasUsed && st.gp.remaining == old(st.gp.remaining) + (st.msg.GasLimit - gasUsed)
//@   mutates
//@   linear
//@   atcall AddBalance requires u256val(arg2) == ((st.msg.GasLimit - gasUsed) * old(u256val(st.msg.GasPrice))) % 115792089237316195423570985008687907853269984665640564039457584007913129639936
//@   atcall AddBalance requires st.msg.GasLimit * old(u256val(st.msg.GasPrice)) < 115792089237316195423570985008687907853269984665640564039457584007913129639936 ==> u256val(arg2) == (st.msg.GasLimit - gasUsed) * old(u256val(st.msg.GasPrice))
//@   atcall ChargeGasLegacy requires arg2 + arg3 == st.msg.GasLimit
//@   atcall ChargeGasAmsterdam requires arg4 == gasUsed && arg3 <= st.msg.GasLimit && arg2 <= st.msg.GasLimit
//@   modifies *st.gp
//@   nowrap
//@   ghostvar ncredit int = 0
//@   ghostvar nother int = 0
//@   oncall AddBalance: ncredit = ncredit + 1
//@   oncall SubBalance SetBalance Transfer: nother = nother + 1
//@   ensures ncredit <= 1 && nother == 0

// ---------------------------------------------------------------------------
// C35: intrinsic gas and calldata floor (core/state_transition.go)
// Formulas: Yellow Paper g_0, EIP-2028, EIP-2930, EIP-3860, EIP-7623, EIP-7702,
// EIP-2780/7976/7981 (Amsterdam). Constants are written out (not taken from
// package params) so that a changed constant is caught.
// ---------------------------------------------------------------------------

//@ pure func wordsSpec(n int) int { return (n + 31) / 32 }

//@ func toWordSize(size uint64) (w uint64)
//@   serves C35
//@   ensures w == wordsSpec(size)

// EIP-2780 intrinsic base: 12000 sender cost + recipient touch + value transfer.
//@ pure func base2780Spec(isCreate bool, isSelf bool, hasValue bool) int { return 12000 + ite(isSelf, 0, ite(isCreate, 12000, 3000)) + ite(!hasValue || isSelf || isCreate, 0, 6000) }

//@ func intrinsicBaseGasEIP2780(from common.Address, to *common.Address, value *uint256.Int) (gas uint64)
//@   serves C35
//@   nilable to, value
//@   ensures gas == base2780Spec(to == nil, to != nil && *to == from, value != nil && u256val(value) != 0)
//@   nowrap

//@ pure func intrinsicSpec(base int, hasAuth bool, nAuth int, authCost int, dataLen int, z int, nzGas int, initWords bool, hasAL bool, nAddr int, nKeys int, addrCost int, keyCost int, amsterdam bool) int { return base + ite(hasAuth, nAuth * authCost, 0) + ite(dataLen > 0, (dataLen - z) * nzGas + z * 4 + ite(initWords, wordsSpec(dataLen) * 2, 0), 0) + ite(hasAL, nAddr * addrCost + nKeys * keyCost + ite(amsterdam, nAddr * 1280 + nKeys * 2048, 0), 0) }

//@ pure func intrinsicOf(data []byte, accessList types.AccessList, authList []types.SetCodeAuthorization, from common.Address, to *common.Address, value *uint256.Int, rules params.Rules) int { return intrinsicSpec(ite(rules.IsAmsterdam, base2780Spec(to == nil, to != nil && *to == from, value != nil && u256val(value) != 0), ite(to == nil && rules.IsHomestead, 53000, 21000)), authList != nil, len(authList), ite(rules.IsAmsterdam, 7816, 25000), len(data), bytecount(data, 0), ite(rules.IsIstanbul, 16, 68), to == nil && rules.IsShanghai, accessList != nil, len(accessList), types.storageKeysOf(accessList), ite(rules.IsAmsterdam, 2900, 2400), ite(rules.IsAmsterdam, 2000, 1900), rules.IsAmsterdam) }

// The overflow guards are exact: an error is returned iff the mathematical value does not fit 64 bits.
//@ func IntrinsicGas(data []byte, accessList types.AccessList, authList []types.SetCodeAuthorization, from common.Address, to *common.Address, value *uint256.Int, rules params.Rules) (gas uint64, err error)
//@   serves C35
//@   nilable to, value
//@   ensures err == nil ==> gas == intrinsicOf(data, accessList, authList, from, to, value, rules)
//@   ensures (err == nil) == (intrinsicOf(data, accessList, authList, from, to, value, rules) <= 18446744073709551615)
//@   ensures err != nil ==> err == ErrGasUintOverflow && gas == 0
//@   nowrap

//@ pure func floorSpec(amsterdam bool, base int, dataLen int, z int, nAddr int, nKeys int) int { return ite(amsterdam, base + (dataLen * 4 + nAddr * 80 + nKeys * 128) * 16, 21000 + ((dataLen - z) * 4 + z) * 10) }

//@ func FloorDataGas(rules params.Rules, from common.Address, to *common.Address, value *uint256.Int, data []byte, accessList types.AccessList) (gas uint64, err error)
//@   serves C35
//@   nilable to, value
//@   ensures err == nil ==> gas == floorSpec(rules.IsAmsterdam, base2780Spec(to == nil, to != nil && *to == from, value != nil && u256val(value) != 0), len(data), bytecount(data, 0), len(accessList), types.storageKeysOf(accessList))
//@   ensures (err == nil) == (floorSpec(rules.IsAmsterdam, base2780Spec(to == nil, to != nil && *to == from, value != nil && u256val(value) != 0), len(data), bytecount(data, 0), len(accessList), types.storageKeysOf(accessList)) <= 18446744073709551615)
//@   ensures err != nil ==> err == ErrGasUintOverflow && gas == 0
//@   nowrap

// ---------------------------------------------------------------------------
// C32: fee arithmetic at the balance-changing call sites (core/state_transition.go)
// ---------------------------------------------------------------------------

//@ func (st *stateTransition) blobGasUsed() (g uint64)
//@   serves C32
//@   ensures g == len(st.msg.BlobHashes) * 131072
//@   nowrap

// What buyGas debits: gas limit x gas price, plus blob gas x blob base fee under Cancun.
//@ pure func blobGasOf(st *stateTransition) int { return len(st.msg.BlobHashes) * 131072 }

// buyGas: on success exactly one debit is made, of exactly the prepaid fee, and only after
// the balance was checked against the worst-case fee; nothing wraps in 256 bits.
//@ func (st *stateTransition) buyGas() (err error)
//@   serves C32
//@   requires st.msg.GasPrice != nil
//@   requires bigval(st.evm.Context.BlobBaseFee) >= 0
//@   mutates
//@   linear
//@   atcall SubBalance requires u256val(arg2) == st.msg.GasLimit * old(u256val(st.msg.GasPrice)) + ite(observe(IsCancun, st.evm.chainConfig, st.evm.Context.BlockNumber, st.evm.Context.Time) && blobGasOf(st) > 0, blobGasOf(st) * bigval(st.evm.Context.BlobBaseFee), 0)
//@   atcall SubBalance requires u256val(have) >= st.msg.GasLimit * ite(st.msg.GasFeeCap != nil, old(u256val(st.msg.GasFeeCap)), old(u256val(st.msg.GasPrice))) + ite(st.msg.Value != nil, old(u256val(st.msg.Value)), 0) + ite(observe(IsCancun, st.evm.chainConfig, st.evm.Context.BlockNumber, st.evm.Context.Time) && blobGasOf(st) > 0, blobGasOf(st) * old(u256val(st.msg.BlobGasFeeCap)), 0)
//@   atcall SubBalance requires u256val(arg2) < 115792089237316195423570985008687907853269984665640564039457584007913129639936
//@   ghostvar ndebit int = 0
//@   ghostvar nother int = 0
//@   oncall SubBalance: ndebit = ndebit + 1
//@   oncall AddBalance SetBalance Transfer: nother = nother + 1
//@   ensures nother == 0 && ndebit <= 1 && (err == nil ==> ndebit == 1)

// ---------------------------------------------------------------------------
// C31/C32: the transaction driver (core/state_transition.go: execute)
// ---------------------------------------------------------------------------

//@ directive pure-observer (*github.com/ethereum/go-ethereum/params.ChainConfig).Rules
//@ directive pure-observer core/vm.StateDB).Exist
//@ directive pure-observer funcfield:BlockContext.CanTransfer
//@ directive readonly-args core/vm.StateDB).Prepare
//@ directive readonly-args core/vm.StateDB).SetCode
//@ directive noeffect types.SetCodeAuthorization).Authority
//@ directive noeffect stateTransition).traceHaltedTopFrame
//@ directive pure-observer core/vm.StateDB).GetNonce

// preCheck: a message is admitted only at exactly the sender's state nonce (which must not be the
// last one), within the per-transaction gas cap where one applies, with a fee cap that covers
// both the tip and the base fee, and only if the block gas pool and the sender's balance
// cover it; it changes nothing but the pool's reservation.
//@ directive pure-observer core/vm.StateDB).GetCode
//@ directive noeffect core/types.ParseDelegation
//@ directive noeffect crypto/kzg4844.IsValidVersionedHash
//@ directive noeffect core/vm.CheckMaxInitCodeSize
//@ func (st *stateTransition) preCheck(rules params.Rules) (err error)
//@   serves C31 C32
//@   requires st.msg.GasPrice != nil && bigval(st.evm.Context.BlobBaseFee) >= 0 && poolInvA(st.gp)
//@   requires rules.IsLondon ==> st.msg.GasFeeCap != nil && st.msg.GasTipCap != nil && st.evm.Context.BaseFee != nil
//@   requires rules.IsCancun && len(st.msg.BlobHashes) > 0 ==> st.msg.BlobGasFeeCap != nil && st.evm.Context.BlobBaseFee != nil
//@   modifies st.gp.remaining
//@   mutates
//@   ensures err == nil && !st.msg.SkipNonceChecks ==> old(observe(GetNonce, st.state, st.msg.From)) == st.msg.Nonce && st.msg.Nonce < 18446744073709551615
//@   ensures err == nil && !st.msg.SkipTransactionChecks && rules.IsOsaka && !rules.IsAmsterdam ==> st.msg.GasLimit <= 16777216
//@   ensures err == nil && rules.IsLondon && !(st.evm.Config.NoBaseFee && u256val(st.msg.GasFeeCap) == 0 && u256val(st.msg.GasTipCap) == 0) ==> u256val(st.msg.GasFeeCap) >= u256val(st.msg.GasTipCap) && u256val(st.msg.GasFeeCap) >= bigval(st.evm.Context.BaseFee)
//@   ensures err == nil && st.msg.BlobHashes != nil ==> st.msg.To != nil && len(st.msg.BlobHashes) > 0 && (rules.IsOsaka ==> len(st.msg.BlobHashes) <= 6)
//@   ensures err == nil && !rules.IsAmsterdam ==> old(st.gp.remaining) >= st.msg.GasLimit && st.gp.remaining == old(st.gp.remaining) - st.msg.GasLimit
//@   ensures err == nil && rules.IsAmsterdam ==> st.gp.remaining == old(st.gp.remaining)
//@   loop 1 "range msg.BlobHashes"
//@     invariant st.gp.remaining == old(st.gp.remaining)
//@     invariant 0 - 1 <= rangeindex && rangeindex <= len(st.msg.BlobHashes) - 1

// A frame budget at transaction level: ranged, with 2^40 of head-room in the reservoir for the
// account-creation refill (AccountCreationSize x CostPerStateByte with CostPerStateByte <= 2^32).
//@ pure func txBudget(st *stateTransition) bool { return vm.ranged(st.gasRemaining) && st.gasRemaining.StateGas + 1099511627776 <= vm.TMAX() && st.evm.Context.CostPerStateByte <= 4294967296 }

//@ func (st *stateTransition) validateAuthorization(auth *types.SetCodeAuthorization) (authority common.Address, err error)
//@   serves C31
//@   mutates
//@   ensures err == nil ==> auth.Nonce + 1 <= 18446744073709551615

//@ func (st *stateTransition) applyAuthorization(rules params.Rules, auth *types.SetCodeAuthorization, authorities map[common.Address]*authTracking) (err error)
//@   serves C31
//@   requires txBudget(st)
//@   modifies st.gasRemaining, authorities[..], typeof authTracking
//@   mutates
//@   ensures vm.K1(st.gasRemaining) == old(vm.K1(st.gasRemaining)) && vm.K2(st.gasRemaining) == old(vm.K2(st.gasRemaining)) && vm.ranged(st.gasRemaining)
//@   ensures st.gasRemaining.StateGas <= old(st.gasRemaining.StateGas)
//@   ensures err == ErrOutOfGasRuntime ==> st.gasRemaining == old(st.gasRemaining)

//@ func (st *stateTransition) applyAuthorizations(rules params.Rules, auths []types.SetCodeAuthorization) (ok bool)
//@   serves C31
//@   requires txBudget(st)
//@   modifies st.gasRemaining, typeof authTracking
//@   mutates
//@   ensures vm.K1(st.gasRemaining) == old(vm.K1(st.gasRemaining)) && vm.K2(st.gasRemaining) == old(vm.K2(st.gasRemaining)) && vm.ranged(st.gasRemaining)
//@   ensures st.gasRemaining.StateGas <= old(st.gasRemaining.StateGas)
//@   loop 1 "range auths"
//@     invariant 0 - 1 <= rangeindex && rangeindex <= len(auths) - 1
//@     invariant vm.K1(st.gasRemaining) == old(vm.K1(st.gasRemaining)) && vm.K2(st.gasRemaining) == old(vm.K2(st.gasRemaining)) && vm.ranged(st.gasRemaining)
//@     invariant st.gasRemaining.StateGas <= old(st.gasRemaining.StateGas)
//@     invariant st.evm == old(st.evm) && st.evm.Context.CostPerStateByte == old(st.evm.Context.CostPerStateByte)

//@ func (st *stateTransition) chargeCallRecipientEIP2780(value *uint256.Int) (ok bool)
//@   serves C31
//@   requires txBudget(st)
//@   modifies st.gasRemaining
//@   mutates
//@   ensures vm.K1(st.gasRemaining) == old(vm.K1(st.gasRemaining)) && vm.K2(st.gasRemaining) == old(vm.K2(st.gasRemaining)) && vm.ranged(st.gasRemaining)
//@   ensures st.gasRemaining.StateGas <= old(st.gasRemaining.StateGas)

// executeCall / executeCreate: the top-level frame. Whatever the frame does, the running budget
// keeps K1 and K2 (so execution + state gas handed out == consumed + spilled + left).
//@ func (st *stateTransition) executeCall(rules params.Rules, value *uint256.Int) (ret []byte, vmerr error)
//@   serves C31
//@   requires txBudget(st) && st.gasRemaining.UsedExecutionGas == 0 && st.gasRemaining.Spilled == 0 && st.gasRemaining.UsedStateGas == 0
//@   requires st.evm.chainRules.IsHomestead
//@   modifies st.gasRemaining, st.evm.depth, st.evm.readOnly, st.evm.returnData, *st.evm.AccessEvents, *st.evm.precompileCache, typeof authTracking
//@   mutates
//@   ensures vm.K1(st.gasRemaining) == old(vm.K1(st.gasRemaining)) && vm.K2(st.gasRemaining) == old(vm.K2(st.gasRemaining))

//@ func (st *stateTransition) executeCreate(rules params.Rules, value *uint256.Int) (ret []byte, vmerr error)
//@   serves C31
//@   requires txBudget(st) && st.gasRemaining.UsedExecutionGas == 0 && st.gasRemaining.Spilled == 0 && st.gasRemaining.UsedStateGas == 0
//@   requires st.evm.chainRules.IsHomestead
//@   modifies st.gasRemaining, st.evm.depth, st.evm.readOnly, st.evm.returnData, *st.evm.AccessEvents, *st.evm.precompileCache, typeof authTracking
//@   mutates
//@   ensures vm.K1(st.gasRemaining) == old(vm.K1(st.gasRemaining)) && vm.K2(st.gasRemaining) == old(vm.K2(st.gasRemaining))

// execute: a transaction never uses more gas than its limit, the peak is at least the final
// usage, and the fee recipient is credited exactly gas used x effective tip.
//@ func (st *stateTransition) execute() (res *ExecutionResult, err error)
//@   serves C31 C32
//@   requires st.msg.GasPrice != nil && st.msg.GasLimit + 1099511627776 <= vm.TMAX() && st.evm.Context.CostPerStateByte <= 4294967296
//@   requires st.evm.chainRules.IsHomestead
//@   requires poolInvA(st.gp) && st.gp.cumulativeUsed + st.msg.GasLimit <= 18446744073709551615
//@   requires bigval(st.evm.Context.BaseFee) >= 0 && bigval(st.evm.Context.BaseFee) <= u256val(st.msg.GasPrice)
//@   requires st.msg.GasLimit * u256val(st.msg.GasPrice) < 115792089237316195423570985008687907853269984665640564039457584007913129639936
//@   requires st.msg.GasFeeCap != nil && st.msg.GasTipCap != nil && bigval(st.evm.Context.BlobBaseFee) >= 0
//@   requires observe(Rules, st.evm.chainConfig, st.evm.Context.BlockNumber, st.evm.Context.Random != nil, st.evm.Context.Time).IsLondon ==> st.evm.Context.BaseFee != nil
//@   requires len(st.msg.BlobHashes) > 0 ==> st.msg.BlobGasFeeCap != nil && st.evm.Context.BlobBaseFee != nil
//@   ensures err == nil ==> res != nil && res.UsedGas <= st.msg.GasLimit && res.MaxUsedGas >= res.UsedGas && res.MaxUsedGas <= st.msg.GasLimit
//@   atcall AddBalance requires old(observe(Rules, st.evm.chainConfig, st.evm.Context.BlockNumber, st.evm.Context.Random != nil, st.evm.Context.Time).IsLondon) ==> u256val(arg2) == gasUsed * (old(u256val(st.msg.GasPrice)) - old(bigval(st.evm.Context.BaseFee)))
//@   atcall AddBalance requires !old(observe(Rules, st.evm.chainConfig, st.evm.Context.BlockNumber, st.evm.Context.Random != nil, st.evm.Context.Time).IsLondon) ==> u256val(arg2) == gasUsed * old(u256val(st.msg.GasPrice))
//@   modifies st.gasRemaining, *st.gp, *st.evm.AccessEvents, st.evm.depth, st.evm.readOnly, st.evm.returnData, *st.evm.precompileCache, typeof authTracking
//@   mutates
//@   linear
//@   ghostvar ntip int = 0
//@   ghostvar nother int = 0
//@   oncall AddBalance: ntip = ntip + 1
//@   oncall SubBalance SetBalance: nother = nother + 1
//@   ensures ntip <= 1 && nother == 0

//@ func (r *ExecutionResult) Failed() (f bool)
//@   serves C37
//@   ensures f == (r.Err != nil)

// C32: a transfer debits the sender and credits the recipient with one and the same amount,
// in that order, and nothing else; CanTransfer is exactly "balance covers the amount".
//@ directive pure-observer core/vm.StateDB).GetBalance
//@ directive readonly-args core/vm.StateDB).SubBalance
//@ directive readonly-args core/vm.StateDB).AddBalance
//@ directive readonly-args core/types.EthTransferLog
//@ directive readonly-args core/vm.StateDB).AddLog
//@ func Transfer(db vm.StateDB, sender, recipient common.Address, amount *uint256.Int, rules *params.Rules)
//@   serves C32
//@   requires amount != nil && rules != nil
//@   mutates
//@   ghostvar debited int = 0
//@   ghostvar credited int = 0
//@   ghostvar ndebit int = 0
//@   ghostvar ncredit int = 0
//@   oncall SubBalance: debited = debited + u256val(arg2); ndebit = ndebit + 1
//@   oncall AddBalance: credited = credited + u256val(arg2); ncredit = ncredit + 1
//@   ensures debited == old(u256val(amount)) && credited == old(u256val(amount)) && ndebit == 1 && ncredit == 1
//@   atcall SubBalance requires arg1 == sender
//@   atcall AddBalance requires arg1 == recipient
//@   atcall AddBalance requires ndebit == 1

//@ func CanTransfer(db vm.StateDB, addr common.Address, amount *uint256.Int) (ok bool)
//@   serves C32
//@   requires amount != nil
//@   ensures ok == (u256val(observe(GetBalance, db, addr)) >= u256val(amount))
