//go:build verif

// Machine-checked contracts for package core (verification only; never built
// without the "verif" tag). Checked by /verif/bin/govc.

package core

//@ directive pure-observer (*github.com/ethereum/go-ethereum/params.ChainConfig).Is
//@ directive pure-observer core/vm.StateDB).GetRefund
//@ directive pure-observer core/vm.StateDB).GetBalance
//@ directive pure-observer core/vm.StateDB).GetNonce
//@ directive pure-observer core/vm.StateDB).Empty
//@ directive pure-observer core/vm.StateDB).Exist
//@ directive pure-observer core/vm.StateDB).GetCode
//@ directive pure-observer core/vm.StateDB).AddressInAccessList
//@ directive pure-observer (*github.com/ethereum/go-ethereum/core/tracing.Hooks).HasGasHook
//@ directive noeffect (*github.com/ethereum/go-ethereum/core/tracing.Hooks).

// ---------------------------------------------------------------------------
// C31: block gas pool (core/gaspool.go)
// ---------------------------------------------------------------------------

//@ pure func MAXGAS() int { return 9223372036854775807 }
// Amsterdam pool invariant: both cumulative dimensions stay within the block limit.
//@ pure func poolInvA(gp *GasPool) bool { return gp.cumulativeExecution <= gp.initial && gp.cumulativeState <= gp.initial && gp.initial <= MAXGAS() }

//@ func NewGasPool(amount uint64) (gp *GasPool)
//@   serves C31
//@   ensures isfresh(gp)
//@   ensures gp.remaining == amount && gp.initial == amount && gp.cumulativeUsed == 0 && gp.cumulativeExecution == 0 && gp.cumulativeState == 0

//@ func (gp *GasPool) CheckGasLegacy(amount uint64) (err error)
//@   serves C31
//@   ensures (err == nil) == (old(gp.remaining) >= amount)
//@   ensures err == nil ==> gp.remaining == old(gp.remaining) - amount
//@   ensures err != nil ==> err == ErrGasLimitReached && gp.remaining == old(gp.remaining)
//@   ensures gp.initial == old(gp.initial) && gp.cumulativeUsed == old(gp.cumulativeUsed) && gp.cumulativeExecution == old(gp.cumulativeExecution) && gp.cumulativeState == old(gp.cumulativeState)
//@   ensures old(gp.remaining) <= old(gp.initial) ==> gp.remaining <= gp.initial
//@   modifies gp.remaining
//@   nowrap

//@ func (gp *GasPool) CheckGasAmsterdam(executionReservation, stateReservation uint64) (err error)
//@   serves C31
//@   requires poolInvA(gp)
//@   ensures (err == nil) == (gp.cumulativeExecution + executionReservation <= gp.initial && gp.cumulativeState + stateReservation <= gp.initial)
//@   ensures err != nil ==> err == ErrGasLimitReached
//@   nowrap

//@ func (gp *GasPool) ChargeGasLegacy(returned uint64, gasUsed uint64) (err error)
//@   serves C31
//@   requires gp.cumulativeUsed + gasUsed <= 18446744073709551615
//@   ensures (err == nil) == (old(gp.remaining) + returned <= 18446744073709551615)
//@   ensures err == nil ==> gp.remaining == old(gp.remaining) + returned && gp.cumulativeUsed == old(gp.cumulativeUsed) + gasUsed
//@   ensures err != nil ==> gp.remaining == old(gp.remaining) && gp.cumulativeUsed == old(gp.cumulativeUsed)
//@   ensures gp.initial == old(gp.initial) && gp.cumulativeExecution == old(gp.cumulativeExecution) && gp.cumulativeState == old(gp.cumulativeState)
//@   modifies gp.remaining, gp.cumulativeUsed
//@   nowrap

//@ func (gp *GasPool) ChargeGasAmsterdam(txExecution, txState, receiptGasUsed uint64) (err error)
//@   serves C31
//@   requires poolInvA(gp) && txExecution <= MAXGAS() && txState <= MAXGAS() && gp.cumulativeUsed + receiptGasUsed <= 18446744073709551615
//@   ensures (err == nil) == (old(gp.cumulativeExecution) + txExecution <= gp.initial && old(gp.cumulativeState) + txState <= gp.initial)
//@   ensures err == nil ==> gp.cumulativeExecution == old(gp.cumulativeExecution) + txExecution && gp.cumulativeState == old(gp.cumulativeState) + txState
//@   ensures err == nil ==> gp.cumulativeUsed == old(gp.cumulativeUsed) + receiptGasUsed && gp.remaining == gp.initial - gp.cumulativeExecution
//@   ensures err != nil ==> *gp == old(*gp)
//@   ensures gp.initial == old(gp.initial) && poolInvA(gp)
//@   modifies *gp
//@   nowrap

//@ func (gp *GasPool) Used() (used uint64)
//@   serves C31
//@   requires gp.cumulativeExecution > 0 || gp.cumulativeState > 0 || gp.remaining <= gp.initial
//@   ensures (gp.cumulativeExecution > 0 || gp.cumulativeState > 0) ==> used == max(gp.cumulativeExecution, gp.cumulativeState)
//@   ensures !(gp.cumulativeExecution > 0 || gp.cumulativeState > 0) ==> used == gp.initial - gp.remaining
//@   ensures poolInvA(gp) && (gp.cumulativeExecution > 0 || gp.cumulativeState > 0) ==> used <= gp.initial
//@   nowrap

//@ func (gp *GasPool) Set(other *GasPool)
//@   serves C31
//@   ensures *gp == old(*other)
//@   modifies *gp

// ---------------------------------------------------------------------------
// C31: transaction-level gas accounting (core/state_transition.go)
// ---------------------------------------------------------------------------

//@ func (st *stateTransition) calcRefund(gasUsedBeforeRefund uint64) (refund uint64)
//@   serves C31
//@   ensures refund <= gasUsedBeforeRefund / 2
//@   ensures observe(IsLondon, st.evm.chainConfig, st.evm.Context.BlockNumber) ==> refund <= gasUsedBeforeRefund / 5
//@   ensures refund <= observe(GetRefund, st.state)
//@   ensures refund == min(gasUsedBeforeRefund / ite(observe(IsLondon, st.evm.chainConfig, st.evm.Context.BlockNumber), 5, 2), observe(GetRefund, st.state))
//@   nowrap

//@ func (st *stateTransition) chargeRuntimeGas(cost vm.GasCosts) (ok bool)
//@   serves C31
//@   requires vm.ranged(st.gasRemaining)
//@   ensures ok == vm.canAfford(old(st.gasRemaining), cost)
//@   ensures !ok ==> st.gasRemaining == old(st.gasRemaining)
//@   ensures ok ==> vm.K1(st.gasRemaining) == vm.K1(old(st.gasRemaining)) && vm.K2(st.gasRemaining) == vm.K2(old(st.gasRemaining))
//@   ensures ok ==> st.gasRemaining.ExecutionGas + st.gasRemaining.StateGas + cost.ExecutionGas + cost.StateGas == old(st.gasRemaining.ExecutionGas) + old(st.gasRemaining.StateGas)
//@   ensures vm.ranged(st.gasRemaining)
//@   modifies st.gasRemaining

// initRuntimeGasBudget: the running budget is exactly what the gas limit leaves after the
// intrinsic cost; the execution dimension never exceeds the EIP-7825 cap under Amsterdam.
//@ func (st *stateTransition) initRuntimeGasBudget(rules params.Rules, intrinsicGas uint64)
//@   serves C31
//@   requires intrinsicGas <= st.msg.GasLimit
//@   requires rules.IsAmsterdam ==> intrinsicGas <= params.MaxTxGas
//@   ensures st.gasRemaining.ExecutionGas + st.gasRemaining.StateGas == st.msg.GasLimit - intrinsicGas
//@   ensures st.gasRemaining.UsedExecutionGas == 0 && st.gasRemaining.UsedStateGas == 0 && st.gasRemaining.Spilled == 0
//@   ensures vm.K1(st.gasRemaining) + vm.K2(st.gasRemaining) == st.msg.GasLimit - intrinsicGas
//@   ensures rules.IsAmsterdam ==> st.gasRemaining.ExecutionGas + intrinsicGas <= params.MaxTxGas
//@   ensures !rules.IsAmsterdam ==> st.gasRemaining.StateGas == 0
//@   modifies st.gasRemaining
//@   nowrap

// settleGas: the running budget came from initRuntimeGasBudget and was only changed by
// operations that conserve K1 and K2, so K1 + K2 + intrinsic == GasLimit; we only need "<=".
//@ func (st *stateTransition) settleGas(rules params.Rules, floorDataGas uint64) (gasUsed, peakUsed uint64, err error)
//@   serves C31
//@   requires vm.K1(st.gasRemaining) + vm.K2(st.gasRemaining) <= st.msg.GasLimit
//@   requires floorDataGas <= st.msg.GasLimit
//@   requires st.msg.GasLimit <= MAXGAS()
//@   requires rules.IsAmsterdam ==> poolInvA(st.gp)
//@   requires st.gp.cumulativeUsed + st.msg.GasLimit <= 18446744073709551615
//@   ensures err == nil ==> gasUsed <= st.msg.GasLimit
//@   ensures err == nil ==> peakUsed >= gasUsed && peakUsed <= st.msg.GasLimit
//@   ensures err == nil && rules.IsPrague ==> gasUsed >= floorDataGas
//@   ensures err == nil && rules.IsAmsterdam ==> poolInvA(st.gp)
//@   ensures err == nil && rules.IsAmsterdam ==> st.gp.cumulativeUsed == old(st.gp.cumulativeUsed) + gasUsed
//@   ensures err == nil && !rules.IsAmsterdam ==> st.gp.cumulativeUsed == old(st.gp.cumulativeUsed) + gasUsed && st.gp.remaining == old(st.gp.remaining) + (st.msg.GasLimit - gasUsed)
//@   mutates
//@   atcall ChargeGasLegacy#1 requires arg2 + arg3 == st.msg.GasLimit
//@   atcall ChargeGasAmsterdam#1 requires arg4 == gasUsed && arg3 <= st.msg.GasLimit && arg2 <= st.msg.GasLimit
//@   modifies *st.gp
//@   nowrap
