//go:build verif

// Machine-checked contracts for package state (verification only).

package state

// C13 (snapshot / revert discipline of the journal). The journal entries themselves (what each
// kind of change undoes) are interface values and are not modelled: their revert and mutation
// methods are assumed not to touch the journal.
//@ directive readonly-args journalEntry).revert
//@ directive noeffect journalEntry).mutation

// Revision stack: ids strictly increasing and already issued; recorded journal lengths
// non-decreasing and not beyond the current journal.
//@ pure func revRange(j *journal) bool { return forall k int :: {j.validRevisions[k].id} 0 <= k && k < len(j.validRevisions) ==> 0 <= j.validRevisions[k].id && j.validRevisions[k].id < j.nextRevisionId && 0 <= j.validRevisions[k].journalIndex && j.validRevisions[k].journalIndex <= len(j.entries) }
//@ pure func revOrder(j *journal) bool { return forall a int, b int :: {j.validRevisions[a].id, j.validRevisions[b].id} 0 <= a && a < b && b < len(j.validRevisions) ==> j.validRevisions[a].id < j.validRevisions[b].id && j.validRevisions[a].journalIndex <= j.validRevisions[b].journalIndex }
//@ pure func revInv(j *journal) bool { return 0 <= j.nextRevisionId && revRange(j) && revOrder(j) }

//@ func (j *journal) length() (n int)
//@   serves C13
//@   ensures n == len(j.entries)

// snapshot issues a fresh id and records the current journal length under it.
//@ func (j *journal) snapshot() (id int)
//@   serves C13
//@   requires revInv(j) && j.nextRevisionId < 4611686018427387904
//@   modifies j.nextRevisionId, j.validRevisions, j.validRevisions[..]
//@   ensures id == old(j.nextRevisionId) && j.nextRevisionId == id + 1
//@   ensures revRange(j)
//@   ensures revOrder(j)
//@   ensures len(j.validRevisions) == old(len(j.validRevisions)) + 1 && j.validRevisions[len(j.validRevisions) - 1].id == id && j.validRevisions[len(j.validRevisions) - 1].journalIndex == len(j.entries)
//@   ensures forall k int :: 0 <= k && k < old(len(j.validRevisions)) ==> j.validRevisions[k].id == old(j.validRevisions[k].id) && j.validRevisions[k].journalIndex == old(j.validRevisions[k].journalIndex)

// revert undoes the entries above `snapshot`, newest first, and cuts the journal there.
//@ func (j *journal) revert(statedb *StateDB, snapshot int)
//@   serves C13
//@   maypanic
//@   requires 0 <= snapshot && snapshot <= len(j.entries) && j.mutations != nil
//@   modifies j.entries, j.mutations[..], typeof journalMutationState, typeof []int
//@   mutates
//@   ghostvar undone int = 0
//@   oncall revert: undone = undone + 1
//@   ensures len(j.entries) == snapshot
//@   ensures forall k int :: 0 <= k && k < snapshot ==> j.entries[k] == old(j.entries[k])
//@   ensures undone == old(len(j.entries)) - snapshot
//@   loop 1 "i >= snapshot"
//@     invariant snapshot - 1 <= i && i <= len(j.entries) - 1
//@     invariant undone == len(j.entries) - 1 - i
//@     invariant j.entries == old(j.entries) && j.mutations == old(j.mutations)
//@     invariant forall k int :: 0 <= k && k < len(j.entries) ==> j.entries[k] == old(j.entries[k])

// revertToSnapshot cuts the journal back to the length recorded under revid and forgets that
// revision and every later one; earlier revisions are untouched. An id that is not on the
// stack (never issued, or already reverted past) panics, as documented.
//@ func (j *journal) revertToSnapshot(revid int, s *StateDB)
//@   serves C13
//@   maypanic
//@   requires revInv(j) && j.mutations != nil
//@   modifies j.entries, j.validRevisions, j.mutations[..], typeof journalMutationState, typeof []int
//@   mutates
//@   ensures revInv(j) && len(j.validRevisions) < old(len(j.validRevisions))
//@   ensures exists k int :: k == len(j.validRevisions) && old(j.validRevisions[k].id) == revid && len(j.entries) == old(j.validRevisions[k].journalIndex)
//@   ensures forall k int :: 0 <= k && k < len(j.validRevisions) ==> j.validRevisions[k].id == old(j.validRevisions[k].id) && j.validRevisions[k].id < revid

// ---- What each mutator records and what each journal entry undoes (C13).
// Recording side: the setter journals the value before the write, under the object's own
// address, and only then writes (ghost flag `logged`).  Undo side: the entry looks up the account
// it was recorded for and writes back the value it carries.  What is not covered: that the journal
// methods box exactly their arguments into the entry (interface values), and the map-backed
// stores behind getStateObject / transientStorage / accessList.  `ownwrites`: these functions
// delegate their writes; apart from the listed `modifies` items they may not store anything
// themselves (what the callees write is the callees' business).

//@ func (s *stateObject) SetBalance(amount *uint256.Int) (prev uint256.Int)
//@   serves C13
//@   requires s.db != nil && s.db.journal != nil && s.data.Balance != nil
//@   mutates
//@   ownwrites
//@   ghostvar logged bool = false
//@   oncall balanceChange: logged = true
//@   atcall balanceChange requires arg1 == s.db.journal && arg2 == s.address && arg3 == old(s.data.Balance)
//@   atcall setBalance requires logged && arg1 == s && arg2 == amount

//@ func (s *stateObject) setBalance(amount *uint256.Int)
//@   serves C13
//@   modifies s.data.Balance
//@   ensures s.data.Balance == amount

//@ func (s *stateObject) SetNonce(nonce uint64)
//@   serves C13
//@   requires s.db != nil && s.db.journal != nil
//@   mutates
//@   ownwrites
//@   ghostvar logged bool = false
//@   oncall nonceChange: logged = true
//@   atcall nonceChange requires arg1 == s.db.journal && arg2 == s.address && arg3 == old(s.data.Nonce)
//@   atcall setNonce requires logged && arg1 == s && arg2 == nonce

//@ func (s *stateObject) setNonce(nonce uint64)
//@   serves C13
//@   modifies s.data.Nonce
//@   ensures s.data.Nonce == nonce

//@ func (s *stateObject) SetState(key, value common.Hash) (prev common.Hash)
//@   serves C13
//@   requires s.db != nil && s.db.journal != nil && s.dirtyStorage != nil
//@   atcall setState assume s.dirtyStorage != nil
//@   mutates
//@   ownwrites
//@   ghostvar logged bool = false
//@   oncall storageChange: logged = true
//@   atcall storageChange requires arg1 == s.db.journal && arg2 == s.address && arg3 == key
//@   atcall setState requires logged && arg1 == s && arg2 == key && arg3 == value

//@ func (s *stateObject) SetCode(codeHash common.Hash, code []byte) (prev []byte)
//@   serves C13
//@   requires s.db != nil && s.db.journal != nil
//@   mutates
//@   ownwrites
//@   ghostvar logged bool = false
//@   oncall setCode: logged = true
//@   atcall setCode#1 requires arg1 == s.db.journal && arg2 == s.address
//@   atcall setCode#2 requires logged && arg1 == s && arg2 == codeHash

//@ func (s *StateDB) AddRefund(gas uint64)
//@   serves C13
//@   requires s.journal != nil
//@   mutates
//@   ownwrites
//@   modifies s.refund
//@   atcall refundChange requires arg1 == s.journal && arg2 == old(s.refund)
//@   ensures old(s.refund) + gas < 18446744073709551616 ==> s.refund == old(s.refund) + gas

//@ func (s *StateDB) SubRefund(gas uint64)
//@   serves C13
//@   requires s.journal != nil
//@   maypanic
//@   mutates
//@   ownwrites
//@   modifies s.refund
//@   atcall refundChange requires arg1 == s.journal && arg2 == old(s.refund)
//@   ensures s.refund == old(s.refund) - gas && gas <= old(s.refund)

//@ func (s *StateDB) SetTransientState(addr common.Address, key, value common.Hash)
//@   serves C13
//@   requires s.journal != nil
//@   mutates
//@   ownwrites
//@   ghostvar logged bool = false
//@   oncall transientStateChange: logged = true
//@   atcall transientStateChange requires arg1 == s.journal && arg2 == addr && arg3 == key
//@   atcall setTransientState requires logged && arg1 == s && arg2 == addr && arg3 == key && arg4 == value

//@ func (s *StateDB) AddAddressToAccessList(addr common.Address)
//@   serves C13
//@   requires s.journal != nil && s.accessList != nil
//@   mutates
//@   ownwrites
//@   ghostvar added bool = false
//@   ghostvar logged bool = false
//@   oncall AddAddress: added = result
//@   oncall accessListAddAccount: logged = true
//@   atcall AddAddress requires arg1 == s.accessList && arg2 == addr
//@   atcall accessListAddAccount requires arg1 == s.journal && arg2 == addr
//@   ensures logged == added

//@ func (s *StateDB) AddSlotToAccessList(addr common.Address, slot common.Hash)
//@   serves C13
//@   requires s.journal != nil && s.accessList != nil
//@   mutates
//@   ownwrites
//@   ghostvar addrMod bool = false
//@   ghostvar slotMod bool = false
//@   ghostvar loggedA bool = false
//@   ghostvar loggedS bool = false
//@   oncall AddSlot: addrMod = result0; slotMod = result1
//@   oncall accessListAddAccount: loggedA = true
//@   oncall accessListAddSlot: loggedS = true
//@   atcall AddSlot requires arg1 == s.accessList && arg2 == addr && arg3 == slot
//@   atcall accessListAddAccount requires arg2 == addr
//@   atcall accessListAddSlot requires arg2 == addr && arg3 == slot
//@   ensures loggedA == addrMod && loggedS == slotMod

// Undo side.
//@ func (ch balanceChange) revert(s *StateDB)
//@   serves C13
//@   mutates
//@   ownwrites
//@   atcall getStateObject requires arg1 == s && arg2 == ch.account
//@   atcall setBalance requires arg2 == ch.prev

//@ func (ch nonceChange) revert(s *StateDB)
//@   serves C13
//@   mutates
//@   ownwrites
//@   atcall getStateObject requires arg1 == s && arg2 == ch.account
//@   atcall setNonce requires arg2 == ch.prev

//@ func (ch storageChange) revert(s *StateDB)
//@   serves C13
//@   mutates
//@   ownwrites
//@   atcall setState assume arg1 != nil && arg1.dirtyStorage != nil
//@   atcall getStateObject requires arg1 == s && arg2 == ch.account
//@   atcall setState requires arg2 == ch.key
//@   atcall setState requires arg3 == ch.prevvalue
//@   atcall setState requires arg4 == ch.origvalue

//@ func (ch codeChange) revert(s *StateDB)
//@   serves C13
//@   mutates
//@   ownwrites
//@   atcall getStateObject requires arg1 == s && arg2 == ch.account

//@ func (ch transientStorageChange) revert(s *StateDB)
//@   serves C13
//@   mutates
//@   ownwrites
//@   atcall setTransientState requires arg1 == s && arg2 == ch.account && arg3 == ch.key && arg4 == ch.prevalue

//@ func (ch refundChange) revert(s *StateDB)
//@   serves C13
//@   modifies s.refund
//@   ensures s.refund == ch.prev

//@ func (ch selfDestructChange) revert(s *StateDB)
//@   serves C13
//@   mutates
//@   noframe
//@   atcall getStateObject requires arg1 == s && arg2 == ch.account

//@ func (ch accessListAddAccountChange) revert(s *StateDB)
//@   serves C13
//@   mutates
//@   ownwrites
//@   atcall DeleteAddress requires arg1 == s.accessList && arg2 == ch.address

//@ func (ch accessListAddSlotChange) revert(s *StateDB)
//@   serves C13
//@   mutates
//@   ownwrites
//@   atcall DeleteSlot requires arg1 == s.accessList && arg2 == ch.address && arg3 == ch.slot

// reset: a journal that is reused for the next transaction starts like a new one - no entries,
// no live revisions, ids from zero (so the revision-stack invariant holds trivially).
//@ func (j *journal) reset()
//@   serves C13
//@   ownwrites
//@   modifies j.entries, j.validRevisions, j.nextRevisionId, j.mutations[..]
//@   ensures len(j.entries) == 0 && len(j.validRevisions) == 0 && j.nextRevisionId == 0
//@   ensures revInv(j)

// setState (storage origin tracking): a slot is dirty exactly when its value differs from the
// origin it is compared against; writing the origin value back removes the dirty entry, any other
// value is recorded under that key, and no other key is touched.
//@ func (s *stateObject) setState(key common.Hash, value common.Hash, origin common.Hash)
//@   serves C13
//@   requires s.dirtyStorage != nil
//@   modifies s.dirtyStorage[..]
//@   ensures value == origin ==> !haskey(s.dirtyStorage, key)
//@   ensures value != origin ==> haskey(s.dirtyStorage, key) && s.dirtyStorage[key] == value
//@   ensures forall q common.Hash :: q != key ==> haskey(s.dirtyStorage, q) == old(haskey(s.dirtyStorage, q)) && s.dirtyStorage[q] == old(s.dirtyStorage[q])

// getState: the current value of a slot is its dirty value if it has one, else the committed one.
//@ func (s *stateObject) getState(key common.Hash) (value common.Hash, origin common.Hash)
//@   serves C13
//@   requires s.db != nil
//@   mutates
//@   ownwrites
//@   ensures haskey(s.dirtyStorage, key) ==> value == s.dirtyStorage[key]
//@   ensures !haskey(s.dirtyStorage, key) ==> value == origin

// GetCommittedState: a pending write wins over the cached origin value, which wins over the
// database; a slot of an account destructed in this block reads as zero without consulting it.
//@ func (s *stateObject) GetCommittedState(key common.Hash) (value common.Hash)
//@   serves C13
//@   requires s.db != nil
//@   mutates
//@   noframe
//@   ghostvar loaded bool = false
//@   oncall Storage: loaded = true
//@   ensures old(haskey(s.pendingStorage, key)) ==> value == old(s.pendingStorage[key]) && !loaded
//@   ensures !old(haskey(s.pendingStorage, key)) && old(haskey(s.originStorage, key)) ==> value == old(s.originStorage[key]) && !loaded
//@   ensures !old(haskey(s.pendingStorage, key)) && !old(haskey(s.originStorage, key)) && old(haskey(s.db.stateObjectsDestruct, s.address)) ==> iszero(value) && !loaded
