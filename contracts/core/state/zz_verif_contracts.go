//go:build verif

// Machine-checked contracts for package state (verification only).

package state

// C13 (snapshot / revert discipline of the journal). The journal entries themselves (what each
// kind of change undoes) are interface values and are not modelled: their revert and mutation
// methods are assumed not to touch the journal.
//@ directive readonly-args journalEntry).revert
//@ directive noeffect journalEntry).mutation

// Revision stack: ids strictly increasing and already issued; recorded journal lengths
// non-decreasing and not beyond the current journal.
//@ pure func revRange(j *journal) bool { return forall k int :: {j.validRevisions[k].id} 0 <= k && k < len(j.validRevisions) ==> 0 <= j.validRevisions[k].id && j.validRevisions[k].id < j.nextRevisionId && 0 <= j.validRevisions[k].journalIndex && j.validRevisions[k].journalIndex <= len(j.entries) }
//@ pure func revOrder(j *journal) bool { return forall a int, b int :: {j.validRevisions[a].id, j.validRevisions[b].id} 0 <= a && a < b && b < len(j.validRevisions) ==> j.validRevisions[a].id < j.validRevisions[b].id && j.validRevisions[a].journalIndex <= j.validRevisions[b].journalIndex }
//@ pure func revInv(j *journal) bool { return 0 <= j.nextRevisionId && revRange(j) && revOrder(j) }

//@ func (j *journal) length() (n int)
//@   serves C13
//@   ensures n == len(j.entries)

// snapshot issues a fresh id and records the current journal length under it.
//@ func (j *journal) snapshot() (id int)
//@   serves C13
//@   requires revInv(j) && j.nextRevisionId < 4611686018427387904
//@   modifies j.nextRevisionId, j.validRevisions, j.validRevisions[..]
//@   ensures id == old(j.nextRevisionId) && j.nextRevisionId == id + 1
//@   ensures revRange(j)
//@   ensures revOrder(j)
//@   ensures len(j.validRevisions) == old(len(j.validRevisions)) + 1 && j.validRevisions[len(j.validRevisions) - 1].id == id && j.validRevisions[len(j.validRevisions) - 1].journalIndex == len(j.entries)
//@   ensures forall k int :: 0 <= k && k < old(len(j.validRevisions)) ==> j.validRevisions[k].id == old(j.validRevisions[k].id) && j.validRevisions[k].journalIndex == old(j.validRevisions[k].journalIndex)

// revert undoes the entries above `snapshot`, newest first, and cuts the journal there.
//@ func (j *journal) revert(statedb *StateDB, snapshot int)
//@   serves C13
//@   maypanic
//@   requires 0 <= snapshot && snapshot <= len(j.entries) && j.mutations != nil
//@   modifies j.entries, j.mutations[..], typeof journalMutationState, typeof []int
//@   mutates
//@   ghostvar undone int = 0
//@   oncall revert: undone = undone + 1
//@   ensures len(j.entries) == snapshot
//@   ensures forall k int :: 0 <= k && k < snapshot ==> j.entries[k] == old(j.entries[k])
//@   ensures undone == old(len(j.entries)) - snapshot
//@   loop 1 "i >= snapshot"
//@     invariant snapshot - 1 <= i && i <= len(j.entries) - 1
//@     invariant undone == len(j.entries) - 1 - i
//@     invariant j.entries == old(j.entries) && j.mutations == old(j.mutations)
//@     invariant forall k int :: 0 <= k && k < len(j.entries) ==> j.entries[k] == old(j.entries[k])

// revertToSnapshot cuts the journal back to the length recorded under revid and forgets that
// revision and every later one; earlier revisions are untouched. An id that is not on the
// stack (never issued, or already reverted past) panics, as documented.
//@ func (j *journal) revertToSnapshot(revid int, s *StateDB)
//@   serves C13
//@   maypanic
//@   requires revInv(j) && j.mutations != nil
//@   modifies j.entries, j.validRevisions, j.mutations[..], typeof journalMutationState, typeof []int
//@   mutates
//@   ensures revInv(j) && len(j.validRevisions) < old(len(j.validRevisions))
//@   ensures exists k int :: k == len(j.validRevisions) && old(j.validRevisions[k].id) == revid && len(j.entries) == old(j.validRevisions[k].journalIndex)
//@   ensures forall k int :: 0 <= k && k < len(j.validRevisions) ==> j.validRevisions[k].id == old(j.validRevisions[k].id) && j.validRevisions[k].id < revid
