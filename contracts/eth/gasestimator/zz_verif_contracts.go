//go:build verif

// Machine-checked contracts for package gasestimator (verification only).

package gasestimator

//@ directive pure-observer (*github.com/ethereum/go-ethereum/params.ChainConfig).Is
//@ directive pure-observer core/state.StateDB).GetBalance
//@ directive pure-observer core/state.StateDB).GetCodeSize
//@ directive noeffect core.ExecutionResult).Revert

// succ(call, opts, g): "executing the call with gas limit g succeeds" (abstract).
//@ opaque pure func succ(call *core.Message, opts *Options, g int) bool

// run executes the call once, at call.GasLimit, on a copy of the state.
// (the third clause is the "gas-monotone program" hypothesis of the property: a run that
// consumed UsedGas cannot succeed with a smaller limit)
//@ func run(ctx context.Context, call *core.Message, opts *Options) (result *core.ExecutionResult, err error)
//@   serves C37
//@   trusted runs the full EVM on a copied state (defer, goroutine for the timeout): outside the verified subset. Assumed: deterministic in the gas limit, the result reports failure exactly when the execution does not succeed, intrinsic-gas and limit-too-high errors mean no success at that limit, and a successful run reports gas figures within its limit
//@   ensures err == nil ==> result != nil && (result.Err == nil) == succ(call, opts, call.GasLimit)
//@   ensures err != nil && (iserr(err, core.ErrIntrinsicGas) || iserr(err, core.ErrGasLimitTooHigh)) ==> !succ(call, opts, call.GasLimit)
//@   ensures err == nil && result.Err == nil ==> !succ(call, opts, result.UsedGas - 1)
//@   ensures err == nil && result.Err == nil ==> 1 <= result.UsedGas && result.UsedGas <= call.GasLimit && result.UsedGas <= result.MaxUsedGas && result.MaxUsedGas <= call.GasLimit

// execute: every verdict comes from an actual run at exactly the probed limit, and the
// message's own gas limit is restored afterwards.
//@ func execute(ctx context.Context, call *core.Message, opts *Options, gasLimit uint64) (failed bool, result *core.ExecutionResult, err error)
//@   serves C37
//@   modifies call.GasLimit
//@   ensures call.GasLimit == old(call.GasLimit)
//@   ensures err == nil ==> failed == !succ(call, opts, gasLimit)
//@   ensures err == nil && failed && result != nil ==> result.Err != nil
//@   ensures err == nil && !failed ==> !succ(call, opts, result.UsedGas - 1)
//@   ensures err == nil && !failed ==> result != nil && 1 <= result.UsedGas && result.UsedGas <= gasLimit && result.UsedGas <= result.MaxUsedGas && result.MaxUsedGas <= gasLimit

// What the call may spend per unit of gas, and what it spends besides gas.
//@ pure func feeCapOf(call *core.Message) int { return ite(call.GasFeeCap != nil, u256val(call.GasFeeCap), ite(call.GasPrice != nil, u256val(call.GasPrice), 0)) }
//@ pure func valueOf(call *core.Message) int { return ite(call.Value != nil, u256val(call.Value), 0) }
// fundsOK(g): the sender's balance covers g gas at the fee cap plus the transferred value
// (stated for calls without blobs; the blob term is a 256-bit product of RPC inputs).
//@ pure func fundsOK(call *core.Message, opts *Options, g int) bool { return feeCapOf(call) == 0 || g * feeCapOf(call) + valueOf(call) <= u256val(observe(GetBalance, opts.State, call.From)) }

// C37: the estimate lets the call succeed and respects every cap.
//@ func Estimate(ctx context.Context, call *core.Message, opts *Options, gasCap uint64) (est uint64, revert []byte, err error)
//@   serves C37
//@   modifies call.GasLimit
//@   ensures err == nil ==> succ(call, opts, est)
//@   ensures err == nil && gasCap != 0 ==> est <= gasCap
//@   ensures err == nil ==> est <= ite(call.GasLimit >= 21000, call.GasLimit, opts.Header.GasLimit)
//@   ensures err == nil && observe(IsOsaka, opts.Config, opts.Header.Number, opts.Header.Time) && !observe(IsAmsterdam, opts.Config, opts.Header.Number, opts.Header.Time) ==> est <= 16777216
//@   ensures err == nil && len(call.BlobHashes) == 0 ==> fundsOK(call, opts, est)
//@   ensures err != nil ==> est == 0
//@   ensures err == nil && opts.ErrorRatio == 0 && opts.Header.GasLimit <= 72057594037927936 && call.GasLimit <= 72057594037927936 ==> est == 21000 || !succ(call, opts, est - 1)
//@   ensures call.GasLimit == old(call.GasLimit)
//@   loop 1 "lo+1 < hi"
//@     invariant call.GasLimit == old(call.GasLimit)
//@     invariant opts.Header.GasLimit <= 72057594037927936 && call.GasLimit <= 72057594037927936 ==> lo < hi
//@     invariant opts.ErrorRatio == 0 ==> !succ(call, opts, lo)
//@     invariant len(call.BlobHashes) == 0 ==> fundsOK(call, opts, hi)
//@     invariant succ(call, opts, hi)
//@     invariant gasCap != 0 ==> hi <= gasCap
//@     invariant hi <= ite(call.GasLimit >= 21000, call.GasLimit, opts.Header.GasLimit)
//@     invariant observe(IsOsaka, opts.Config, opts.Header.Number, opts.Header.Time) && !observe(IsAmsterdam, opts.Config, opts.Header.Number, opts.Header.Time) ==> hi <= 16777216
