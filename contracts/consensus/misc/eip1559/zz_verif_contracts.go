//go:build verif

// Machine-checked contracts for package eip1559 (verification only).

package eip1559

//@ directive pure-observer (*github.com/ethereum/go-ethereum/params.ChainConfig).Is

// EIP-1559 base fee update, transcribed from the EIP:
//   parent_gas_target = parent.gas_limit // ELASTICITY_MULTIPLIER
//   if parent.gas_used == target: base_fee
//   elif parent.gas_used > target: base_fee + max(base_fee * (used - target) // target // DENOMINATOR, 1)
//   else: base_fee - base_fee * (target - used) // target // DENOMINATOR
//@ pure func baseFeeSpec(limit int, used int, fee int, em int, den int) int { return ite(used == limit / em, fee, ite(used > limit / em, fee + max(1, ((used - limit / em) * fee / (limit / em)) / den), max(0, fee - (((limit / em) - used) * fee / (limit / em)) / den))) }

//@ func CalcBaseFee(config *params.ChainConfig, parent *types.Header) (fee *big.Int)
//@   serves C35
//@   requires observe(IsLondon, config, parent.Number) ==> parent.BaseFee != nil && bigval(parent.BaseFee) >= 0
//@   requires parent.GasLimit >= 2
//@   ensures fee != nil
//@   ensures !observe(IsLondon, config, parent.Number) ==> bigval(fee) == 1000000000
//@   ensures observe(IsLondon, config, parent.Number) ==> bigval(fee) == baseFeeSpec(parent.GasLimit, parent.GasUsed, old(bigval(parent.BaseFee)), 2, 8)
//@   ensures bigval(fee) >= 0
//@   ensures observe(IsLondon, config, parent.Number) && parent.GasUsed <= 2 * (parent.GasLimit / 2) ==> abs(bigval(fee) - old(bigval(parent.BaseFee))) <= max(1, old(bigval(parent.BaseFee)) / 8)
//@   ensures observe(IsLondon, config, parent.Number) ==> bigval(parent.BaseFee) == old(bigval(parent.BaseFee))
//@   ensures fee != parent.BaseFee

// VerifyEIP1559Header accepts a header only if its gas limit obeys the (elasticity-adjusted)
// bound rule and its base fee equals the specification's value.
//@ func VerifyEIP1559Header(config *params.ChainConfig, parent, header *types.Header) (err error)
//@   serves C35
//@   requires parent.GasLimit >= 2 && parent.GasLimit <= 9223372036854775807
//@   requires parent.BaseFee != nil ==> bigval(parent.BaseFee) >= 0
//@   ensures err == nil ==> header.BaseFee != nil
//@   ensures err == nil && observe(IsLondon, config, parent.Number) ==> bigval(header.BaseFee) == baseFeeSpec(parent.GasLimit, parent.GasUsed, bigval(parent.BaseFee), 2, 8)
//@   ensures err == nil && !observe(IsLondon, config, parent.Number) ==> bigval(header.BaseFee) == 1000000000
//@   ensures err == nil ==> header.GasLimit >= 5000
//@   ensures err == nil && observe(IsLondon, config, parent.Number) ==> abs(parent.GasLimit - header.GasLimit) < parent.GasLimit / 1024
//@   ensures err == nil && !observe(IsLondon, config, parent.Number) ==> abs(2 * parent.GasLimit - header.GasLimit) < (2 * parent.GasLimit) / 1024
//@   nowrap
