//go:build verif

// Machine-checked contracts for package misc (verification only).

package misc

// C35: Yellow-Paper gas-limit rule: |parent - header| < floor(parent/1024) and header >= 5000,
// for every pair of 64-bit limits.
//@ func VerifyGaslimit(parentGasLimit, headerGasLimit uint64) (err error)
//@   serves C35
//@   ensures (err == nil) == (abs(parentGasLimit - headerGasLimit) < parentGasLimit / 1024 && headerGasLimit >= 5000)
