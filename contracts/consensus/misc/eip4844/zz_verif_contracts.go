//go:build verif

// Machine-checked contracts for package eip4844 (verification only).

package eip4844

//@ directive pure-observer (*github.com/ethereum/go-ethereum/params.ChainConfig).Is
//@ directive bigconst minBlobGasPrice 1

// floor(floor(x/d)/i) == floor(x/(d*i)): Go divides twice, the EIP divides once by the product.
//@ lemma nestedDiv(x int, d int, i int)
//@   serves C35
//@   requires x >= 0 && d > 0 && i > 0
//@   ensures (x / d) / i == x / (d * i)
//@   pattern (x / d) / i

// EIP-4844 fake_exponential, transcribed from the EIP (state after k-1 iterations: i == k):
//   i = 1; output = 0; numerator_accum = factor * denominator
//   while numerator_accum > 0:
//       output += numerator_accum
//       numerator_accum = (numerator_accum * numerator) // (denominator * i)
//       i += 1
//   return output // denominator
//@ pure func feLoop(i int, acc int, out int, n int, d int) int { return ite(acc > 0, feLoop(i + 1, (acc * n) / (d * i), out + acc, n, d), out / d) }
//@ pure func fakeExpSpec(f int, n int, d int) int { return feLoop(1, f * d, 0, n, d) }

//@ func fakeExponential(factor, numerator, denominator *big.Int) (out *big.Int)
//@   serves C35
//@   requires bigval(factor) >= 0 && bigval(numerator) >= 0 && bigval(denominator) > 0
//@   ensures out != nil && bigval(out) == fakeExpSpec(old(bigval(factor)), old(bigval(numerator)), old(bigval(denominator)))
//@   ensures bigval(factor) == old(bigval(factor)) && bigval(numerator) == old(bigval(numerator)) && bigval(denominator) == old(bigval(denominator))
//@   loop 1 "accum.Sign() > 0"
//@     assume-invariant i <= 4611686018427387904
//@     uses nestedDiv(bigval(accum) * bigval(numerator), bigval(denominator), i)
//@     invariant i >= 1 && bigval(accum) >= 0 && bigval(output) >= 0
//@     invariant bigval(factor) == old(bigval(factor)) && bigval(numerator) == old(bigval(numerator)) && bigval(denominator) == old(bigval(denominator))
//@     invariant feLoop(i, bigval(accum), bigval(output), bigval(numerator), bigval(denominator)) == fakeExpSpec(old(bigval(factor)), old(bigval(numerator)), old(bigval(denominator)))

//@ func (bc *BlobConfig) maxBlobGas() (g uint64)
//@   serves C35
//@   requires 0 <= bc.Max && bc.Max <= 1048576
//@   ensures g == bc.Max * 131072
//@   nowrap

//@ func (bc *BlobConfig) blobBaseFee(excessBlobGas uint64) (fee *big.Int)
//@   serves C35
//@   requires bc.UpdateFraction > 0
//@   ensures fee != nil && bigval(fee) == fakeExpSpec(1, excessBlobGas, bc.UpdateFraction)

//@ func (bc *BlobConfig) blobPrice(excessBlobGas uint64) (p *big.Int)
//@   serves C35
//@   requires bc.UpdateFraction > 0
//@   ensures p != nil && bigval(p) == fakeExpSpec(1, excessBlobGas, bc.UpdateFraction) * 131072

// EIP-4844 excess blob gas with the EIP-7918 reserve-price branch:
//   if parent.excess + parent.used < target: 0
//   if osaka and BLOB_BASE_COST * parent.base_fee > GAS_PER_BLOB * blob_base_fee(parent.excess):
//       parent.excess + parent.used * (max - target) // max
//   else parent.excess + parent.used - target
//@ pure func excessSpec(isOsaka bool, target int, mx int, frac int, excess int, used int, baseFee int) int { return ite(excess + used < target * 131072, 0, ite(isOsaka && 8192 * baseFee > fakeExpSpec(1, excess, frac) * 131072, excess + (used * (mx - target)) / mx, excess + used - target * 131072)) }

//@ func calcExcessBlobGas(isOsaka bool, bcfg BlobConfig, parent *types.Header) (excess uint64)
//@   serves C35
//@   requires 0 <= bcfg.Target && bcfg.Target <= bcfg.Max && 0 < bcfg.Max && bcfg.Max <= 1048576 && bcfg.UpdateFraction > 0
//@   requires parent.ExcessBlobGas != nil ==> parent.BlobGasUsed != nil
//@   requires parent.ExcessBlobGas != nil ==> *parent.ExcessBlobGas <= 4611686018427387904 && *parent.BlobGasUsed <= bcfg.Max * 131072
//@   requires isOsaka ==> parent.BaseFee != nil && bigval(parent.BaseFee) >= 0
//@   ensures parent.ExcessBlobGas != nil ==> excess == excessSpec(isOsaka, bcfg.Target, bcfg.Max, bcfg.UpdateFraction, *parent.ExcessBlobGas, *parent.BlobGasUsed, ite(isOsaka, bigval(parent.BaseFee), 0))
//@   ensures parent.ExcessBlobGas == nil ==> excess == excessSpec(isOsaka, bcfg.Target, bcfg.Max, bcfg.UpdateFraction, 0, 0, ite(isOsaka, bigval(parent.BaseFee), 0))
//@   ensures isOsaka ==> bigval(parent.BaseFee) == old(bigval(parent.BaseFee))
//@   nowrap
