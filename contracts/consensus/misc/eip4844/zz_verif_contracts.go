//go:build verif

// Machine-checked contracts for package eip4844 (verification only).

package eip4844

//@ directive pure-observer (*github.com/ethereum/go-ethereum/params.ChainConfig).Is
//@ directive bigconst minBlobGasPrice 1

// floor(floor(x/d)/i) == floor(x/(d*i)): Go divides twice, the EIP divides once by the product.
//@ lemma nestedDiv(x int, d int, i int)
//@   serves C35
//@   requires x >= 0 && d > 0 && i > 0
//@   ensures (x / d) / i == x / (d * i)
//@   pattern (x / d) / i

// EIP-4844 fake_exponential, transcribed from the EIP (state after k-1 iterations: i == k):
//   i = 1; output = 0; numerator_accum = factor * denominator
//   while numerator_accum > 0:
//       output += numerator_accum
//       numerator_accum = (numerator_accum * numerator) // (denominator * i)
//       i += 1
//   return output // denominator
//@ pure func feLoop(i int, acc int, out int, n int, d int) int { return ite(acc > 0, feLoop(i + 1, (acc * n) / (d * i), out + acc, n, d), out / d) }
//@ pure func fakeExpSpec(f int, n int, d int) int { return feLoop(1, f * d, 0, n, d) }

//@ func fakeExponential(factor, numerator, denominator *big.Int) (out *big.Int)
//@   serves C35
//@   requires bigval(factor) >= 0 && bigval(numerator) >= 0 && bigval(denominator) > 0
//@   ensures out != nil && bigval(out) == fakeExpSpec(old(bigval(factor)), old(bigval(numerator)), old(bigval(denominator)))
//@   ensures bigval(factor) == old(bigval(factor)) && bigval(numerator) == old(bigval(numerator)) && bigval(denominator) == old(bigval(denominator))
//@   loop 1 "accum.Sign() > 0"
//@     assume-invariant i <= 4611686018427387904
//@     uses nestedDiv(bigval(accum) * bigval(numerator), bigval(denominator), i)
//@     invariant i >= 1 && bigval(accum) >= 0 && bigval(output) >= 0
//@     invariant bigval(factor) == old(bigval(factor)) && bigval(numerator) == old(bigval(numerator)) && bigval(denominator) == old(bigval(denominator))
//@     invariant feLoop(i, bigval(accum), bigval(output), bigval(numerator), bigval(denominator)) == fakeExpSpec(old(bigval(factor)), old(bigval(numerator)), old(bigval(denominator)))

//@ func (bc *BlobConfig) maxBlobGas() (g uint64)
//@   serves C35
//@   requires 0 <= bc.Max && bc.Max <= 1048576
//@   ensures g == bc.Max * 131072
//@   nowrap

//@ func (bc *BlobConfig) blobBaseFee(excessBlobGas uint64) (fee *big.Int)
//@   serves C35
//@   requires bc.UpdateFraction > 0
//@   ensures fee != nil && bigval(fee) == fakeExpSpec(1, excessBlobGas, bc.UpdateFraction)

//@ func (bc *BlobConfig) blobPrice(excessBlobGas uint64) (p *big.Int)
//@   serves C35
//@   requires bc.UpdateFraction > 0
//@   ensures p != nil && bigval(p) == fakeExpSpec(1, excessBlobGas, bc.UpdateFraction) * 131072

// EIP-4844 excess blob gas with the EIP-7918 reserve-price branch:
//   if parent.excess + parent.used < target: 0
//   if osaka and BLOB_BASE_COST * parent.base_fee > GAS_PER_BLOB * blob_base_fee(parent.excess):
//       parent.excess + parent.used * (max - target) // max
//   else parent.excess + parent.used - target
//@ pure func excessSpec(isOsaka bool, target int, mx int, frac int, excess int, used int, baseFee int) int { return ite(excess + used < target * 131072, 0, ite(isOsaka && 8192 * baseFee > fakeExpSpec(1, excess, frac) * 131072, excess + (used * (mx - target)) / mx, excess + used - target * 131072)) }

//@ func calcExcessBlobGas(isOsaka bool, bcfg BlobConfig, parent *types.Header) (excess uint64)
//@   serves C35
//@   requires 0 <= bcfg.Target && bcfg.Target <= bcfg.Max && 0 < bcfg.Max && bcfg.Max <= 1048576 && bcfg.UpdateFraction > 0
//@   requires parent.ExcessBlobGas != nil ==> parent.BlobGasUsed != nil
//@   requires parent.ExcessBlobGas != nil ==> *parent.ExcessBlobGas <= 4611686018427387904 && *parent.BlobGasUsed <= bcfg.Max * 131072
//@   requires isOsaka ==> parent.BaseFee != nil && bigval(parent.BaseFee) >= 0
//@   ensures parent.ExcessBlobGas != nil ==> excess == excessSpec(isOsaka, bcfg.Target, bcfg.Max, bcfg.UpdateFraction, *parent.ExcessBlobGas, *parent.BlobGasUsed, ite(isOsaka, bigval(parent.BaseFee), 0))
//@   ensures parent.ExcessBlobGas == nil ==> excess == excessSpec(isOsaka, bcfg.Target, bcfg.Max, bcfg.UpdateFraction, 0, 0, ite(isOsaka, bigval(parent.BaseFee), 0))
//@   ensures isOsaka ==> bigval(parent.BaseFee) == old(bigval(parent.BaseFee))
//@   nowrap

// latestBlobConfig: the blob parameters are those of the latest fork that is active at `time`
// AND has an entry in the blob schedule; with no schedule, or no such fork, it is an error.

//@ directive pure-observer params.ChainConfig).IsBPO5
//@ directive pure-observer params.ChainConfig).IsBPO4
//@ directive pure-observer params.ChainConfig).IsBPO3
//@ directive pure-observer params.ChainConfig).IsBPO2
//@ directive pure-observer params.ChainConfig).IsBPO1
//@ directive pure-observer params.ChainConfig).IsPrague
//@ directive pure-observer params.ChainConfig).IsCancun
//@ directive noeffect errors.New
//@ func latestBlobConfig(cfg *params.ChainConfig, time uint64) (r BlobConfig, err error)
//@   serves C35
//@   ensures cfg.BlobScheduleConfig == nil ==> err != nil
//@   ensures cfg.BlobScheduleConfig != nil && (observe(IsBPO5, cfg, cfg.LondonBlock, time) && cfg.BlobScheduleConfig.BPO5 != nil) ==> err == nil && r.Target == cfg.BlobScheduleConfig.BPO5.Target && r.Max == cfg.BlobScheduleConfig.BPO5.Max && r.UpdateFraction == cfg.BlobScheduleConfig.BPO5.UpdateFraction
//@   ensures cfg.BlobScheduleConfig != nil && !(observe(IsBPO5, cfg, cfg.LondonBlock, time) && cfg.BlobScheduleConfig.BPO5 != nil) && (observe(IsBPO4, cfg, cfg.LondonBlock, time) && cfg.BlobScheduleConfig.BPO4 != nil) ==> err == nil && r.Target == cfg.BlobScheduleConfig.BPO4.Target && r.Max == cfg.BlobScheduleConfig.BPO4.Max && r.UpdateFraction == cfg.BlobScheduleConfig.BPO4.UpdateFraction
//@   ensures cfg.BlobScheduleConfig != nil && !(observe(IsBPO5, cfg, cfg.LondonBlock, time) && cfg.BlobScheduleConfig.BPO5 != nil) && !(observe(IsBPO4, cfg, cfg.LondonBlock, time) && cfg.BlobScheduleConfig.BPO4 != nil) && (observe(IsBPO3, cfg, cfg.LondonBlock, time) && cfg.BlobScheduleConfig.BPO3 != nil) ==> err == nil && r.Target == cfg.BlobScheduleConfig.BPO3.Target && r.Max == cfg.BlobScheduleConfig.BPO3.Max && r.UpdateFraction == cfg.BlobScheduleConfig.BPO3.UpdateFraction
//@   ensures cfg.BlobScheduleConfig != nil && !(observe(IsBPO5, cfg, cfg.LondonBlock, time) && cfg.BlobScheduleConfig.BPO5 != nil) && !(observe(IsBPO4, cfg, cfg.LondonBlock, time) && cfg.BlobScheduleConfig.BPO4 != nil) && !(observe(IsBPO3, cfg, cfg.LondonBlock, time) && cfg.BlobScheduleConfig.BPO3 != nil) && (observe(IsBPO2, cfg, cfg.LondonBlock, time) && cfg.BlobScheduleConfig.BPO2 != nil) ==> err == nil && r.Target == cfg.BlobScheduleConfig.BPO2.Target && r.Max == cfg.BlobScheduleConfig.BPO2.Max && r.UpdateFraction == cfg.BlobScheduleConfig.BPO2.UpdateFraction
//@   ensures cfg.BlobScheduleConfig != nil && !(observe(IsBPO5, cfg, cfg.LondonBlock, time) && cfg.BlobScheduleConfig.BPO5 != nil) && !(observe(IsBPO4, cfg, cfg.LondonBlock, time) && cfg.BlobScheduleConfig.BPO4 != nil) && !(observe(IsBPO3, cfg, cfg.LondonBlock, time) && cfg.BlobScheduleConfig.BPO3 != nil) && !(observe(IsBPO2, cfg, cfg.LondonBlock, time) && cfg.BlobScheduleConfig.BPO2 != nil) && (observe(IsBPO1, cfg, cfg.LondonBlock, time) && cfg.BlobScheduleConfig.BPO1 != nil) ==> err == nil && r.Target == cfg.BlobScheduleConfig.BPO1.Target && r.Max == cfg.BlobScheduleConfig.BPO1.Max && r.UpdateFraction == cfg.BlobScheduleConfig.BPO1.UpdateFraction
//@   ensures cfg.BlobScheduleConfig != nil && !(observe(IsBPO5, cfg, cfg.LondonBlock, time) && cfg.BlobScheduleConfig.BPO5 != nil) && !(observe(IsBPO4, cfg, cfg.LondonBlock, time) && cfg.BlobScheduleConfig.BPO4 != nil) && !(observe(IsBPO3, cfg, cfg.LondonBlock, time) && cfg.BlobScheduleConfig.BPO3 != nil) && !(observe(IsBPO2, cfg, cfg.LondonBlock, time) && cfg.BlobScheduleConfig.BPO2 != nil) && !(observe(IsBPO1, cfg, cfg.LondonBlock, time) && cfg.BlobScheduleConfig.BPO1 != nil) && (observe(IsPrague, cfg, cfg.LondonBlock, time) && cfg.BlobScheduleConfig.Prague != nil) ==> err == nil && r.Target == cfg.BlobScheduleConfig.Prague.Target && r.Max == cfg.BlobScheduleConfig.Prague.Max && r.UpdateFraction == cfg.BlobScheduleConfig.Prague.UpdateFraction
//@   ensures cfg.BlobScheduleConfig != nil && !(observe(IsBPO5, cfg, cfg.LondonBlock, time) && cfg.BlobScheduleConfig.BPO5 != nil) && !(observe(IsBPO4, cfg, cfg.LondonBlock, time) && cfg.BlobScheduleConfig.BPO4 != nil) && !(observe(IsBPO3, cfg, cfg.LondonBlock, time) && cfg.BlobScheduleConfig.BPO3 != nil) && !(observe(IsBPO2, cfg, cfg.LondonBlock, time) && cfg.BlobScheduleConfig.BPO2 != nil) && !(observe(IsBPO1, cfg, cfg.LondonBlock, time) && cfg.BlobScheduleConfig.BPO1 != nil) && !(observe(IsPrague, cfg, cfg.LondonBlock, time) && cfg.BlobScheduleConfig.Prague != nil) && (observe(IsCancun, cfg, cfg.LondonBlock, time) && cfg.BlobScheduleConfig.Cancun != nil) ==> err == nil && r.Target == cfg.BlobScheduleConfig.Cancun.Target && r.Max == cfg.BlobScheduleConfig.Cancun.Max && r.UpdateFraction == cfg.BlobScheduleConfig.Cancun.UpdateFraction
//@   ensures cfg.BlobScheduleConfig != nil && !(observe(IsBPO5, cfg, cfg.LondonBlock, time) && cfg.BlobScheduleConfig.BPO5 != nil) && !(observe(IsBPO4, cfg, cfg.LondonBlock, time) && cfg.BlobScheduleConfig.BPO4 != nil) && !(observe(IsBPO3, cfg, cfg.LondonBlock, time) && cfg.BlobScheduleConfig.BPO3 != nil) && !(observe(IsBPO2, cfg, cfg.LondonBlock, time) && cfg.BlobScheduleConfig.BPO2 != nil) && !(observe(IsBPO1, cfg, cfg.LondonBlock, time) && cfg.BlobScheduleConfig.BPO1 != nil) && !(observe(IsPrague, cfg, cfg.LondonBlock, time) && cfg.BlobScheduleConfig.Prague != nil) && !(observe(IsCancun, cfg, cfg.LondonBlock, time) && cfg.BlobScheduleConfig.Cancun != nil) ==> err != nil

// The parameters in force at `time`, as spec functions (same selection rule as latestBlobConfig),
// and the two exported compositions: the blob base fee of a header is computed from the header's
// own excess blob gas with the update fraction in force at the header's own time; the excess blob
// gas of a child is computed from the parent's fields with the parameters in force at the child's
// time.
//@ pure func anyBlobFork(cfg *params.ChainConfig, time uint64) bool { return cfg.BlobScheduleConfig != nil && ((observe(IsBPO5, cfg, cfg.LondonBlock, time) && cfg.BlobScheduleConfig.BPO5 != nil) || (observe(IsBPO4, cfg, cfg.LondonBlock, time) && cfg.BlobScheduleConfig.BPO4 != nil) || (observe(IsBPO3, cfg, cfg.LondonBlock, time) && cfg.BlobScheduleConfig.BPO3 != nil) || (observe(IsBPO2, cfg, cfg.LondonBlock, time) && cfg.BlobScheduleConfig.BPO2 != nil) || (observe(IsBPO1, cfg, cfg.LondonBlock, time) && cfg.BlobScheduleConfig.BPO1 != nil) || (observe(IsPrague, cfg, cfg.LondonBlock, time) && cfg.BlobScheduleConfig.Prague != nil) || (observe(IsCancun, cfg, cfg.LondonBlock, time) && cfg.BlobScheduleConfig.Cancun != nil)) }
//@ pure func actUpdateFraction(cfg *params.ChainConfig, time uint64) int { return ite((observe(IsBPO5, cfg, cfg.LondonBlock, time) && cfg.BlobScheduleConfig.BPO5 != nil), cfg.BlobScheduleConfig.BPO5.UpdateFraction, ite((observe(IsBPO4, cfg, cfg.LondonBlock, time) && cfg.BlobScheduleConfig.BPO4 != nil), cfg.BlobScheduleConfig.BPO4.UpdateFraction, ite((observe(IsBPO3, cfg, cfg.LondonBlock, time) && cfg.BlobScheduleConfig.BPO3 != nil), cfg.BlobScheduleConfig.BPO3.UpdateFraction, ite((observe(IsBPO2, cfg, cfg.LondonBlock, time) && cfg.BlobScheduleConfig.BPO2 != nil), cfg.BlobScheduleConfig.BPO2.UpdateFraction, ite((observe(IsBPO1, cfg, cfg.LondonBlock, time) && cfg.BlobScheduleConfig.BPO1 != nil), cfg.BlobScheduleConfig.BPO1.UpdateFraction, ite((observe(IsPrague, cfg, cfg.LondonBlock, time) && cfg.BlobScheduleConfig.Prague != nil), cfg.BlobScheduleConfig.Prague.UpdateFraction, ite((observe(IsCancun, cfg, cfg.LondonBlock, time) && cfg.BlobScheduleConfig.Cancun != nil), cfg.BlobScheduleConfig.Cancun.UpdateFraction, 0))))))) }
//@ pure func actTarget(cfg *params.ChainConfig, time uint64) int { return ite((observe(IsBPO5, cfg, cfg.LondonBlock, time) && cfg.BlobScheduleConfig.BPO5 != nil), cfg.BlobScheduleConfig.BPO5.Target, ite((observe(IsBPO4, cfg, cfg.LondonBlock, time) && cfg.BlobScheduleConfig.BPO4 != nil), cfg.BlobScheduleConfig.BPO4.Target, ite((observe(IsBPO3, cfg, cfg.LondonBlock, time) && cfg.BlobScheduleConfig.BPO3 != nil), cfg.BlobScheduleConfig.BPO3.Target, ite((observe(IsBPO2, cfg, cfg.LondonBlock, time) && cfg.BlobScheduleConfig.BPO2 != nil), cfg.BlobScheduleConfig.BPO2.Target, ite((observe(IsBPO1, cfg, cfg.LondonBlock, time) && cfg.BlobScheduleConfig.BPO1 != nil), cfg.BlobScheduleConfig.BPO1.Target, ite((observe(IsPrague, cfg, cfg.LondonBlock, time) && cfg.BlobScheduleConfig.Prague != nil), cfg.BlobScheduleConfig.Prague.Target, ite((observe(IsCancun, cfg, cfg.LondonBlock, time) && cfg.BlobScheduleConfig.Cancun != nil), cfg.BlobScheduleConfig.Cancun.Target, 0))))))) }
//@ pure func actMax(cfg *params.ChainConfig, time uint64) int { return ite((observe(IsBPO5, cfg, cfg.LondonBlock, time) && cfg.BlobScheduleConfig.BPO5 != nil), cfg.BlobScheduleConfig.BPO5.Max, ite((observe(IsBPO4, cfg, cfg.LondonBlock, time) && cfg.BlobScheduleConfig.BPO4 != nil), cfg.BlobScheduleConfig.BPO4.Max, ite((observe(IsBPO3, cfg, cfg.LondonBlock, time) && cfg.BlobScheduleConfig.BPO3 != nil), cfg.BlobScheduleConfig.BPO3.Max, ite((observe(IsBPO2, cfg, cfg.LondonBlock, time) && cfg.BlobScheduleConfig.BPO2 != nil), cfg.BlobScheduleConfig.BPO2.Max, ite((observe(IsBPO1, cfg, cfg.LondonBlock, time) && cfg.BlobScheduleConfig.BPO1 != nil), cfg.BlobScheduleConfig.BPO1.Max, ite((observe(IsPrague, cfg, cfg.LondonBlock, time) && cfg.BlobScheduleConfig.Prague != nil), cfg.BlobScheduleConfig.Prague.Max, ite((observe(IsCancun, cfg, cfg.LondonBlock, time) && cfg.BlobScheduleConfig.Cancun != nil), cfg.BlobScheduleConfig.Cancun.Max, 0))))))) }
//@ func CalcBlobFee(config *params.ChainConfig, header *types.Header) (fee *big.Int)
//@   serves C35
//@   maypanic
//@   requires header.ExcessBlobGas != nil
//@   requires anyBlobFork(config, header.Time) ==> actUpdateFraction(config, header.Time) > 0
//@   ensures anyBlobFork(config, header.Time) && fee != nil && bigval(fee) == fakeExpSpec(1, *header.ExcessBlobGas, actUpdateFraction(config, header.Time))

//@ directive pure-observer params.ChainConfig).IsOsaka
//@ func CalcExcessBlobGas(config *params.ChainConfig, parent *types.Header, headTimestamp uint64) (excess uint64)
//@   serves C35
//@   maypanic
//@   requires anyBlobFork(config, headTimestamp) ==> 0 <= actTarget(config, headTimestamp) && actTarget(config, headTimestamp) <= actMax(config, headTimestamp) && 0 < actMax(config, headTimestamp) && actMax(config, headTimestamp) <= 1048576 && actUpdateFraction(config, headTimestamp) > 0
//@   requires parent.ExcessBlobGas != nil ==> parent.BlobGasUsed != nil
//@   requires parent.ExcessBlobGas != nil ==> *parent.ExcessBlobGas <= 4611686018427387904 && *parent.BlobGasUsed <= actMax(config, headTimestamp) * 131072
//@   requires observe(IsOsaka, config, config.LondonBlock, headTimestamp) ==> parent.BaseFee != nil && bigval(parent.BaseFee) >= 0
//@   ensures anyBlobFork(config, headTimestamp)
//@   ensures parent.ExcessBlobGas != nil ==> excess == excessSpec(observe(IsOsaka, config, config.LondonBlock, headTimestamp), actTarget(config, headTimestamp), actMax(config, headTimestamp), actUpdateFraction(config, headTimestamp), *parent.ExcessBlobGas, *parent.BlobGasUsed, ite(observe(IsOsaka, config, config.LondonBlock, headTimestamp), bigval(parent.BaseFee), 0))
//@   ensures parent.ExcessBlobGas == nil ==> excess == excessSpec(observe(IsOsaka, config, config.LondonBlock, headTimestamp), actTarget(config, headTimestamp), actMax(config, headTimestamp), actUpdateFraction(config, headTimestamp), 0, 0, ite(observe(IsOsaka, config, config.LondonBlock, headTimestamp), bigval(parent.BaseFee), 0))
