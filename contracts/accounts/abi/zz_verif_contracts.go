//go:build verif

// Machine-checked contracts for package abi (verification only).

package abi

// C51 (offset arithmetic): whatever bytes the caller supplies, the offsets and lengths read
// from them are validated before they are used to slice `output`.

//@ func lengthPrefixPointsTo(index int, output []byte) (start int, length int, err error)
//@   serves C51
//@   requires 0 <= index && index + 32 <= len(output)
//@   ensures err == nil ==> 32 <= start && start <= len(output) && 0 <= length && start + length <= len(output)
//@   ensures err == nil ==> start == bevalue(output[index : index + 32]) + 32
//@   ensures err == nil ==> length == bevalue(output[start - 32 : start])
//@   ensures err != nil ==> start == 0 && length == 0
//@   nowrap

//@ func tuplePointsTo(index int, output []byte) (start int, err error)
//@   serves C51
//@   requires 0 <= index && index + 32 <= len(output)
//@   ensures err == nil ==> 0 <= start && start <= len(output) && start == bevalue(output[index : index + 32])
//@   ensures err != nil ==> start == 0
//@   nowrap

// A bool is a 32-byte word that is exactly 0 or 1.
//@ func readBool(word []byte) (v bool, err error)
//@   serves C51
//@   requires len(word) >= 32
//@   ensures (err == nil) == ((forall k int :: 0 <= k && k < 31 ==> word[k] == 0) && word[31] <= 1)
//@   ensures err == nil ==> v == (word[31] == 1)
//@   ensures err != nil ==> err == errBadBool && v == false
//@   loop 1 "range word[:31]"
//@     invariant 0 - 1 <= rangeindex && rangeindex <= 30
//@     invariant forall k int :: 0 <= k && k <= rangeindex ==> word[k] == 0

//@ func (t Type) requiresLengthPrefix() (r bool)
//@   serves C51
//@   ensures r == (t.T == StringTy || t.T == BytesTy || t.T == SliceTy)

// Callees of the dispatcher that are not under contract: assumed to read (not write) the bytes they are handed.
//@ directive pure-observer accounts/abi.isDynamicType
//@ directive pure-observer accounts/abi.getTypeSize
//@ directive readonly-args accounts/abi.ReadFixedBytes
//@ directive readonly-args accounts/abi.readFunctionType
//@ directive readonly-args accounts/abi.forTupleUnpack

// Well-formed type descriptors, as NewType builds them: array sizes are non-negative and far below
// 2^55 (reflect.ArrayOf refuses larger ones), slices and arrays have an element type. allTypesWf says it
// of every Type object in memory (a data-structure invariant of the package: NewType is the only constructor).
//@ pure func wfNode(size int, ty byte, elem *Type) bool { return 0 <= size && size <= 36028797018963968 && ((ty == SliceTy || ty == ArrayTy) ==> elem != nil) }
//@ pure func allTypesWf() bool { return forall p *Type :: {p.Size} p != nil ==> wfNode(p.Size, p.T, p.Elem) }

// toGoType: no slice expression in the dispatcher can go out of range, for any output bytes,
// any well-formed type descriptor and any non-negative index (the element decoders it calls are havocked).
//@ func toGoType(index int, t Type, output []byte) (v interface{}, err error)
//@   serves C51
//@   requires 0 <= index && index <= 4611686018427387904
//@   requires wfNode(t.Size, t.T, t.Elem) && allTypesWf()
//@   mutates
//@   nowrap

//@ func forEachUnpack(t Type, output []byte, start, size int) (v interface{}, err error)
//@   serves C51
//@   requires 0 <= start && start <= 36028797018963968 && size <= 36028797018963968
//@   requires wfNode(t.Size, t.T, t.Elem) && allTypesWf()
//@   ensures err == nil ==> size >= 0 && start + 32 * size <= len(output)
//@   mutates
//@   loop 1 "j < size"
//@     invariant 0 <= j
//@     assume-invariant 0 <= i && i <= 4611686018427387904

// ---- integers: a 32-byte word is accepted for an N-bit integer type exactly when its value
// (two's complement for the signed types) fits N bits.
//@ directive bigconst MaxUint256 115792089237316195423570985008687907853269984665640564039457584007913129639935
//@ pure func sval256(v int) int { return ite(v >= 57896044618658097711785492504343953926634992332820282019728792003956564819968, v - 115792089237316195423570985008687907853269984665640564039457584007913129639936, v) }

//@ func ReadInteger(typ Type, b []byte) (v interface{}, err error)
//@   serves C51
//@   requires len(b) == 32
//@   ensures typ.T == UintTy && typ.Size == 8 ==> (err == nil) == (bevalue(b) <= 255)
//@   ensures typ.T == UintTy && typ.Size == 16 ==> (err == nil) == (bevalue(b) <= 65535)
//@   ensures typ.T == UintTy && typ.Size == 32 ==> (err == nil) == (bevalue(b) <= 4294967295)
//@   ensures typ.T == UintTy && typ.Size == 64 ==> (err == nil) == (bevalue(b) <= 18446744073709551615)
//@   ensures typ.T == UintTy && typ.Size != 8 && typ.Size != 16 && typ.Size != 32 && typ.Size != 64 ==> err == nil
//@   ensures typ.T != UintTy && typ.Size == 8 ==> (err == nil) == (0 - 128 <= sval256(bevalue(b)) && sval256(bevalue(b)) <= 127)
//@   ensures typ.T != UintTy && typ.Size == 16 ==> (err == nil) == (0 - 32768 <= sval256(bevalue(b)) && sval256(bevalue(b)) <= 32767)
//@   ensures typ.T != UintTy && typ.Size == 32 ==> (err == nil) == (0 - 2147483648 <= sval256(bevalue(b)) && sval256(bevalue(b)) <= 2147483647)
//@   ensures typ.T != UintTy && typ.Size == 64 ==> (err == nil) == (0 - 9223372036854775808 <= sval256(bevalue(b)) && sval256(bevalue(b)) <= 9223372036854775807)
//@   ensures typ.T != UintTy && typ.Size != 8 && typ.Size != 16 && typ.Size != 32 && typ.Size != 64 ==> err == nil
