//go:build verif

// Machine-checked contracts for package rlp (verification only).

package rlp

// C01 (raw splitting helpers): the header reader accepts exactly the canonical headers that fit
// the input, and reports the kind and sizes the encoding defines.

// Big-endian value of the first n bytes of b (n in 1..8; 0 otherwise).
//@ pure func be(b []byte, n int) int { return ite(n == 1, b[0], ite(n == 2, b[0] * 256 + b[1], ite(n == 3, b[0] * 65536 + b[1] * 256 + b[2], ite(n == 4, b[0] * 16777216 + b[1] * 65536 + b[2] * 256 + b[3], ite(n == 5, b[0] * 4294967296 + b[1] * 16777216 + b[2] * 65536 + b[3] * 256 + b[4], ite(n == 6, b[0] * 1099511627776 + b[1] * 4294967296 + b[2] * 16777216 + b[3] * 65536 + b[4] * 256 + b[5], ite(n == 7, b[0] * 281474976710656 + b[1] * 1099511627776 + b[2] * 4294967296 + b[3] * 16777216 + b[4] * 65536 + b[5] * 256 + b[6], ite(n == 8, b[0] * 72057594037927936 + b[1] * 281474976710656 + b[2] * 1099511627776 + b[3] * 4294967296 + b[4] * 16777216 + b[5] * 65536 + b[6] * 256 + b[7], 0)))))))) }

// A size field is canonical when it has 1..8 bytes that are all present, no leading zero byte
// and a value of at least 56.
//@ pure func canonSize(b []byte, n int) bool { return 1 <= n && n <= 8 && n <= len(b) && b[0] != 0 && be(b, n) >= 56 }

//@ func readSize(b []byte, slen byte) (s uint64, err error)
//@   serves C01
//@   ensures (err == nil) == canonSize(b, slen)
//@   ensures err == nil ==> s == be(b, slen)
//@   ensures err != nil ==> s == 0

// The header of an encoded value, as the encoding defines it (first byte b0):
//   b0 < 0x80          a single byte that is its own encoding
//   0x80..0xB7         string of b0-0x80 bytes (a 1-byte string below 0x80 must not use this form)
//   0xB8..0xBF         string, size in the next b0-0xB7 bytes (canonical size field)
//   0xC0..0xF7         list of b0-0xC0 payload bytes
//   0xF8..0xFF         list, size in the next b0-0xF7 bytes (canonical size field)
//@ pure func headTag(buf []byte) int { return ite(buf[0] < 128, 0, ite(buf[0] < 184, 1, ite(buf[0] < 192, buf[0] - 183 + 1, ite(buf[0] < 248, 1, buf[0] - 247 + 1)))) }
//@ pure func headSize(buf []byte) int { return ite(buf[0] < 128, 1, ite(buf[0] < 184, buf[0] - 128, ite(buf[0] < 192, be(buf[1:], buf[0] - 183), ite(buf[0] < 248, buf[0] - 192, be(buf[1:], buf[0] - 247))))) }
//@ pure func headKind(buf []byte) int { return ite(buf[0] < 128, Byte, ite(buf[0] < 192, String, List)) }
//@ pure func headCanon(buf []byte) bool { return ite(buf[0] < 128, true, ite(buf[0] < 184, !(buf[0] == 129 && len(buf) > 1 && buf[1] < 128), ite(buf[0] < 192, canonSize(buf[1:], buf[0] - 183), ite(buf[0] < 248, true, canonSize(buf[1:], buf[0] - 247))))) }
//@ pure func okHead(buf []byte) bool { return len(buf) > 0 && headCanon(buf) && headTag(buf) + headSize(buf) <= len(buf) }

// readKind accepts exactly the canonical headers whose value fits the input.
//@ func readKind(buf []byte) (k Kind, tagsize, contentsize uint64, err error)
//@   serves C01
//@   ensures (err == nil) == okHead(buf)
//@   ensures err == nil ==> k == headKind(buf) && tagsize == headTag(buf) && contentsize == headSize(buf)
//@   ensures err != nil ==> k == 0 && tagsize == 0 && contentsize == 0
//@   nowrap

//@ func Split(b []byte) (k Kind, content, rest []byte, err error)
//@   serves C01
//@   ensures (err == nil) == okHead(b)
//@   ensures err == nil ==> k == headKind(b) && content == b[headTag(b) : headTag(b) + headSize(b)] && rest == b[headTag(b) + headSize(b):]
//@   ensures err != nil ==> rest == b && len(content) == 0

//@ func SplitString(b []byte) (content, rest []byte, err error)
//@   serves C01
//@   ensures (err == nil) == (okHead(b) && headKind(b) != List)
//@   ensures err == nil ==> content == b[headTag(b) : headTag(b) + headSize(b)] && rest == b[headTag(b) + headSize(b):]
//@   ensures err != nil ==> rest == b && len(content) == 0

// Canonical integers: at most 8 content bytes, no leading zero byte; the value is the big-endian
// reading of the content.
//@ pure func canonUint(c []byte) bool { return len(c) <= 8 && (len(c) > 0 ==> c[0] != 0) }
//@ func SplitUint64(b []byte) (x uint64, rest []byte, err error)
//@   serves C01
//@   ensures (err == nil) == (okHead(b) && headKind(b) != List && canonUint(b[headTag(b) : headTag(b) + headSize(b)]))
//@   ensures err == nil ==> x == be(b[headTag(b) : headTag(b) + headSize(b)], headSize(b)) && rest == b[headTag(b) + headSize(b):]
//@   ensures err != nil ==> x == 0 && rest == b

//@ func CountValues(b []byte) (n int, err error)
//@   serves C01
//@   loop 1 "len(b) > 0"
//@     invariant 0 <= i && i + len(b) <= old(len(b))

// ---- encoder side: minimal headers

// Number of bytes of the minimal big-endian representation of i (1 for zero, as putint writes it).
//@ pure func isz(i int) int { return ite(i < 256, 1, ite(i < 65536, 2, ite(i < 16777216, 3, ite(i < 4294967296, 4, ite(i < 1099511627776, 5, ite(i < 281474976710656, 6, ite(i < 72057594037927936, 7, 8))))))) }

//@ func putint(b []byte, i uint64) (size int)
//@   serves C01
//@   requires len(b) >= isz(i)
//@   uses bytes8(i)
//@   modifies b[..]
//@   ensures size == isz(i) && be(b, size) == i
//@   ensures i > 0 ==> b[0] != 0
//@   ensures forall k int :: size <= k && k < len(b) ==> b[k] == old(b[k])

//@ func intsize(i uint64) (size int)
//@   serves C01
//@   ensures size == isz(i)

//@ func IntSize(x uint64) (n int)
//@   serves C01
//@   ensures n == ite(x < 128, 1, 1 + isz(x))

//@ func puthead(buf []byte, smalltag, largetag byte, size uint64) (n int)
//@   serves C01
//@   requires len(buf) >= 9
//@   modifies buf[..]
//@   ensures size < 56 ==> n == 1 && buf[0] == (smalltag + size) % 256
//@   ensures size >= 56 ==> n == 1 + isz(size) && buf[0] == (largetag + isz(size)) % 256 && be(buf[1:], isz(size)) == size && buf[1] != 0
//@   ensures forall k int :: n <= k && k < len(buf) ==> buf[k] == old(buf[k])

// A 64-bit value is the sum of its eight bytes.
//@ lemma bytes8(i uint64)
//@   serves C01
//@   arith bv
//@   ensures i == ((i / 72057594037927936) % 256) * 72057594037927936 + ((i / 281474976710656) % 256) * 281474976710656 + ((i / 1099511627776) % 256) * 1099511627776 + ((i / 4294967296) % 256) * 4294967296 + ((i / 16777216) % 256) * 16777216 + ((i / 65536) % 256) * 65536 + ((i / 256) % 256) * 256 + i % 256

// AppendUint64 appends the canonical encoding of i and leaves the prefix alone.
//@ func AppendUint64(b []byte, i uint64) (out []byte)
//@   serves C01
//@   modifies b[len(b):cap(b)]
//@   uses bytes8(i)
//@   ensures len(out) == len(b) + ite(i < 128, 1, 1 + isz(i))
//@   ensures forall k int :: 0 <= k && k < len(b) ==> out[k] == old(b[k])
//@   ensures i == 0 ==> out[len(b)] == 128
//@   ensures 0 < i && i < 128 ==> out[len(b)] == i
//@   ensures i >= 128 ==> out[len(b)] == 128 + isz(i) && be(out[len(b) + 1:], isz(i)) == i && out[len(b) + 1] != 0

// ---- round trips (lemma functions: real Go code, verified like any other function)

// What the header encoder writes for a string of `size` bytes, the header reader reads back.
//@ func verifLemmaStringHeadRoundTrip(buf []byte, size uint64) (n int, k Kind, ts, cs uint64, err error)
//@   serves C01
//@   requires len(buf) >= 9 && size <= len(buf) - 9
//@   requires size == 1 ==> buf[1] >= 128
//@   modifies buf[..]
//@   ensures err == nil && k == String && ts == n && cs == size

func verifLemmaStringHeadRoundTrip(buf []byte, size uint64) (n int, k Kind, ts, cs uint64, err error) {
	n = puthead(buf, 0x80, 0xB7, size)
	k, ts, cs, err = readKind(buf)
	return
}

//@ func verifLemmaListHeadRoundTrip(buf []byte, size uint64) (n int, k Kind, ts, cs uint64, err error)
//@   serves C01
//@   requires len(buf) >= 9 && size <= len(buf) - 9
//@   modifies buf[..]
//@   ensures err == nil && k == List && ts == n && cs == size

func verifLemmaListHeadRoundTrip(buf []byte, size uint64) (n int, k Kind, ts, cs uint64, err error) {
	n = puthead(buf, 0xC0, 0xF7, size)
	k, ts, cs, err = readKind(buf)
	return
}

// Decoding the canonical encoding of an integer gives the integer back, with nothing left over.
//@ func verifLemmaUint64RoundTrip(i uint64) (x uint64, rest []byte, err error)
//@   serves C01
//@   ensures err == nil && x == i && len(rest) == 0

func verifLemmaUint64RoundTrip(i uint64) (x uint64, rest []byte, err error) {
	return SplitUint64(AppendUint64(nil, i))
}

// ---- streaming decoder: the same canonical-form rules, as conditions every accepted value meets

//@ pure func pow256(n int) int { return ite(n <= 0, 1, ite(n == 1, 256, ite(n == 2, 65536, ite(n == 3, 16777216, ite(n == 4, 4294967296, ite(n == 5, 1099511627776, ite(n == 6, 281474976710656, ite(n == 7, 72057594037927936, 18446744073709551616)))))))) }

//@ func (s *Stream) listLimit() (inList bool, limit uint64)
//@   serves C01
//@   ensures inList == (len(s.stack) > 0)
//@   ensures inList ==> limit == s.stack[len(s.stack) - 1]

//@ func (s *Stream) willRead(n uint64) (err error)
//@   serves C01
//@   modifies s.kind, s.remaining, s.stack[..]
//@   ensures len(s.stack) == old(len(s.stack))

//@ func (s *Stream) readByte() (b byte, err error)
//@   serves C01
//@   modifies s.kind, s.remaining, s.stack[..]
//@   mutates
//@   ensures len(s.stack) == old(len(s.stack))

//@ func (s *Stream) readFull(buf []byte) (err error)
//@   serves C01
//@   modifies s.kind, s.remaining, s.stack[..], buf[0:len(buf)]
//@   mutates
//@   loop 1 "n < len(buf) && err == nil"
//@     assume-invariant 0 <= n && n <= len(buf)

// readUint: a multi-byte big-endian number is accepted only without a leading zero byte.
//@ func (s *Stream) readUint(size byte) (v uint64, err error)
//@   serves C01
//@   requires size <= 8
//@   modifies *s, s.stack[..]
//@   mutates
//@   ensures err == nil && size == 2 ==> 256 <= v && v < 65536
//@   ensures err == nil && size == 3 ==> 65536 <= v && v < 16777216
//@   ensures err == nil && size == 4 ==> 16777216 <= v && v < 4294967296
//@   ensures err == nil && size == 5 ==> 4294967296 <= v && v < 1099511627776
//@   ensures err == nil && size == 6 ==> 1099511627776 <= v && v < 281474976710656
//@   ensures err == nil && size == 7 ==> 281474976710656 <= v && v < 72057594037927936
//@   ensures err == nil && size == 8 ==> 72057594037927936 <= v && v < 18446744073709551616
//@   ensures err == nil && size == 1 ==> v < 256
//@   ensures err == nil && size == 0 ==> v == 0
//@   ensures s.stack == old(s.stack)

// readKind: long-form headers are accepted only with a size of at least 56 (and, through
// readUint, without leading zero bytes); short forms carry the size in the tag.
//@ func (s *Stream) readKind() (kind Kind, size uint64, err error)
//@   serves C01
//@   modifies *s, s.stack[..]
//@   mutates
//@   ghostvar tag int = 0
//@   oncall readByte: tag = result0
//@   ensures s.stack == old(s.stack)
//@   ensures err == nil ==> kind == ite(tag < 128, Byte, ite(tag < 192, String, List))
//@   ensures err == nil && tag < 128 ==> size == 0 && s.byteval == tag
//@   ensures err == nil && 128 <= tag && tag < 184 ==> size == tag - 128
//@   ensures err == nil && 184 <= tag && tag < 192 ==> size >= 56 && (tag - 183 >= 2 ==> size >= pow256(tag - 183 - 1))
//@   ensures err == nil && 192 <= tag && tag < 248 ==> size == tag - 192
//@   ensures err == nil && 248 <= tag ==> size >= 56 && (tag - 247 >= 2 ==> size >= pow256(tag - 247 - 1))

// Kind reads the next header once and caches it.
//@ func (s *Stream) Kind() (kind Kind, size uint64, err error)
//@   serves C01
//@   modifies *s, s.stack[..]
//@   mutates
//@   ensures s.stack == old(s.stack)
//@   ensures err != EOL ==> kind == s.kind && size == s.size && err == s.kinderr

// Bytes / ReadBytes: a one-byte string below 0x80 (which must be encoded as the byte itself) is rejected.
//@ func (s *Stream) Bytes() (out []byte, err error)
//@   serves C01
//@   modifies *s, s.stack[..]
//@   mutates
//@   ghostvar k int = 0
//@   oncall Kind: k = result0
//@   ensures err == nil && k == String && len(out) == 1 ==> out[0] >= 128
//@   ensures err == nil ==> k == Byte || k == String

//@ func (s *Stream) ReadBytes(b []byte) (err error)
//@   serves C01
//@   modifies *s, s.stack[..], b[..]
//@   mutates
//@   ghostvar k int = 0
//@   oncall Kind: k = result0
//@   ensures err == nil && k == String && len(b) == 1 ==> b[0] >= 128
//@   ensures err == nil ==> k == Byte || k == String

// uint: integers are accepted only in their shortest form: no leading zero byte, a single byte
// below 0x80 never as a string, zero never as the byte 0x00.
//@ func (s *Stream) uint(maxbits int) (v uint64, err error)
//@   serves C01
//@   requires 0 <= maxbits && maxbits <= 64
//@   modifies *s, s.stack[..]
//@   mutates
//@   ghostvar k int = 0
//@   ghostvar sz int = 0
//@   oncall Kind: k = result0; sz = result1
//@   ensures err == nil && k == Byte ==> v != 0 && v == s.byteval
//@   ensures err == nil && k == String ==> sz <= maxbits / 8 && (sz >= 1 ==> v >= 128) && (sz >= 2 ==> v >= pow256(sz - 1)) && (sz == 0 ==> v == 0)
//@   ensures err == nil ==> k == Byte || k == String

// decodeBigInt / ReadUint256: what reaches SetBytes is the shortest form - never a leading zero
// byte, a single byte below 0x80 only when it came as the byte itself, exactly the announced
// number of bytes; a list is refused, and a uint256 longer than 32 bytes is refused.
//@ func (s *Stream) decodeBigInt(dst *big.Int) (err error)
//@   serves C01
//@   mutates
//@   noframe
//@   ghostvar k int = 0
//@   ghostvar sz int = 0
//@   ghostvar set bool = false
//@   oncall Kind: k = result0; sz = result1
//@   oncall SetBytes: set = true
//@   atcall SetBytes requires len(arg2) > 0 ==> arg2[0] != 0
//@   atcall SetBytes requires k == Byte ==> len(arg2) == 1
//@   atcall SetBytes requires k == String ==> len(arg2) == sz && (sz == 1 ==> arg2[0] >= 128)
//@   ensures err == nil ==> k != List && set

//@ func (s *Stream) ReadUint256(dst *uint256.Int) (err error)
//@   serves C01
//@   mutates
//@   noframe
//@   ghostvar k int = 0
//@   ghostvar sz int = 0
//@   ghostvar set bool = false
//@   oncall Kind: k = result0; sz = result1
//@   oncall SetBytes: set = true
//@   atcall SetBytes requires len(arg2) > 0 ==> arg2[0] != 0
//@   atcall SetBytes requires k == Byte ==> len(arg2) == 1
//@   atcall SetBytes requires k == String ==> len(arg2) == sz && sz <= 32 && (sz == 1 ==> arg2[0] >= 128)
//@   ensures err == nil ==> k != List && set
