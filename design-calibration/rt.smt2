; lemma compactToHex(hexToCompact(h)) == h, element-wise contracts, Int model
(set-logic ALL)
(declare-const h (Array Int Int)) (declare-const hl Int)   ; input hex, length hl
(declare-const c (Array Int Int)) (declare-const cl Int)   ; compact
(declare-const b (Array Int Int)) (declare-const bl Int)   ; base = keybytesToHex(c)
(assert (>= hl 0))
; validHex
(define-fun term () Bool (and (> hl 0) (= (select h (- hl 1)) 16)))
(define-fun n () Int (ite term (- hl 1) hl))          ; nibble count
(assert (forall ((k Int)) (! (=> (and (<= 0 k) (< k n)) (and (<= 0 (select h k)) (< (select h k) 16))) :pattern ((select h k)))))
(define-fun odd () Int (mod n 2))
; hexToCompact contract
(assert (= cl (+ (div n 2) 1)))
(assert (= (select c 0) (+ (* 32 (ite term 1 0)) (* 16 odd) (ite (= odd 1) (select h 0) 0))))
(assert (forall ((k Int)) (! (=> (and (<= 1 k) (< k cl)) (= (select c k) (+ (* 16 (select h (+ (* 2 k) (- 2) odd))) (select h (+ (* 2 k) (- 1) odd))))) :pattern ((select c k)))))
; keybytesToHex contract
(assert (= bl (+ (* 2 cl) 1)))
(assert (forall ((i Int)) (! (=> (and (<= 0 i) (< i cl)) (and (= (select b (* 2 i)) (div (select c i) 16)) (= (select b (+ (* 2 i) 1)) (mod (select c i) 16)))) :pattern ((select c i)))))
(assert (= (select b (* 2 cl)) 16))
; compactToHex body (straight-line after the call)
(define-fun bl2 () Int (ite (< (select b 0) 2) (- bl 1) bl))
(define-fun chop () Int (- 2 (mod (select b 0) 2)))
(define-fun rl () Int (- bl2 chop))
(declare-const j Int)
(assert (and (<= 0 j) (< j hl)))
; explicit instantiation at goal terms: index of c used for result[j] is (j+chop) div 2
(define-fun ci () Int (div (+ j chop) 2))
(assert (=> (and (<= 1 ci) (< ci cl)) (= (select c ci) (+ (* 16 (select h (+ (* 2 ci) (- 2) odd))) (select h (+ (* 2 ci) (- 1) odd))))))
(assert (=> (and (<= 0 ci) (< ci cl)) (and (= (select b (* 2 ci)) (div (select c ci) 16)) (= (select b (+ (* 2 ci) 1)) (mod (select c ci) 16)))))
(assert (and (= (select b 0) (div (select c 0) 16)) (= (select b 1) (mod (select c 0) 16))))
(assert (not (and (= rl hl) (= (select b (+ j chop)) (select h j)))))
(check-sat)
