(set-logic ALL)
(declare-const bits (Array (_ BitVec 64) (_ BitVec 8)))
(declare-const pos (_ BitVec 64))
(declare-const n (_ BitVec 64))
(declare-const flag (_ BitVec 16))
(declare-const blen (_ BitVec 64))
(define-fun idx ((p (_ BitVec 64))) (_ BitVec 64) (bvlshr p #x0000000000000003))
(define-fun sh ((p (_ BitVec 64))) (_ BitVec 8) ((_ extract 7 0) (bvand p #x0000000000000007)))
(define-fun bit ((a (Array (_ BitVec 64) (_ BitVec 8))) (p (_ BitVec 64))) Bool
  (= #x01 (bvand #x01 (bvlshr (select a (idx p)) (sh p)))))
; pre: 2<=n<=7, flag = 2^n-1, pos small (no wrap), bounds
(assert (and (bvuge n #x0000000000000002) (bvule n #x0000000000000007)))
(assert (= flag (bvsub (bvshl #x0001 ((_ extract 15 0) n)) #x0001)))
(assert (bvult pos #x0fffffffffffffff))
(assert (bvult (bvadd (idx pos) #x0000000000000001) blen))
; pre: zero tail (byte-level)
(assert (= #x00 (bvlshr (select bits (idx pos)) (sh pos))))
(assert (forall ((k (_ BitVec 64))) (! (=> (bvugt k (idx pos)) (= (select bits k) #x00)) :pattern ((select bits k)))))
; body of setN
(define-fun a () (_ BitVec 16) (bvshl flag ((_ zero_extend 8) (sh pos))))
(define-fun b1 () (Array (_ BitVec 64) (_ BitVec 8)) (store bits (idx pos) (bvor (select bits (idx pos)) ((_ extract 7 0) a))))
(define-fun hb () (_ BitVec 8) ((_ extract 15 8) a))
(define-fun b2 () (Array (_ BitVec 64) (_ BitVec 8)) (ite (not (= hb #x00)) (store b1 (bvadd (idx pos) #x0000000000000001) hb) b1))
(declare-const q (_ BitVec 64))
(define-fun e () (_ BitVec 64) (bvadd pos n))
(assert (not (and
  ; functional: bit q
  (=> (bvult q pos) (= (bit b2 q) (bit bits q)))
  (=> (and (bvuge q pos) (bvult q e)) (bit b2 q))
  ; zero tail after e
  (= #x00 (bvlshr (select b2 (idx e)) (sh e)))
  (=> (bvugt q (idx e)) (= (select b2 q) #x00))
)))
(check-sat)
