(set-logic ALL)
(define-sort P () (_ BitVec 64))
(define-sort BA () (Array P (_ BitVec 8)))
(declare-const code BA) (declare-const clen P)
(declare-const bits BA) (declare-const bits2 BA)
(declare-const pc P)
(define-fun idx ((p P)) P (bvlshr p #x0000000000000003))
(define-fun sh ((p P)) (_ BitVec 8) ((_ extract 7 0) (bvand p #x0000000000000007)))
(define-fun bit ((a BA) (p P)) Bool (= #x01 (bvand #x01 (bvlshr (select a (idx p)) (sh p)))))
(define-fun ztail ((a BA) (p P)) Bool (and (= #x00 (bvlshr (select a (idx p)) (sh p)))
   (forall ((k P)) (! (=> (bvugt k (idx p)) (= (select a k) #x00)) :pattern ((select a k))))))
(define-fun pushlen ((op (_ BitVec 8))) P
  (ite (and (bvuge op #x60) (bvule op #x7f)) (bvadd ((_ zero_extend 56) (bvsub op #x60)) #x0000000000000001) #x0000000000000000))
(define-fun-rec isData ((s P) (q P)) Bool
  (ite (bvuge s clen) false
  (ite (= q s) false
  (ite (and (bvugt q s) (bvule q (bvadd s (pushlen (select code s))))) true
       (isData (bvadd s #x0000000000000001 (pushlen (select code s))) q)))))
(assert (bvult clen #x0000000100000000))
(assert (bvult pc clen))
; invariant at head
(assert (forall ((q P)) (! (=> (and (bvult q pc) (bvult q clen)) (= (bit bits q) (isData #x0000000000000000 q))) :pattern ((isData #x0000000000000000 q)))))
(assert (forall ((q P)) (! (=> (bvuge q pc) (= (isData #x0000000000000000 q) (isData pc q))) :pattern ((isData #x0000000000000000 q)))))
(assert (ztail bits pc))
; this iteration: op is PUSH2..PUSH7
(define-fun op () (_ BitVec 8) (select code pc))
(define-fun n () P (pushlen op))
(assert (and (bvuge n #x0000000000000002) (bvule n #x0000000000000007)))
(define-fun pc1 () P (bvadd pc #x0000000000000001))
(define-fun pc2 () P (bvadd pc1 n))
; setN contract (post) as hypotheses
(assert (forall ((q P)) (! (=> (bvult q pc1) (= (bit bits2 q) (bit bits q))) :pattern ((bit bits2 q)))))
(assert (forall ((q P)) (! (=> (and (bvuge q pc1) (bvult q pc2)) (bit bits2 q)) :pattern ((bit bits2 q)))))
(assert (ztail bits2 pc2))
(declare-const q0 P)

; explicit instances at q0
(assert (=> (and (bvult q0 pc) (bvult q0 clen)) (= (bit bits q0) (isData #x0000000000000000 q0))))
(assert (=> (bvuge q0 pc) (= (isData #x0000000000000000 q0) (isData pc q0))))
(assert (=> (bvult q0 pc1) (= (bit bits2 q0) (bit bits q0))))
(assert (=> (and (bvuge q0 pc1) (bvult q0 pc2)) (bit bits2 q0)))
(assert (bvuge q0 pc1)) (assert (bvult q0 pc2)) (assert (bvult q0 clen)) (assert (not (= (bit bits2 q0) (isData #x0000000000000000 q0))))
(check-sat)
