package main

// Library models (assumed contracts on dependencies).

import (
	"go/types"

	"golang.org/x/tools/go/ssa"
)

// libModel handles calls to known library functions; returns false if none applies.
func (vc *FnVC) libModel(in *ssa.Call, callee *ssa.Function) bool {
	return false
}

// ifaceModel handles interface method calls with a model.
func (vc *FnVC) ifaceModel(in *ssa.Call) bool {
	return false
}

// globalModel adds facts about well-known package-level variables.
func (p *Prog) globalModel(vc *FnVC, o *types.Var, name string) {
}
