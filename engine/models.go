package main

// Library models (assumed contracts on dependencies): math/big.Int,
// holiman/uint256.Int, common/math, math/bits, encoding/binary.
// Each model is listed in the evidence of every property that uses it.

import (
	"fmt"
	"go/types"
	"strings"

	"golang.org/x/tools/go/ssa"
)

const two256 = "115792089237316195423570985008687907853269984665640564039457584007913129639936"
const two64 = "18446744073709551616"

func (vc *FnVC) cellGet(comp, ref string) string {
	return vc.readCell(comp, "(Array Int Int)", ref)
}

func (vc *FnVC) cellSet(comp, ref, val string, in *ssa.Call, what string) {
	vc.checkWrite(comp, ref, "", what, in.Pos())
	vc.writeCell(comp, "(Array Int Int)", ref, val)
}

func (vc *FnVC) setRes(in *ssa.Call, terms ...Term) {
	vc.setCallResult(in, terms)
}

func (vc *FnVC) modelUsed(name string) {
	vc.havocked[name+" [library model]"] = true
}

// defineNamed introduces a named constant equal to term (keeps queries readable).
func (vc *FnVC) defineNamed(prefix, sort, term string) string {
	n := vc.freshConst(prefix, sort)
	vc.fact(fmt.Sprintf("(= %s %s)", n, term))
	return n
}

func (vc *FnVC) libModel(in *ssa.Call, callee *ssa.Function) bool {
	name := callee.String()
	args := in.Call.Args
	a := func(i int) string { return vc.val(args[i]).S }
	intT := func(s string) Term { return Term{S: s, Sort: "Int"} }
	boolT := func(s string) Term { return Term{S: s, Sort: "Bool"} }
	switch {
	case strings.HasPrefix(name, "(*github.com/holiman/uint256.Int)."):
		m := strings.TrimPrefix(name, "(*github.com/holiman/uint256.Int).")
		return vc.u256Method(in, m, args)
	case strings.HasPrefix(name, "github.com/holiman/uint256."):
		m := strings.TrimPrefix(name, "github.com/holiman/uint256.")
		switch m {
		case "NewInt":
			r := vc.newAllocRef("u256")
			vc.cellSet("U256", r, a(0), in, "new uint256")
			vc.setRes(in, intT(r))
			vc.modelUsed(name)
			return true
		case "FromBig", "MustFromBig":
			r := vc.newAllocRef("u256")
			b := vc.cellGet("BigVal", a(0))
			vc.cellSet("U256", r, fmt.Sprintf("(mod %s %s)", b, two256), in, "new uint256")
			ovf := fmt.Sprintf("(or (>= %s %s) (<= %s (- %s)))", b, two256, b, two256)
			if m == "FromBig" {
				vc.setRes(in, intT(r), boolT(vc.defineNamed("ovf", "Bool", ovf)))
			} else {
				vc.obAssert("bounds", "panic@"+vc.srcText(in), "MustFromBig argument fits 256 bits", "(not "+ovf+")", in.Pos())
				vc.setRes(in, intT(r))
			}
			vc.modelUsed(name)
			return true
		}
	case name == "encoding/binary.AppendUvarint":
		// appends between 1 and 10 bytes (exactly one when x < 128); the prefix is preserved;
		// in place when the capacity suffices, otherwise a new backing array. The bytes
		// themselves are not modelled.
		s := vc.val(args[0])
		x := a(1)
		k := vc.freshConst("uvlen", "Int")
		vc.fact(fmt.Sprintf("(and (<= 1 %s) (<= %s 10) (= (= %s 1) (< %s 128)))", k, k, k, x))
		c, srt := vc.elemComp(types.Typ[types.Uint8])
		h := vc.heapGet(c, srt)
		newLen := fmt.Sprintf("(+ (s.len %s) %s)", s.S, k)
		fits := fmt.Sprintf("(<= %s (s.cap %s))", newLen, s.S)
		farr := vc.newAllocRef("uv$" + mangle(in.Name()))
		fcap := vc.freshConst("uvcap", "Int")
		vc.fact(fmt.Sprintf("(and (>= %s %s) (<= %s 281474976710656))", fcap, newLen, fcap))
		r := vc.defineNamed("uvapp", "Slice", fmt.Sprintf("(ite %s (mkSlice (s.arr %s) (s.off %s) %s (s.cap %s)) (mkSlice %s 0 %s %s))", fits, s.S, s.S, newLen, s.S, farr, newLen, fcap))
		if !vc.rootIsFresh(fmt.Sprintf("(s.arr %s)", s.S)) && vc.fc != nil {
			vc.checkRangeWrite(modItem{text: "binary.AppendUvarint (in place)", kind: "range", ref: fmt.Sprintf("(s.arr %s)", s.S), comp: c, elem: types.Typ[types.Uint8],
				lo: fmt.Sprintf("(ite %s (+ (s.off %s) (s.len %s)) 0)", fits, s.S, s.S), hi: fmt.Sprintf("(ite %s (+ (s.off %s) %s) 0)", fits, s.S, newLen)}, in.Pos())
		}
		f := vc.freshConst("uvd", "(Array Int Int)")
		oldS := fmt.Sprintf("(select %s (s.arr %s))", h, s.S)
		off := fmt.Sprintf("(s.off %s)", r)
		// result array: the old elements where they were (in place) or copied to the front (grown)
		vc.fact(fmt.Sprintf("(forall ((i Int)) (! (and (<= 0 (select %s i)) (<= (select %s i) 255) (=> (and (<= %s i) (< i (+ %s (s.len %s)))) (= (select %s i) (select %s (+ (s.off %s) (- i %s))))) (=> (and %s (or (< i %s) (>= i (+ %s %s)))) (= (select %s i) (select %s i)))) :pattern ((select %s i))))",
			f, f, off, off, s.S, f, oldS, s.S, off, fits, off, off, newLen, f, oldS, f))
		vc.heapSet(c, srt, fmt.Sprintf("(store %s (s.arr %s) %s)", h, r, f))
		vc.setRes(in, Term{S: r, Sort: "Slice", T: in.Type()})
		vc.modelUsed(name)
		return true
	case name == "sort.Search":
		// sort.Search(n, f): binary search; whatever f does, the result r satisfies 0 <= r <= n
		// (n < 0 yields 0). With a straight-line predicate closure the two facts binary search
		// establishes are added as well: f(r) when r < n, and !f(r-1) when r > 0.
		n := a(0)
		r := vc.freshConst("srch", "Int")
		vc.fact(fmt.Sprintf("(and (<= 0 %s) (<= %s (ite (>= %s 0) %s 0)))", r, r, n, n))
		vc.setRes(in, intT(r))
		if mc, ok := args[1].(*ssa.MakeClosure); ok {
			if fn, ok := mc.Fn.(*ssa.Function); ok && vc.prog.closureIsEffectFree(fn) {
				saved := vc.curReach
				vc.curReach = fmt.Sprintf("(and %s (< %s %s))", saved, r, n)
				if res, ok := vc.inlineSingleBlock(fn, []Term{intT(r)}, mc.Bindings); ok && len(res) == 1 {
					vc.fact(fmt.Sprintf("(=> %s %s)", vc.curReach, res[0].S))
				}
				r1 := vc.defineNamed("srchprev", "Int", fmt.Sprintf("(- %s 1)", r))
				vc.curReach = fmt.Sprintf("(and %s (> %s 0))", saved, r)
				if res, ok := vc.inlineSingleBlock(fn, []Term{intT(r1)}, mc.Bindings); ok && len(res) == 1 {
					vc.fact(fmt.Sprintf("(=> %s (not %s))", vc.curReach, res[0].S))
				}
				vc.curReach = saved
			}
		}
		vc.assume("sort.Search returns an index in [0,n] with f(index) true (if < n) and f(index-1) false (if > 0); the predicate closure is evaluated on the current state")
		vc.modelUsed(name)
		return true
	case name == "errors.Is":
		// the same uninterpreted relation the spec builtin iserr(e, target) uses
		vc.setRes(in, boolT(vc.defineNamed("eis", "Bool", vc.errorsIs(a(0), a(1)))))
		vc.modelUsed(name)
		return true
	case strings.HasPrefix(name, "slices.Grow["):
		// slices.Grow(s, n): same slice when cap-len >= n, otherwise a new backing array with
		// the same elements; length unchanged, capacity at least len+n (panics for n < 0).
		s := vc.val(args[0])
		st, ok := args[0].Type().Underlying().(*types.Slice)
		if !ok {
			return false
		}
		n := a(1)
		vc.obAssert("bounds", "panic@"+vc.srcText(in), "slices.Grow count is non-negative", fmt.Sprintf("(>= %s 0)", n), in.Pos())
		fits := fmt.Sprintf("(>= (- (s.cap %s) (s.len %s)) %s)", s.S, s.S, n)
		farr := vc.newAllocRef("grow$" + mangle(in.Name()))
		fcap := vc.freshConst("growcap", "Int")
		vc.fact(fmt.Sprintf("(and (>= %s (+ (s.len %s) %s)) (<= %s 281474976710656))", fcap, s.S, n, fcap))
		res := fmt.Sprintf("(ite %s %s (mkSlice %s 0 (s.len %s) %s))", fits, s.S, farr, s.S, fcap)
		r := vc.defineNamed("grown", "Slice", res)
		el := st.Elem()
		if isObjectType(el) {
			rg := objRegion{fmt.Sprintf("(not %s)", fits), farr, "0", fmt.Sprintf("(s.len %s)", s.S), fmt.Sprintf("(s.arr %s)", s.S), fmt.Sprintf("(s.off %s)", s.S)}
			if !vc.copyObjRegions(el, []objRegion{rg}) {
				return false
			}
		} else {
			c, srt := vc.elemComp(el)
			h := vc.heapGet(c, srt)
			f := vc.freshConst("grw", "(Array Int "+vc.sortOf(el)+")")
			vc.fact(fmt.Sprintf("(forall ((i Int)) (! (=> (and (<= 0 i) (< i (s.len %s))) (= (select %s i) (select (select %s (s.arr %s)) (+ (s.off %s) i)))) :pattern ((select %s i))))", s.S, f, h, s.S, s.S, f))
			vc.heapSet(c, srt, fmt.Sprintf("(store %s %s %s)", h, farr, f))
		}
		vc.setRes(in, Term{S: r, Sort: "Slice", T: in.Type()})
		vc.assume("slices.Grow returns its argument when the spare capacity suffices and otherwise a new backing array holding the same elements")
		vc.modelUsed(name)
		return true
	case strings.HasPrefix(name, "(*math/big.Int)."):
		m := strings.TrimPrefix(name, "(*math/big.Int).")
		return vc.bigMethod(in, m, args)
	case name == "math/big.NewInt":
		r := vc.newAllocRef("big")
		vc.cellSet("BigVal", r, a(0), in, "new big.Int")
		vc.setRes(in, intT(r))
		vc.modelUsed(name)
		return true
	case strings.HasPrefix(name, "github.com/ethereum/go-ethereum/common/math."):
		m := strings.TrimPrefix(name, "github.com/ethereum/go-ethereum/common/math.")
		switch m {
		case "SafeAdd":
			s := fmt.Sprintf("(+ %s %s)", a(0), a(1))
			vc.setRes(in, intT(vc.defineNamed("sadd", "Int", fmt.Sprintf("(mod %s %s)", s, two64))), boolT(vc.defineNamed("ovf", "Bool", fmt.Sprintf("(>= %s %s)", s, two64))))
			vc.modelUsed(name)
			return true
		case "SafeSub":
			vc.setRes(in, intT(vc.defineNamed("ssub", "Int", fmt.Sprintf("(mod (- %s %s) %s)", a(0), a(1), two64))), boolT(vc.defineNamed("ovf", "Bool", fmt.Sprintf("(< %s %s)", a(0), a(1)))))
			vc.modelUsed(name)
			return true
		case "SafeMul":
			p := vc.arith("*", a(0), a(1))
			vc.setRes(in, intT(vc.defineNamed("smul", "Int", fmt.Sprintf("(mod %s %s)", p, two64))), boolT(vc.defineNamed("ovf", "Bool", fmt.Sprintf("(>= %s %s)", p, two64))))
			vc.modelUsed(name)
			return true
		}
	case strings.HasPrefix(name, "math/bits."):
		m := strings.TrimPrefix(name, "math/bits.")
		switch m {
		case "Add64":
			s := fmt.Sprintf("(+ %s %s %s)", a(0), a(1), a(2))
			vc.setRes(in, intT(vc.defineNamed("add64", "Int", fmt.Sprintf("(mod %s %s)", s, two64))), intT(vc.defineNamed("carry", "Int", fmt.Sprintf("(div %s %s)", s, two64))))
			vc.modelUsed(name)
			return true
		case "Sub64":
			d := fmt.Sprintf("(- (- %s %s) %s)", a(0), a(1), a(2))
			vc.setRes(in, intT(vc.defineNamed("sub64", "Int", fmt.Sprintf("(mod %s %s)", d, two64))), intT(vc.defineNamed("borrow", "Int", fmt.Sprintf("(ite (< %s 0) 1 0)", d))))
			vc.modelUsed(name)
			return true
		case "Mul64":
			p := vc.arith("*", a(0), a(1))
			vc.setRes(in, intT(vc.defineNamed("mulhi", "Int", fmt.Sprintf("(div %s %s)", p, two64))), intT(vc.defineNamed("mullo", "Int", fmt.Sprintf("(mod %s %s)", p, two64))))
			vc.modelUsed(name)
			return true
		case "Len64", "Len", "Len32", "Len8", "Len16":
			r := vc.freshConst("blen", "Int")
			x := a(0)
			vc.fact(fmt.Sprintf("(and (>= %s 0) (<= %s 64) (= (= %s 0) (= %s 0)))", r, r, r, x))
			// 2^(len-1) <= x < 2^len, spelled out per value (no recursive power function)
			for k := 1; k <= 64; k++ {
				vc.fact(fmt.Sprintf("(=> (= %s %d) (and (<= %s %s) (< %s %s)))", r, k, pow2(k-1).String(), x, x, pow2(k).String()))
			}
			vc.setRes(in, intT(r))
			vc.modelUsed(name)
			return true
		case "LeadingZeros64":
			r := vc.freshConst("lz", "Int")
			x := a(0)
			vc.fact(fmt.Sprintf("(and (>= %s 0) (<= %s 64) (= (= %s 64) (= %s 0)))", r, r, r, x))
			// 2^(63-lz) <= x < 2^(64-lz), spelled out per value (no recursive power function)
			for k := 0; k <= 63; k++ {
				vc.fact(fmt.Sprintf("(=> (= %s %d) (and (<= %s %s) (< %s %s)))", r, k, pow2(63-k).String(), x, x, pow2(64-k).String()))
			}
			vc.setRes(in, intT(r))
			vc.modelUsed(name)
			return true
		}
	case name == "github.com/ethereum/go-ethereum/crypto.Keccak256":
		// the hash value is abstract; the result is a fresh 32-byte slice, inputs are only read
		arr := vc.newAllocRef("keccak$" + mangle(in.Name()))
		c, s := vc.elemComp(types.Typ[types.Uint8])
		f := vc.freshConst("hasharr", "(Array Int Int)")
		vc.fact(fmt.Sprintf("(forall ((i Int)) (! (and (<= 0 (select %s i)) (<= (select %s i) 255)) :pattern ((select %s i))))", f, f, f))
		vc.heapSet(c, s, fmt.Sprintf("(store %s %s %s)", vc.heapGet(c, s), arr, f))
		vc.setRes(in, Term{S: fmt.Sprintf("(mkSlice %s 0 32 32)", arr), Sort: "Slice"})
		vc.modelUsed(name)
		return true
	case name == "io.ReadAtLeast" || name == "io.ReadFull":
		// reads n bytes into buf[0:n]; err == nil iff at least min bytes were read; bytes of the
		// backing array outside buf are untouched
		buf := vc.val(args[1])
		minT := fmt.Sprintf("(s.len %s)", buf.S)
		if name == "io.ReadAtLeast" {
			minT = vc.val(args[2]).S
		}
		c, s := vc.elemComp(types.Typ[types.Uint8])
		arr := fmt.Sprintf("(s.arr %s)", buf.S)
		lo := fmt.Sprintf("(s.off %s)", buf.S)
		hi := fmt.Sprintf("(+ (s.off %s) (s.len %s))", buf.S, buf.S)
		vc.checkRangeWrite(modItem{text: name + " buffer", kind: "range", ref: arr, comp: c, lo: lo, hi: hi, elem: types.Typ[types.Uint8]}, in.Pos())
		f := vc.freshConst("rd", "(Array Int Int)")
		old := fmt.Sprintf("(select %s %s)", vc.heapGet(c, s), arr)
		vc.fact(fmt.Sprintf("(forall ((i Int)) (! (and (<= 0 (select %s i)) (<= (select %s i) 255) (=> (or (< i %s) (>= i %s)) (= (select %s i) (select %s i)))) :pattern ((select %s i))))", f, f, lo, hi, f, old, f))
		vc.heapSet(c, s, fmt.Sprintf("(store %s %s %s)", vc.heapGet(c, s), arr, f))
		n := vc.freshConst("rn", "Int")
		e := vc.freshConst("rerr", "Int")
		vc.fact(fmt.Sprintf("(and (>= %s 0) (<= %s (s.len %s)) (>= %s 0))", n, n, buf.S, e))
		vc.fact(fmt.Sprintf("(=> (= %s 0) (>= %s %s))", e, n, minT))
		vc.fact(fmt.Sprintf("(=> (not (= %s 0)) (< %s %s))", e, n, minT))
		vc.fact(fmt.Sprintf("(=> (> %s (s.len %s)) (not (= %s 0)))", minT, buf.S, e))
		vc.setRes(in, intT(n), intT(e))
		vc.modelUsed(name)
		return true
	case name == "bytes.Count":
		// only the single-byte separator form is modelled exactly
		s, sep := vc.val(args[0]), vc.val(args[1])
		h := vc.heapGet("E$uint8", "(Array Int (Array Int Int))")
		vc.elemComp(types.Typ[types.Uint8])
		sepByte := fmt.Sprintf("(select (select %s (s.arr %s)) (s.off %s))", h, sep.S, sep.S)
		cnt := vc.byteCountTerm(h, s.S, sepByte)
		r := vc.freshConst("bcount", "Int")
		vc.fact(fmt.Sprintf("(and (>= %s 0) (<= %s (+ (s.len %s) 1)))", r, r, s.S))
		vc.fact(fmt.Sprintf("(=> (= (s.len %s) 1) (and (= %s %s) (<= %s (s.len %s))))", sep.S, r, cnt, r, s.S))
		vc.setRes(in, intT(r))
		vc.modelUsed(name)
		return true
	case strings.HasPrefix(name, "(encoding/binary.bigEndian).") || strings.HasPrefix(name, "(encoding/binary.littleEndian)."):
		return vc.binaryModel(in, name, args)
	}
	return false
}

func (vc *FnVC) u256Method(in *ssa.Call, m string, args []ssa.Value) bool {
	a := func(i int) string { return vc.val(args[i]).S }
	get := func(i int) string { return vc.cellGet("U256", a(i)) }
	intT := func(s string) Term { return Term{S: s, Sort: "Int"} }
	boolT := func(s string) Term { return Term{S: s, Sort: "Bool"} }
	z := a(0)
	name := "(*uint256.Int)." + m
	what := "*" + vc.valueText(args[0])
	set := func(v string) { vc.cellSet("U256", z, v, in, what) }
	ok := true
	switch m {
	case "SetUint64":
		set(a(1))
		vc.setRes(in, intT(z))
	case "Set":
		set(get(1))
		vc.setRes(in, intT(z))
	case "SetBytes1", "SetBytes2", "SetBytes3", "SetBytes4", "SetBytes5", "SetBytes6", "SetBytes7", "SetBytes8":
		// big-endian value of the first N bytes of the slice (the real method indexes them: bounds)
		n := int(m[len(m)-1] - '0')
		b := vc.val(args[1])
		c, s := vc.elemComp(types.Typ[types.Uint8])
		vc.obAssert("bounds", "bounds@"+vc.srcText(in), fmt.Sprintf("uint256.%s needs %d bytes", m, n), fmt.Sprintf("(>= (s.len %s) %d)", b.S, n), in.Pos())
		h := vc.heapGet(c, s)
		var parts []string
		for i := 0; i < n; i++ {
			parts = append(parts, fmt.Sprintf("(* (select (select %s (s.arr %s)) (+ (s.off %s) %d)) %s)", h, b.S, b.S, i, pow2(8*(n-1-i)).String()))
		}
		v := "(+ " + strings.Join(parts, " ") + " 0)"
		set(v)
		vc.setRes(in, intT(z))
	case "SetBytes":
		// z = big-endian value of the slice (same abstract function as for big.Int), reduced
		// modulo 2^256 (uint256 keeps the low 32 bytes of a longer slice)
		b := vc.val(args[1])
		c, s := vc.elemComp(types.Typ[types.Uint8])
		vc.decl("bebytes", "(declare-fun bebytes ((Array Int Int) Int Int) Int)")
		v := vc.defineNamed("bev", "Int", fmt.Sprintf("(bebytes (select %s (s.arr %s)) (s.off %s) (s.len %s))", vc.heapGet(c, s), b.S, b.S, b.S))
		vc.fact(fmt.Sprintf("(>= %s 0)", v))
		vc.fact(fmt.Sprintf("(=> (= (s.len %s) 0) (= %s 0))", b.S, v))
		vc.fact(fmt.Sprintf("(=> (= (s.len %s) 1) (= %s (select (select %s (s.arr %s)) (s.off %s))))", b.S, v, vc.heapGet(c, s), b.S, b.S))
		for _, k := range []int{1, 8, 20, 32} {
			vc.fact(fmt.Sprintf("(=> (<= (s.len %s) %d) (< %s %s))", b.S, k, v, pow2(8*k).String()))
		}
		set(fmt.Sprintf("(mod %s %s)", v, two256))
		vc.setRes(in, intT(z))
	case "SetOne":
		set("1")
		vc.setRes(in, intT(z))
	case "Clear":
		set("0")
		vc.setRes(in, intT(z))
	case "SetAllOne":
		set("(- " + two256 + " 1)")
		vc.setRes(in, intT(z))
	case "Clone":
		r := vc.newAllocRef("u256")
		vc.cellSet("U256", r, get(0), in, "clone")
		vc.setRes(in, intT(r))
	case "Add", "Sub", "Mul":
		op := map[string]string{"Add": "+", "Sub": "-", "Mul": "*"}[m]
		x, y := get(1), get(2)
		set(fmt.Sprintf("(mod %s %s)", vc.arith(op, x, y), two256))
		vc.setRes(in, intT(z))
	case "AddUint64", "SubUint64":
		op := map[string]string{"AddUint64": "+", "SubUint64": "-"}[m]
		x := get(1)
		set(fmt.Sprintf("(mod (%s %s %s) %s)", op, x, a(2), two256))
		vc.setRes(in, intT(z))
	case "AddOverflow", "MulOverflow", "SubOverflow":
		x, y := get(1), get(2)
		var raw, ovf string
		switch m {
		case "AddOverflow":
			raw = fmt.Sprintf("(+ %s %s)", x, y)
			ovf = fmt.Sprintf("(>= %s %s)", raw, two256)
		case "MulOverflow":
			raw = vc.arith("*", x, y)
			ovf = fmt.Sprintf("(>= %s %s)", raw, two256)
		case "SubOverflow":
			raw = fmt.Sprintf("(- %s %s)", x, y)
			ovf = fmt.Sprintf("(< %s %s)", x, y)
		}
		o := vc.defineNamed("ovf", "Bool", ovf)
		set(fmt.Sprintf("(mod %s %s)", raw, two256))
		vc.setRes(in, intT(z), boolT(o))
	case "Div", "Mod":
		x, y := get(1), get(2)
		op := "div"
		if m == "Mod" {
			op = "mod"
		}
		set(fmt.Sprintf("(ite (= %s 0) 0 (%s %s %s))", y, op, x, y))
		vc.setRes(in, intT(z))
	case "Lsh":
		x := get(1)
		set(fmt.Sprintf("(mod (* %s %s) %s)", x, vc.pow2Term(a(2)), two256))
		vc.setRes(in, intT(z))
	case "Rsh":
		x := get(1)
		set(fmt.Sprintf("(div %s %s)", x, vc.pow2Term(a(2))))
		vc.setRes(in, intT(z))
	case "Cmp":
		x, y := get(0), get(1)
		vc.setRes(in, intT(vc.defineNamed("cmp", "Int", fmt.Sprintf("(ite (< %s %s) (- 1) (ite (= %s %s) 0 1))", x, y, x, y))))
	case "CmpBig":
		x, y := get(0), vc.cellGet("BigVal", a(1))
		vc.setRes(in, intT(vc.defineNamed("cmp", "Int", fmt.Sprintf("(ite (< %s %s) (- 1) (ite (= %s %s) 0 1))", x, y, x, y))))
	case "CmpUint64":
		x, y := get(0), a(1)
		vc.setRes(in, intT(vc.defineNamed("cmp", "Int", fmt.Sprintf("(ite (< %s %s) (- 1) (ite (= %s %s) 0 1))", x, y, x, y))))
	case "Lt", "Gt", "Eq":
		op := map[string]string{"Lt": "<", "Gt": ">", "Eq": "="}[m]
		vc.setRes(in, boolT(vc.defineNamed("cmp", "Bool", fmt.Sprintf("(%s %s %s)", op, get(0), get(1)))))
	case "Slt", "Sgt":
		// signed (two's complement, 256 bit) comparison
		sv := func(x string) string {
			return fmt.Sprintf("(ite (>= %s %s) (- %s %s) %s)", x, pow2(255).String(), x, two256, x)
		}
		op := map[string]string{"Slt": "<", "Sgt": ">"}[m]
		vc.setRes(in, boolT(vc.defineNamed("scmp", "Bool", fmt.Sprintf("(%s %s %s)", op, sv(get(0)), sv(get(1))))))
	case "LtUint64", "GtUint64":
		op := map[string]string{"LtUint64": "<", "GtUint64": ">"}[m]
		vc.setRes(in, boolT(vc.defineNamed("cmp", "Bool", fmt.Sprintf("(%s %s %s)", op, get(0), a(1)))))
	case "IsZero":
		vc.setRes(in, boolT(vc.defineNamed("isz", "Bool", fmt.Sprintf("(= %s 0)", get(0)))))
	case "Sign":
		vc.setRes(in, intT(vc.defineNamed("sgn", "Int", fmt.Sprintf("(ite (= %s 0) 0 1)", get(0)))))
	case "IsUint64":
		vc.setRes(in, boolT(vc.defineNamed("isu64", "Bool", fmt.Sprintf("(< %s %s)", get(0), two64))))
	case "Uint64":
		vc.setRes(in, intT(vc.defineNamed("u64", "Int", fmt.Sprintf("(mod %s %s)", get(0), two64))))
	case "Uint64WithOverflow":
		vc.setRes(in, intT(vc.defineNamed("u64", "Int", fmt.Sprintf("(mod %s %s)", get(0), two64))), boolT(vc.defineNamed("ovf", "Bool", fmt.Sprintf("(>= %s %s)", get(0), two64))))
	case "ToBig":
		r := vc.newAllocRef("big")
		vc.cellSet("BigVal", r, get(0), in, "ToBig")
		vc.setRes(in, intT(r))
	case "SetFromBig":
		b := vc.cellGet("BigVal", a(1))
		ovf := vc.defineNamed("ovf", "Bool", fmt.Sprintf("(or (>= %s %s) (<= %s (- %s)))", b, two256, b, two256))
		set(fmt.Sprintf("(mod %s %s)", b, two256))
		vc.setRes(in, boolT(ovf))
	case "BitLen":
		r := vc.freshConst("blen", "Int")
		x := get(0)
		vc.fact(fmt.Sprintf("(and (>= %s 0) (<= %s 256) (= (= %s 0) (= %s 0)))", r, r, r, x))
		vc.setRes(in, intT(r))
	case "ByteLen":
		r := vc.freshConst("bylen", "Int")
		x := get(0)
		vc.fact(fmt.Sprintf("(and (>= %s 0) (<= %s 32) (= (= %s 0) (= %s 0)))", r, r, r, x))
		vc.setRes(in, intT(r))
	default:
		ok = false
	}
	if ok {
		vc.modelUsed(name)
	}
	return ok
}

func (vc *FnVC) bigMethod(in *ssa.Call, m string, args []ssa.Value) bool {
	a := func(i int) string { return vc.val(args[i]).S }
	get := func(i int) string { return vc.cellGet("BigVal", a(i)) }
	intT := func(s string) Term { return Term{S: s, Sort: "Int"} }
	boolT := func(s string) Term { return Term{S: s, Sort: "Bool"} }
	z := a(0)
	name := "(*big.Int)." + m
	what := "*" + vc.valueText(args[0])
	set := func(v string) { vc.cellSet("BigVal", z, v, in, what) }
	truncDiv := func(x, y string) string {
		return fmt.Sprintf("(ite (>= %s 0) (ite (> %s 0) (div %s %s) (- (div %s (- %s)))) (ite (> %s 0) (- (div (- %s) %s)) (div (- %s) (- %s))))", x, y, x, y, x, y, y, x, y, x, y)
	}
	ok := true
	switch m {
	case "Set":
		set(get(1))
		vc.setRes(in, intT(z))
	case "SetUint64", "SetInt64":
		set(a(1))
		vc.setRes(in, intT(z))
	case "Add", "Sub", "Mul":
		op := map[string]string{"Add": "+", "Sub": "-", "Mul": "*"}[m]
		x, y := get(1), get(2)
		set(vc.arith(op, x, y))
		vc.setRes(in, intT(z))
	case "Neg":
		set(fmt.Sprintf("(- %s)", get(1)))
		vc.setRes(in, intT(z))
	case "Abs":
		x := get(1)
		set(fmt.Sprintf("(ite (>= %s 0) %s (- %s))", x, x, x))
		vc.setRes(in, intT(z))
	case "Div", "Mod", "Quo", "Rem":
		x, y := get(1), get(2)
		vc.obAssert("bounds", "div-by-zero@"+vc.srcText(in), "big.Int division by zero panics", fmt.Sprintf("(not (= %s 0))", y), in.Pos())
		switch m {
		case "Div": // Euclidean division
			set(fmt.Sprintf("(div %s %s)", x, y))
		case "Mod":
			set(fmt.Sprintf("(mod %s %s)", x, y))
		case "Quo":
			set(truncDiv(x, y))
		case "Rem":
			set(fmt.Sprintf("(- %s (* %s %s))", x, y, truncDiv(x, y)))
		}
		vc.setRes(in, intT(z))
	case "Rsh":
		// arithmetic shift: floor division by 2^n
		x := get(1)
		if k, isC := isConstVal(args[2]); isC && k.IsInt64() && k.Int64() < 4096 {
			set(fmt.Sprintf("(div %s %s)", x, pow2(int(k.Int64())).String()))
		} else {
			set(fmt.Sprintf("(div %s %s)", x, vc.pow2Term(a(2))))
		}
		vc.setRes(in, intT(z))
	case "Lsh":
		x := get(1)
		if k, isC := isConstVal(args[2]); isC && k.IsInt64() && k.Int64() < 4096 {
			set(fmt.Sprintf("(* %s %s)", x, pow2(int(k.Int64())).String()))
		} else {
			set(fmt.Sprintf("(* %s %s)", x, vc.pow2Term(a(2))))
		}
		vc.setRes(in, intT(z))
	case "Cmp":
		x, y := get(0), get(1)
		vc.setRes(in, intT(vc.defineNamed("cmp", "Int", fmt.Sprintf("(ite (< %s %s) (- 1) (ite (= %s %s) 0 1))", x, y, x, y))))
	case "CmpAbs":
		x, y := get(0), get(1)
		ax := fmt.Sprintf("(ite (>= %s 0) %s (- %s))", x, x, x)
		ay := fmt.Sprintf("(ite (>= %s 0) %s (- %s))", y, y, y)
		vc.setRes(in, intT(vc.defineNamed("cmp", "Int", fmt.Sprintf("(ite (< %s %s) (- 1) (ite (= %s %s) 0 1))", ax, ay, ax, ay))))
	case "Sign":
		x := get(0)
		vc.setRes(in, intT(vc.defineNamed("sgn", "Int", fmt.Sprintf("(ite (< %s 0) (- 1) (ite (= %s 0) 0 1))", x, x))))
	case "IsUint64":
		x := get(0)
		vc.setRes(in, boolT(vc.defineNamed("isu64", "Bool", fmt.Sprintf("(and (>= %s 0) (< %s %s))", x, x, two64))))
	case "IsInt64":
		x := get(0)
		vc.setRes(in, boolT(vc.defineNamed("isi64", "Bool", fmt.Sprintf("(and (>= %s (- 9223372036854775808)) (<= %s 9223372036854775807))", x, x))))
	case "Uint64":
		x := get(0)
		// low 64 bits of |x| (undefined if not representable, per docs; the implementation returns the low word of the magnitude)
		vc.setRes(in, intT(vc.defineNamed("u64", "Int", fmt.Sprintf("(mod (ite (>= %s 0) %s (- %s)) %s)", x, x, x, two64))))
	case "Int64":
		x := get(0)
		r := vc.freshConst("i64", "Int")
		vc.fact(fmt.Sprintf("(and (>= %s (- 9223372036854775808)) (<= %s 9223372036854775807))", r, r))
		vc.fact(fmt.Sprintf("(=> (and (>= %s (- 9223372036854775808)) (<= %s 9223372036854775807)) (= %s %s))", x, x, r, x))
		vc.setRes(in, intT(r))
	case "Bytes":
		// big-endian bytes of |x|: fresh slice, minimal length; contents abstract (bebytes)
		x := get(0)
		ax := fmt.Sprintf("(ite (>= %s 0) %s (- %s))", x, x, x)
		arr := vc.newAllocRef("bytes$" + mangle(in.Name()))
		ln := vc.freshConst("blen", "Int")
		vc.fact(fmt.Sprintf("(and (>= %s 0) (= (= %s 0) (= %s 0)))", ln, ln, x))
		for _, k := range []int{1, 8, 20, 32, 64} {
			vc.fact(fmt.Sprintf("(= (<= %s %d) (< %s %s))", ln, k, ax, pow2(8*k).String()))
		}
		c, s := vc.elemComp(types.Typ[types.Uint8])
		vc.decl("bebytes", "(declare-fun bebytes ((Array Int Int) Int Int) Int)")
		cur := vc.heapGet(c, s)
		f := vc.freshConst("bytesarr", "(Array Int Int)")
		vc.fact(fmt.Sprintf("(forall ((i Int)) (! (and (<= 0 (select %s i)) (<= (select %s i) 255)) :pattern ((select %s i))))", f, f, f))
		vc.fact(fmt.Sprintf("(= (bebytes %s 0 %s) %s)", f, ln, ax))
		vc.heapSet(c, s, fmt.Sprintf("(store %s %s %s)", cur, arr, f))
		vc.setRes(in, Term{S: fmt.Sprintf("(mkSlice %s 0 %s %s)", arr, ln, ln), Sort: "Slice"})
	case "SetBytes":
		// z = big-endian value of the byte slice (abstract function bebytes with the facts
		// the code base relies on: non-negative, below 256^len, a single byte is itself)
		b := vc.val(args[1])
		c, s := vc.elemComp(types.Typ[types.Uint8])
		vc.decl("bebytes", "(declare-fun bebytes ((Array Int Int) Int Int) Int)")
		v := vc.defineNamed("bev", "Int", fmt.Sprintf("(bebytes (select %s (s.arr %s)) (s.off %s) (s.len %s))", vc.heapGet(c, s), b.S, b.S, b.S))
		vc.fact(fmt.Sprintf("(>= %s 0)", v))
		vc.fact(fmt.Sprintf("(=> (= (s.len %s) 0) (= %s 0))", b.S, v))
		vc.fact(fmt.Sprintf("(=> (= (s.len %s) 1) (= %s (select (select %s (s.arr %s)) (s.off %s))))", b.S, v, vc.heapGet(c, s), b.S, b.S))
		for _, k := range []int{1, 8, 20, 32, 64} {
			vc.fact(fmt.Sprintf("(=> (<= (s.len %s) %d) (< %s %s))", b.S, k, v, pow2(8*k).String()))
		}
		set(v)
		vc.setRes(in, intT(z))
	case "Bit":
		// x.Bit(i) for a constant i and non-negative x: bit i of the value (for negative x the
		// result is left arbitrary: two's complement of an unbounded integer is not modelled)
		i, isC := isConstVal(args[1])
		if !isC || !i.IsInt64() || i.Int64() < 0 || i.Int64() > 4096 {
			ok = false
			break
		}
		x := get(0)
		r := vc.freshConst("bit", "Int")
		vc.fact(fmt.Sprintf("(and (<= 0 %s) (<= %s 1) (=> (>= %s 0) (= %s (mod (div %s %s) 2))))", r, r, x, r, x, pow2(int(i.Int64())).String()))
		vc.setRes(in, intT(r))
	case "BitLen":
		r := vc.freshConst("blen", "Int")
		x := get(0)
		ax := fmt.Sprintf("(ite (>= %s 0) %s (- %s))", x, x, x)
		vc.fact(fmt.Sprintf("(and (>= %s 0) (= (= %s 0) (= %s 0)))", r, r, x))
		// the thresholds the code base tests against
		for _, k := range []int{8, 31, 32, 63, 64, 256} {
			vc.fact(fmt.Sprintf("(= (<= %s %d) (< %s %s))", r, k, ax, pow2(k).String()))
		}
		vc.setRes(in, intT(r))
	default:
		ok = false
	}
	if ok {
		vc.modelUsed(name)
	}
	return ok
}

// binaryModel: encoding/binary fixed-width accessors over byte slices.
func (vc *FnVC) binaryModel(in *ssa.Call, name string, args []ssa.Value) bool {
	big := strings.Contains(name, "bigEndian")
	m := name[strings.LastIndex(name, ".")+1:]
	widths := map[string]int{"Uint16": 2, "Uint32": 4, "Uint64": 8, "PutUint16": 2, "PutUint32": 4, "PutUint64": 8}
	w, ok := widths[m]
	if !ok {
		return false
	}
	// args[0] is the (empty struct) receiver
	b := vc.val(args[1])
	c, s := vc.elemComp(types.Typ[types.Uint8])
	src := vc.srcText(in)
	vc.obAssert("bounds", "bounds@"+src, fmt.Sprintf("binary.%s needs %d bytes", m, w), fmt.Sprintf("(>= (s.len %s) %d)", b.S, w), in.Pos())
	if strings.HasPrefix(m, "Put") {
		v := vc.val(args[2]).S
		h := vc.heapGet(c, s)
		arr := fmt.Sprintf("(select %s (s.arr %s))", h, b.S)
		for i := 0; i < w; i++ {
			shift := i
			if big {
				shift = w - 1 - i
			}
			arr = fmt.Sprintf("(store %s (+ (s.off %s) %d) (mod (div %s %s) 256))", arr, b.S, i, v, pow2(8*shift).String())
		}
		vc.checkRangeWrite(modItem{text: "binary." + m, kind: "range", ref: fmt.Sprintf("(s.arr %s)", b.S), comp: c, lo: fmt.Sprintf("(s.off %s)", b.S), hi: fmt.Sprintf("(+ (s.off %s) %d)", b.S, w)}, in.Pos())
		vc.heapSet(c, s, fmt.Sprintf("(store %s (s.arr %s) %s)", h, b.S, arr))
		vc.modelUsed(name)
		return true
	}
	h := vc.heapGet(c, s)
	var parts []string
	for i := 0; i < w; i++ {
		shift := i
		if big {
			shift = w - 1 - i
		}
		parts = append(parts, fmt.Sprintf("(* (select (select %s (s.arr %s)) (+ (s.off %s) %d)) %s)", h, b.S, b.S, i, pow2(8*shift).String()))
	}
	r := vc.defineNamed("bin", "Int", "(+ "+strings.Join(parts, " ")+")")
	// every byte is in 0..255, so the assembled value fits the width
	vc.fact(fmt.Sprintf("(and (<= 0 %s) (< %s %s))", r, r, pow2(8*w).String()))
	vc.setRes(in, Term{S: r, Sort: "Int"})
	vc.modelUsed(name)
	return true
}

// byteCountTerm: count of bytes equal to b in slice s (uninterpreted function of the
// backing array, offset and length; axioms: 0 <= count <= len).
func (vc *FnVC) byteCountTerm(heap, s, b string) string {
	vc.decl("cntb", "(declare-fun cntb ((Array Int Int) Int Int Int) Int)")
	vc.declAxiom("cntb$ax", "(assert (forall ((a (Array Int Int)) (o Int) (n Int) (b Int)) (! (and (<= 0 (cntb a o n b)) (=> (>= n 0) (<= (cntb a o n b) n))) :pattern ((cntb a o n b)))))")
	return fmt.Sprintf("(cntb (select %s (s.arr %s)) (s.off %s) (s.len %s) %s)", heap, s, s, s, b)
}

// ifaceModel handles interface method calls with a model.
func (vc *FnVC) ifaceModel(in *ssa.Call) bool {
	return false
}

// globalModel adds facts about well-known package-level variables.
func (p *Prog) globalModel(vc *FnVC, o *types.Var, name string) {
	if o.Pkg() == nil {
		return
	}
	full := o.Pkg().Path() + "." + o.Name()
	bigConsts := map[string]string{
		"github.com/ethereum/go-ethereum/common.Big0":   "0",
		"github.com/ethereum/go-ethereum/common.Big1":   "1",
		"github.com/ethereum/go-ethereum/common.Big2":   "2",
		"github.com/ethereum/go-ethereum/common.Big3":   "3",
		"github.com/ethereum/go-ethereum/common.Big32":  "32",
		"github.com/ethereum/go-ethereum/common.Big256": "256",
		"github.com/ethereum/go-ethereum/common.Big257": "257",
	}
	if v2, ok2 := p.bigConsts[full]; ok2 {
		bigConsts[full] = v2
	}
	if v, ok := bigConsts[full]; ok {
		vc.fact(fmt.Sprintf("(> %s 0)", name))
		vc.decl("allocated0", "(declare-fun allocated0 (Int) Bool)")
		vc.fact(fmt.Sprintf("(allocated0 %s)", name))
		vc.decl("bigconst$"+name, fmt.Sprintf("(assert (= (select %s %s) %s))", vc.entryComp("BigVal", "(Array Int Int)"), name, v))
		vc.bigConstRefs = append(vc.bigConstRefs, [2]string{name, v})
		vc.assume("package-level *big.Int constant " + full + " holds " + v + " and is never written")
	}
}
