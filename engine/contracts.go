package main

// Contract file parser. A contract file is a Go file (build tag verif) whose
// "//@" comment lines form blocks:
//
//   //@ pure func name(a T, b U) R { return expr }
//   //@ func (g *GasBudget) charge(cost GasCosts) (ok bool)
//   //@   serves C31 C27
//   //@   requires expr
//   //@   ensures  expr
//   //@   modifies *g, bytes[..]
//   //@   nowrap
//   //@   loop 1 "cond text"
//   //@     invariant expr
//   //@ trusted pure (*StateDB).GetRefund         (package-level directives)
//
// A clause line starts with a keyword; any other line continues the previous
// clause.

import (
	"fmt"
	"os"
	"strings"
)

type Clause struct {
	Kind string // requires ensures modifies invariant assume ...
	Text string
	Expr SExpr
	Line int
}

type LoopSpec struct {
	Ordinal  int
	CondText string
	Invs     []*Clause
	Assumes  []*Clause // assumed, unchecked loop facts (listed as assumptions)
	Uses     []string  // lemma instances asserted at the loop header (header state)
	Modifies []string
	Line     int
}

type FuncContract struct {
	Pkg      string // import path
	Key      string // "Recv.name" or "name"
	Header   string
	Params   []string // parameter names as written in the header (receiver first if any)
	Results  []string // result names from header ("" if unnamed)
	Serves   []string
	Requires []*Clause
	Ensures  []*Clause
	Modifies []string // raw modifies items
	Ghosts   []SParam
	NoWrap   bool
	Arith    string // "int" (default) or "bv"
	Trusted  bool   // contract assumed, body not verified
	TrustWhy string
	Lemma    bool
	Loops    []*LoopSpec
	AtCalls  []*AtCall
	Opaque   bool
	Line     int
	File     string
	NoPanicOnly bool
	Nilable  []string
	Mutates  bool // may change unmodelled world state (observer results)
	Linear     bool // products of two non-constant terms are abstracted (uninterpreted nlmul)
	GhostVars  []*GhostVar
	OnCalls    []*OnCall
	MathLemma  bool // closed arithmetic lemma (no Go function)
	MathParams []SParam
	Patterns   []*Clause
	Uses       []string // math lemmas made available (as quantified axioms) in this function's VC
	MayPanic   bool   // explicit panic(...) statements are not obligations
	NoFrame    bool   // no frame: may write anything reachable from its arguments
	OwnWrites  bool   // frame obligations only for the function's own stores; what its callees write is not checked
	Extern     bool   // assumed contract on a dependency (typed parameters in MathParams)
	ExternName string // qualified name of the dependency function, e.g. container/heap.Fix
}

// GhostVar is specification-only state of one function activation, updated at call sites
// by OnCall rules (e.g. "state mutated since the last snapshot").
type GhostVar struct {
	Name string
	Type string // "int" or "bool"
	Init *Clause
	Line int
}

// OnCall: when the function calls something whose (method/function/field) name is one of
// Names, the ghost variables are assigned simultaneously; expressions may mention
// result / argN of that call and the current ghost values.
type OnCall struct {
	Names []string
	Vars  []string
	Exprs []*Clause
	Line  int
	used  bool
}

// AtCall pins the arguments of a (havocked) call inside the function body:
//   atcall AddBalance#1 requires arg1 == gasLeft * price
type AtCall struct {
	Callee  string // method/function name substring
	Ordinal int    // n-th call to that callee in source order (1-based), 0 = all
	Kind    string // requires | ghost
	Text    string
	Expr    SExpr
	Line    int
	used    bool
}

type PureFunc struct {
	Pkg     string
	Name    string
	Params  []SParam
	Result  string
	BodyTxt string
	Body    SExpr
	Line    int
	File    string
	Opaque  bool
}

type Directive struct {
	Kind string // "trusted-pure", "trusted-noeffect", ...
	Arg  string
	Line int
}

type ContractFile struct {
	Path       string
	Pkg        string
	Funcs      []*FuncContract
	Pures      []*PureFunc
	Directives []Directive
}

var clauseKeywords = map[string]bool{
	"serves": true, "requires": true, "ensures": true, "modifies": true, "nowrap": true,
	"arith": true, "loop": true, "invariant": true, "ghost": true, "trusted": true,
	"atcall": true, "uses": true, "pattern": true, "opaque": true, "loopmodifies": true, "nopanic": true, "nilable": true, "mutates": true, "linear": true, "ghostvar": true, "oncall": true, "assume-invariant": true, "maypanic": true, "noframe": true, "ownwrites": true,
}

func ParseContractFile(path, pkgPath string) (*ContractFile, error) {
	data, err := os.ReadFile(path)
	if err != nil {
		return nil, err
	}
	return ParseContractText(path, pkgPath, string(data))
}

func ParseContractText(path, pkgPath, text string) (*ContractFile, error) {
	cf := &ContractFile{Path: path, Pkg: pkgPath}
	type rawLine struct {
		s    string
		line int
	}
	var lines []rawLine
	for i, l := range strings.Split(text, "\n") {
		t := strings.TrimSpace(l)
		if strings.HasPrefix(t, "// @") {
			// gofmt rewrites "//@" to "// @" inside doc comments
			t = "//@" + t[4:]
		}
		if strings.HasPrefix(t, "//@") {
			s := strings.TrimSpace(t[3:])
			// strip trailing "// comment" inside contract line
			if k := strings.Index(s, " // "); k >= 0 {
				s = strings.TrimSpace(s[:k])
			}
			if s != "" {
				lines = append(lines, rawLine{s, i + 1})
			}
		}
	}
	var curF *FuncContract
	var curLoop *LoopSpec
	// last clause text pointer for continuation
	var contTarget *string
	finishers := []func() error{}
	addExprClause := func(kind, text string, line int) *Clause {
		c := &Clause{Kind: kind, Text: text, Line: line}
		finishers = append(finishers, func() error {
			e, err := ParseSpecExpr(c.Text)
			if err != nil {
				return fmt.Errorf("%s:%d: %v", path, c.Line, err)
			}
			c.Expr = e
			return nil
		})
		contTarget = &c.Text
		return c
	}
	for _, rl := range lines {
		s := rl.s
		first := s
		rest := ""
		if k := strings.IndexAny(s, " \t"); k >= 0 {
			first, rest = s[:k], strings.TrimSpace(s[k+1:])
		}
		switch {
		case first == "pure" && strings.HasPrefix(rest, "func "):
			pf, err := parsePureHeader(rest[5:], rl.line)
			if err != nil {
				return nil, fmt.Errorf("%s:%d: %v", path, rl.line, err)
			}
			pf.Pkg, pf.File = pkgPath, path
			cf.Pures = append(cf.Pures, pf)
			curF, curLoop = nil, nil
			contTarget = &pf.BodyTxt
			p := pf
			finishers = append(finishers, func() error {
				body := strings.TrimSpace(p.BodyTxt)
				if !strings.HasPrefix(body, "{") || !strings.HasSuffix(body, "}") {
					return fmt.Errorf("%s:%d: pure func %s: body must be { return expr }", path, p.Line, p.Name)
				}
				body = strings.TrimSpace(body[1 : len(body)-1])
				if !strings.HasPrefix(body, "return") {
					return fmt.Errorf("%s:%d: pure func %s: body must be { return expr }", path, p.Line, p.Name)
				}
				e, err := ParseSpecExpr(strings.TrimSpace(body[6:]))
				if err != nil {
					return fmt.Errorf("%s:%d: %v", path, p.Line, err)
				}
				p.Body = e
				return nil
			})
		case first == "opaque" && strings.HasPrefix(rest, "pure func "):
			pf, err := parsePureHeader(rest[10:], rl.line)
			if err != nil {
				return nil, fmt.Errorf("%s:%d: %v", path, rl.line, err)
			}
			pf.Pkg, pf.File, pf.Opaque = pkgPath, path, true
			cf.Pures = append(cf.Pures, pf)
			curF, curLoop = nil, nil
			contTarget = nil
			if strings.TrimSpace(pf.BodyTxt) != "" {
				// opaque with a definition: uninterpreted in the integer mode, unfolded in the
				// bit-vector mode
				contTarget = &pf.BodyTxt
				p := pf
				finishers = append(finishers, func() error {
					body := strings.TrimSpace(p.BodyTxt)
					if !strings.HasPrefix(body, "{") || !strings.HasSuffix(body, "}") {
						return fmt.Errorf("%s:%d: pure func %s: body must be { return expr }", path, p.Line, p.Name)
					}
					body = strings.TrimSpace(body[1 : len(body)-1])
					if !strings.HasPrefix(body, "return") {
						return fmt.Errorf("%s:%d: pure func %s: body must be { return expr }", path, p.Line, p.Name)
					}
					e, err := ParseSpecExpr(strings.TrimSpace(body[6:]))
					if err != nil {
						return fmt.Errorf("%s:%d: %v", path, p.Line, err)
					}
					p.Body = e
					return nil
				})
			}
		case first == "lemma" && strings.Contains(rest, "("):
			// mathematical lemma: lemma name(x int, y int) + requires/ensures/pattern
			k := strings.Index(rest, "(")
			e := strings.LastIndex(rest, ")")
			if e < k {
				return nil, fmt.Errorf("%s:%d: bad lemma header", path, rl.line)
			}
			ps, err := parseParamList(rest[k+1 : e])
			if err != nil {
				return nil, fmt.Errorf("%s:%d: %v", path, rl.line, err)
			}
			fc := &FuncContract{Header: s, Line: rl.line, Arith: "int", MathLemma: true, MathParams: ps, Key: "lemma:" + strings.TrimSpace(rest[:k])}
			fc.Pkg, fc.File = pkgPath, path
			cf.Funcs = append(cf.Funcs, fc)
			curF, curLoop = fc, nil
			contTarget = nil
		case first == "extern" && strings.HasPrefix(rest, "func "):
			// assumed contract on a function outside the verified set (a dependency), specialised
			// by the static types of the arguments at the call site (interface-typed parameters
			// are matched against the value boxed at the call):
			//   extern func container/heap.Fix(h *txByPriceAndTime, i int)
			hdr := strings.TrimSpace(strings.TrimPrefix(rest, "func "))
			k := strings.Index(hdr, "(")
			if k < 0 {
				return nil, fmt.Errorf("%s:%d: bad extern header", path, rl.line)
			}
			depth, e := 0, -1
			for i := k; i < len(hdr); i++ {
				if hdr[i] == '(' {
					depth++
				} else if hdr[i] == ')' {
					depth--
					if depth == 0 {
						e = i
						break
					}
				}
			}
			if e < 0 {
				return nil, fmt.Errorf("%s:%d: bad extern parameter list", path, rl.line)
			}
			ps, err := parseParamList(hdr[k+1 : e])
			if err != nil {
				return nil, fmt.Errorf("%s:%d: %v", path, rl.line, err)
			}
			fc := &FuncContract{Header: s, Line: rl.line, Arith: "int", Extern: true, ExternName: strings.TrimSpace(hdr[:k]), MathParams: ps, Key: "extern:" + strings.TrimSpace(hdr[:k])}
			var tys []string
			for _, p := range ps {
				fc.Params = append(fc.Params, p.Name)
				tys = append(tys, p.Type)
			}
			fc.Key += "(" + strings.Join(tys, ",") + ")"
			if tail := strings.TrimSpace(hdr[e+1:]); strings.HasPrefix(tail, "(") && strings.HasSuffix(tail, ")") {
				rs, err := parseParamList(tail[1 : len(tail)-1])
				if err != nil {
					return nil, fmt.Errorf("%s:%d: %v", path, rl.line, err)
				}
				for _, r := range rs {
					fc.Results = append(fc.Results, r.Name)
				}
			}
			fc.Pkg, fc.File = pkgPath, path
			fc.Trusted, fc.TrustWhy = true, "assumed contract on a dependency"
			cf.Funcs = append(cf.Funcs, fc)
			curF, curLoop = fc, nil
			contTarget = nil
		case first == "func":
			fc, err := parseFuncHeader(s, rl.line)
			if err != nil {
				return nil, fmt.Errorf("%s:%d: %v", path, rl.line, err)
			}
			fc.Pkg, fc.File = pkgPath, path
			cf.Funcs = append(cf.Funcs, fc)
			curF, curLoop = fc, nil
			contTarget = nil
		case first == "directive":
			parts := strings.SplitN(rest, " ", 2)
			d := Directive{Kind: parts[0], Line: rl.line}
			if len(parts) > 1 {
				d.Arg = strings.TrimSpace(parts[1])
			}
			cf.Directives = append(cf.Directives, d)
			curF, curLoop = nil, nil
			contTarget = nil
		case clauseKeywords[first] && curF != nil:
			switch first {
			case "serves":
				curF.Serves = append(curF.Serves, strings.Fields(rest)...)
				contTarget = nil
			case "requires":
				curF.Requires = append(curF.Requires, addExprClause("requires", rest, rl.line))
			case "ensures":
				curF.Ensures = append(curF.Ensures, addExprClause("ensures", rest, rl.line))
			case "invariant":
				if curLoop == nil {
					return nil, fmt.Errorf("%s:%d: invariant outside loop", path, rl.line)
				}
				curLoop.Invs = append(curLoop.Invs, addExprClause("invariant", rest, rl.line))
			case "modifies":
				for _, it := range splitTop(rest) {
					curF.Modifies = append(curF.Modifies, strings.TrimSpace(it))
				}
				contTarget = nil
			case "loopmodifies":
				if curLoop == nil {
					return nil, fmt.Errorf("%s:%d: loopmodifies outside loop", path, rl.line)
				}
				for _, it := range splitTop(rest) {
					curLoop.Modifies = append(curLoop.Modifies, strings.TrimSpace(it))
				}
				contTarget = nil
			case "nowrap":
				curF.NoWrap = true
				contTarget = nil
			case "noframe":
				// the function may write anything it can reach: no frame obligations inside it, and
				// callers treat everything reachable from the arguments as overwritten
				curF.NoFrame = true
				contTarget = nil
			case "ownwrites":
				// the function's own stores (assignments, map updates, delete, append, copy) must stay
				// within its modifies clause; what callees write is not checked, and callers treat
				// everything reachable from the arguments as overwritten
				curF.OwnWrites = true
				contTarget = nil
			case "maypanic":
				// explicit panic statements are documented behaviour of this function: they end
				// the path without an obligation (run-time panics - bounds, nil - stay obligations)
				curF.MayPanic = true
				contTarget = nil
			case "assume-invariant":
				if curLoop == nil {
					return nil, fmt.Errorf("%s:%d: assume-invariant outside loop", path, rl.line)
				}
				curLoop.Assumes = append(curLoop.Assumes, addExprClause("assume-invariant", rest, rl.line))
			case "ghostvar":
				// ghostvar name type = init
				eq := strings.Index(rest, "=")
				if eq < 0 {
					return nil, fmt.Errorf("%s:%d: ghostvar needs an initial value", path, rl.line)
				}
				hd := strings.Fields(rest[:eq])
				if len(hd) != 2 {
					return nil, fmt.Errorf("%s:%d: ghostvar name type = init", path, rl.line)
				}
				gv := &GhostVar{Name: hd[0], Type: hd[1], Line: rl.line}
				gv.Init = addExprClause("ghostinit", strings.TrimSpace(rest[eq+1:]), rl.line)
				curF.GhostVars = append(curF.GhostVars, gv)
				contTarget = nil
			case "oncall":
				// oncall Name1 Name2 ...: v1 = e1; v2 = e2
				colon := strings.Index(rest, ":")
				if colon < 0 {
					return nil, fmt.Errorf("%s:%d: oncall names: assignments", path, rl.line)
				}
				oc := &OnCall{Names: strings.Fields(rest[:colon]), Line: rl.line}
				for _, as := range strings.Split(rest[colon+1:], ";") {
					as = strings.TrimSpace(as)
					if as == "" {
						continue
					}
					eq := strings.Index(as, "=")
					if eq < 0 || (eq+1 < len(as) && as[eq+1] == '=') {
						return nil, fmt.Errorf("%s:%d: bad oncall assignment %q", path, rl.line, as)
					}
					oc.Vars = append(oc.Vars, strings.TrimSpace(as[:eq]))
					oc.Exprs = append(oc.Exprs, addExprClause("oncall", strings.TrimSpace(as[eq+1:]), rl.line))
				}
				curF.OnCalls = append(curF.OnCalls, oc)
				contTarget = nil
			case "linear":
				curF.Linear = true
				contTarget = nil
			case "mutates":
				curF.Mutates = true
				contTarget = nil
			case "nilable":
				curF.Nilable = append(curF.Nilable, strings.Fields(strings.ReplaceAll(rest, ",", " "))...)
				contTarget = nil
			case "nopanic":
				curF.NoPanicOnly = true
				contTarget = nil
			case "arith":
				curF.Arith = rest
				contTarget = nil
			case "uses":
				if curLoop != nil {
					curLoop.Uses = append(curLoop.Uses, rest)
				} else if strings.Contains(rest, "(") {
					curF.Uses = append(curF.Uses, rest)
				} else {
					curF.Uses = append(curF.Uses, strings.Fields(strings.ReplaceAll(rest, ",", " "))...)
				}
				contTarget = nil
			case "pattern":
				c := addExprClause("pattern", rest, rl.line)
				curF.Patterns = append(curF.Patterns, c)
			case "opaque":
				curF.Opaque = true
				contTarget = nil
			case "trusted":
				curF.Trusted = true
				curF.TrustWhy = rest
				contTarget = &curF.TrustWhy
			case "ghost":
				// ghost a, b int
				fs := strings.Fields(strings.ReplaceAll(rest, ",", " "))
				if len(fs) < 2 {
					return nil, fmt.Errorf("%s:%d: bad ghost", path, rl.line)
				}
				ty := fs[len(fs)-1]
				for _, n := range fs[:len(fs)-1] {
					curF.Ghosts = append(curF.Ghosts, SParam{n, ty})
				}
				contTarget = nil
			case "loop":
				ls := &LoopSpec{Line: rl.line}
				var n int
				fmt.Sscanf(rest, "%d", &n)
				ls.Ordinal = n
				if k := strings.Index(rest, "\""); k >= 0 {
					if k2 := strings.LastIndex(rest, "\""); k2 > k {
						ls.CondText = rest[k+1 : k2]
					}
				}
				curF.Loops = append(curF.Loops, ls)
				curLoop = ls
				contTarget = nil
			case "atcall":
				// atcall Name#k requires expr
				fs := strings.SplitN(rest, " ", 3)
				if len(fs) < 3 {
					return nil, fmt.Errorf("%s:%d: bad atcall", path, rl.line)
				}
				ac := &AtCall{Kind: fs[1], Text: fs[2], Line: rl.line}
				nm := fs[0]
				if k := strings.Index(nm, "#"); k >= 0 {
					fmt.Sscanf(nm[k+1:], "%d", &ac.Ordinal)
					nm = nm[:k]
				}
				ac.Callee = nm
				curF.AtCalls = append(curF.AtCalls, ac)
				a := ac
				finishers = append(finishers, func() error {
					e, err := ParseSpecExpr(a.Text)
					if err != nil {
						return fmt.Errorf("%s:%d: %v", path, a.Line, err)
					}
					a.Expr = e
					return nil
				})
				contTarget = &ac.Text
			}
		default:
			if contTarget == nil {
				return nil, fmt.Errorf("%s:%d: unexpected contract line %q", path, rl.line, s)
			}
			*contTarget += " " + s
		}
	}
	for _, f := range finishers {
		if err := f(); err != nil {
			return nil, err
		}
	}
	return cf, nil
}

// splitTop splits on commas not nested in brackets/parens.
func splitTop(s string) []string {
	var out []string
	depth := 0
	start := 0
	for i, c := range s {
		switch c {
		case '(', '[':
			depth++
		case ')', ']':
			depth--
		case ',':
			if depth == 0 {
				out = append(out, s[start:i])
				start = i + 1
			}
		}
	}
	if strings.TrimSpace(s[start:]) != "" {
		out = append(out, s[start:])
	}
	return out
}

// parsePureHeader parses: name(a T, b U) R { return expr }   (body may continue on later lines)
func parsePureHeader(s string, line int) (*PureFunc, error) {
	k := strings.Index(s, "(")
	if k < 0 {
		return nil, fmt.Errorf("bad pure func header")
	}
	pf := &PureFunc{Name: strings.TrimSpace(s[:k]), Line: line}
	depth := 0
	end := -1
	for i := k; i < len(s); i++ {
		if s[i] == '(' {
			depth++
		} else if s[i] == ')' {
			depth--
			if depth == 0 {
				end = i
				break
			}
		}
	}
	if end < 0 {
		return nil, fmt.Errorf("bad pure func params")
	}
	ps, err := parseParamList(s[k+1 : end])
	if err != nil {
		return nil, err
	}
	pf.Params = ps
	rest := strings.TrimSpace(s[end+1:])
	b := strings.Index(rest, "{")
	if b < 0 {
		pf.Result = strings.TrimSpace(rest)
		pf.BodyTxt = ""
	} else {
		pf.Result = strings.TrimSpace(rest[:b])
		pf.BodyTxt = rest[b:]
	}
	if pf.Result == "" {
		return nil, fmt.Errorf("pure func %s: missing result type", pf.Name)
	}
	return pf, nil
}

// parseParamList parses "a, b T, c U" into params with types distributed Go-style.
func parseParamList(s string) ([]SParam, error) {
	var out []SParam
	var pendingNames []string
	for _, part := range splitTop(s) {
		part = strings.TrimSpace(part)
		if part == "" {
			continue
		}
		fs := strings.Fields(part)
		if len(fs) == 1 {
			pendingNames = append(pendingNames, fs[0])
			continue
		}
		name := fs[0]
		ty := strings.Join(fs[1:], " ")
		for _, n := range pendingNames {
			out = append(out, SParam{n, ty})
		}
		pendingNames = nil
		out = append(out, SParam{name, ty})
	}
	if len(pendingNames) > 0 {
		return nil, fmt.Errorf("parameters without type: %v", pendingNames)
	}
	return out, nil
}

// parseFuncHeader parses: func (g *GasBudget) charge(cost GasCosts) (ok bool)
func parseFuncHeader(s string, line int) (*FuncContract, error) {
	fc := &FuncContract{Header: s, Line: line, Arith: "int"}
	rest := strings.TrimSpace(strings.TrimPrefix(s, "func"))
	recvType := ""
	if strings.HasPrefix(rest, "(") {
		end := strings.Index(rest, ")")
		if end < 0 {
			return nil, fmt.Errorf("bad receiver")
		}
		r := strings.Fields(rest[1:end])
		if len(r) == 2 {
			fc.Params = append(fc.Params, r[0])
			recvType = strings.TrimPrefix(r[1], "*")
		} else if len(r) == 1 {
			fc.Params = append(fc.Params, "_")
			recvType = strings.TrimPrefix(r[0], "*")
		} else {
			return nil, fmt.Errorf("bad receiver %q", rest[1:end])
		}
		rest = strings.TrimSpace(rest[end+1:])
	}
	k := strings.Index(rest, "(")
	if k < 0 {
		return nil, fmt.Errorf("bad func header")
	}
	name := strings.TrimSpace(rest[:k])
	depth, end := 0, -1
	for i := k; i < len(rest); i++ {
		if rest[i] == '(' {
			depth++
		} else if rest[i] == ')' {
			depth--
			if depth == 0 {
				end = i
				break
			}
		}
	}
	if end < 0 {
		return nil, fmt.Errorf("bad params")
	}
	ps, err := parseParamList(rest[k+1 : end])
	if err != nil {
		return nil, err
	}
	for _, p := range ps {
		fc.Params = append(fc.Params, p.Name)
	}
	res := strings.TrimSpace(rest[end+1:])
	if strings.HasPrefix(res, "(") && strings.HasSuffix(res, ")") {
		inner := res[1 : len(res)-1]
		for _, part := range splitTop(inner) {
			fs := strings.Fields(strings.TrimSpace(part))
			if len(fs) >= 2 {
				fc.Results = append(fc.Results, fs[0])
			} else {
				fc.Results = append(fc.Results, "")
			}
		}
	} else if res != "" {
		fc.Results = append(fc.Results, "")
	}
	if recvType != "" {
		fc.Key = recvType + "." + name
	} else {
		fc.Key = name
	}
	return fc, nil
}
