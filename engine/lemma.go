package main

// Mathematical lemmas: closed first-order facts over integers, proved once by the
// solvers and then available to function VCs (via `uses`) as quantified axioms.

import (
	"fmt"
	"go/token"
	"strings"
)

func (vc *FnVC) lemmaName() string {
	pkg := strings.TrimPrefix(vc.fc.Pkg, modPrefix)
	return pkg + "." + vc.fc.Key
}

// TranslateLemma builds the proof obligations of a math lemma.
func (vc *FnVC) TranslateLemma() {
	fc := vc.fc
	vc.pkg = vc.prog.typesPkg(fc.Pkg)
	vc.curReach = "true"
	env := &Env{vc: vc, vars: map[string]Term{}, pkg: vc.pkg}
	env.heap = func(comp, sort string) string { return vc.entryComp(comp, sort) }
	for _, p := range fc.MathParams {
		srt, gt := env.specType(p.Type)
		n := vc.declConst("l$"+p.Name, srt)
		env.vars[p.Name] = Term{S: n, Sort: srt, T: gt}
		vc.inputs = append(vc.inputs, ModelVar{p.Name, n, srt})
	}
	for _, r := range fc.Requires {
		s, err := env.ElabBool(r.Expr)
		if err != nil {
			vc.errorf("lemma requires %q: %v", r.Text, err)
			continue
		}
		vc.fact(s)
	}
	pre := vc.ob("presat", "requires-satisfiable", "lemma hypotheses are satisfiable", "false", token.NoPos)
	pre.Expect = "sat"
	for i, e := range fc.Ensures {
		s, err := env.ElabBool(e.Expr)
		if err != nil {
			vc.errorf("lemma ensures %q: %v", e.Text, err)
			continue
		}
		o := vc.ob("lemma", fmt.Sprintf("post#%d", i+1), "lemma conclusion "+e.Text, s, token.NoPos)
		o.noReplay = true
		if fc.Arith == "bv" {
			q, err := vc.bvLemmaQuery(e.Expr)
			if err != nil {
				vc.errorf("lemma ensures %q: %v", e.Text, err)
				continue
			}
			o.RawQuery = q
			o.Text += " [proved over bit vectors wide enough that nothing wraps]"
		}
	}
}

func (vc *FnVC) findLemma(name string) *FuncContract {
	var lf *FuncContract
	for _, f := range vc.prog.files {
		for _, c := range f.Funcs {
			if c.MathLemma && c.Key == "lemma:"+name {
				if lf == nil || c.Pkg == vc.fc.Pkg {
					lf = c
				}
			}
		}
	}
	return lf
}

// useLemmaInstance returns the instance "hyps => concl" of a proved lemma at the
// arguments given by call text "name(e1, e2, ...)", elaborated in env.
func (vc *FnVC) useLemmaInstance(text string, env *Env) (string, bool) {
	x, err := ParseSpecExpr(text)
	if err != nil {
		vc.errorf("use %q: %v", text, err)
		return "", false
	}
	call, ok := x.(*SCall)
	if !ok {
		vc.errorf("use %q: expected lemma application", text)
		return "", false
	}
	lf := vc.findLemma(call.Fun)
	if lf == nil {
		vc.errorf("use %s: no such lemma", call.Fun)
		return "", false
	}
	if len(call.Args) != len(lf.MathParams) {
		vc.errorf("use %s: wrong number of arguments", call.Fun)
		return "", false
	}
	lenv := &Env{vc: vc, vars: map[string]Term{}, pkg: vc.prog.typesPkg(lf.Pkg), heap: env.heap, oldHeap: env.oldHeap}
	for i, p := range lf.MathParams {
		t, err := env.Elab(call.Args[i])
		if err != nil {
			vc.errorf("use %s: %v", call.Fun, err)
			return "", false
		}
		lenv.vars[p.Name] = Term{S: t.S, Sort: t.Sort}
	}
	var hyps, concl []string
	hyps = append(hyps, bvLemmaRanges(lf, func(n string) string { return lenv.vars[n].S })...)
	for _, r := range lf.Requires {
		s, err := lenv.ElabBool(r.Expr)
		if err != nil {
			vc.errorf("use %s: %v", call.Fun, err)
			return "", false
		}
		hyps = append(hyps, s)
	}
	for _, e := range lf.Ensures {
		s, err := lenv.ElabBool(e.Expr)
		if err != nil {
			vc.errorf("use %s: %v", call.Fun, err)
			return "", false
		}
		concl = append(concl, s)
	}
	vc.usedLemmas = append(vc.usedLemmas, strings.TrimPrefix(lf.Pkg, modPrefix)+".lemma:"+call.Fun)
	return fmt.Sprintf("(=> (and %s true) (and %s true))", strings.Join(hyps, " "), strings.Join(concl, " ")), true
}

// useLemma asserts a proved lemma as a quantified axiom in this VC.
func (vc *FnVC) useLemma(name string) {
	if strings.Contains(name, "(") {
		if s, ok := vc.useLemmaInstance(name, vc.entryEnv()); ok {
			vc.fact(s)
		}
		return
	}
	var lf *FuncContract
	for _, f := range vc.prog.files {
		for _, c := range f.Funcs {
			if c.MathLemma && c.Key == "lemma:"+name {
				if lf == nil || c.Pkg == vc.fc.Pkg {
					lf = c
				}
			}
		}
	}
	if lf == nil {
		vc.errorf("uses %s: no such lemma", name)
		return
	}
	env := &Env{vc: vc, vars: map[string]Term{}, pkg: vc.prog.typesPkg(lf.Pkg)}
	env.heap = func(comp, sort string) string { return vc.entryComp(comp, sort) }
	var binders []string
	for _, p := range lf.MathParams {
		srt, gt := env.specType(p.Type)
		n := "lq$" + p.Name
		env.vars[p.Name] = Term{S: n, Sort: srt, T: gt}
		binders = append(binders, fmt.Sprintf("(%s %s)", n, srt))
	}
	var hyps, concl, pats []string
	hyps = append(hyps, bvLemmaRanges(lf, func(n string) string { return "lq$" + n })...)
	for _, r := range lf.Requires {
		s, err := env.ElabBool(r.Expr)
		if err != nil {
			vc.errorf("lemma %s: %v", name, err)
			return
		}
		hyps = append(hyps, s)
	}
	for _, e := range lf.Ensures {
		s, err := env.ElabBool(e.Expr)
		if err != nil {
			vc.errorf("lemma %s: %v", name, err)
			return
		}
		concl = append(concl, s)
	}
	for _, p := range lf.Patterns {
		t, err := env.Elab(p.Expr)
		if err != nil {
			vc.errorf("lemma %s pattern: %v", name, err)
			return
		}
		pats = append(pats, ":pattern ("+t.S+")")
	}
	body := fmt.Sprintf("(=> (and %s true) (and %s true))", strings.Join(hyps, " "), strings.Join(concl, " "))
	if len(pats) > 0 {
		body = "(! " + body + " " + strings.Join(pats, " ") + ")"
	}
	vc.decl("lemma$"+name, fmt.Sprintf("(assert (forall (%s) %s))", strings.Join(binders, " "), body))
	vc.usedLemmas = append(vc.usedLemmas, strings.TrimPrefix(lf.Pkg, modPrefix)+".lemma:"+name)
}
