package main

// Elaboration of contract expressions into SMT terms.

import (
	"fmt"
	"go/constant"
	"go/types"
	"math/big"
	"strings"
)

type Env struct {
	vc      *FnVC
	vars    map[string]Term
	lookup  func(name string) (Term, bool)
	heap    func(comp, sort string) string
	oldHeap func(comp, sort string) string
	pkg     *types.Package
	inOld   bool
	oldVars map[string]Term // overrides while inside old()
	cellHook func(comp, sort, ref string) string // current-state cell reads (may use the cell cache)
	locVars  map[string]Loc // pointer-typed names that denote the address of a field/element
}

func (env *Env) readCell(comp, sort, ref string) string {
	if !env.inOld && env.cellHook != nil {
		return env.cellHook(comp, sort, ref)
	}
	return fmt.Sprintf("(select %s %s)", env.curHeap()(comp, sort), ref)
}

func (e *Env) child() *Env {
	c := *e
	c.vars = map[string]Term{}
	for k, v := range e.vars {
		c.vars[k] = v
	}
	return &c
}

type elabErr string

func efail(f string, a ...interface{}) { panic(elabErr(fmt.Sprintf(f, a...))) }

// Elab elaborates expression x; errors are returned, not panicked.
func (env *Env) Elab(x SExpr) (t Term, err error) {
	defer func() {
		if r := recover(); r != nil {
			if ee, ok := r.(elabErr); ok {
				err = fmt.Errorf("%s", string(ee))
				return
			}
			panic(r)
		}
	}()
	return env.elab(x), nil
}

func (env *Env) ElabBool(x SExpr) (string, error) {
	t, err := env.Elab(x)
	if err != nil {
		return "", err
	}
	if t.Sort != "Bool" {
		return "", fmt.Errorf("expression %s is not boolean (sort %s)", x, t.Sort)
	}
	return t.S, nil
}

func mathInt(s string) Term  { return Term{S: s, Sort: "Int"} }
func boolTerm(s string) Term { return Term{S: s, Sort: "Bool"} }

func parseIntLit(s string) *big.Int {
	s = strings.ReplaceAll(s, "_", "")
	v, ok := new(big.Int).SetString(s, 0)
	if !ok {
		efail("bad integer literal %q", s)
	}
	return v
}

// constInt tries to evaluate x to a constant integer.
func (env *Env) constInt(x SExpr) (*big.Int, bool) {
	switch x := x.(type) {
	case *SLit:
		return parseIntLit(x.Val), true
	case *SBinary:
		a, ok1 := env.constInt(x.X)
		b, ok2 := env.constInt(x.Y)
		if !ok1 || !ok2 {
			return nil, false
		}
		switch x.Op {
		case "+":
			return new(big.Int).Add(a, b), true
		case "-":
			return new(big.Int).Sub(a, b), true
		case "*":
			return new(big.Int).Mul(a, b), true
		case "<<":
			if b.IsInt64() && b.Int64() >= 0 && b.Int64() < 4096 {
				return new(big.Int).Lsh(a, uint(b.Int64())), true
			}
		case "/":
			if b.Sign() > 0 && a.Sign() >= 0 {
				return new(big.Int).Div(a, b), true
			}
		}
	case *SUnary:
		if x.Op == "-" {
			if a, ok := env.constInt(x.X); ok {
				return new(big.Int).Neg(a), true
			}
		}
	case *SIdent:
		if t, ok := env.resolveGoConst(nil, x.Name); ok {
			return t, true
		}
	case *SSel:
		if id, ok := x.X.(*SIdent); ok {
			if p := env.importedPkg(id.Name); p != nil {
				if t, ok := env.resolveGoConst(p, x.Name); ok {
					return t, true
				}
			}
		}
	}
	return nil, false
}

func (env *Env) importedPkg(name string) *types.Package {
	if env.pkg == nil {
		return nil
	}
	if _, ok := env.vars[name]; ok {
		return nil
	}
	// search file scopes of the package for an import of that name
	for _, imp := range env.pkg.Imports() {
		if imp.Name() == name {
			return imp
		}
	}
	// transitive packages known to the program by name
	if env.vc != nil && env.vc.prog != nil {
		if p, ok := env.vc.prog.pkgByName[name]; ok {
			return p
		}
	}
	return nil
}

func (env *Env) resolveGoConst(p *types.Package, name string) (*big.Int, bool) {
	if p == nil {
		p = env.pkg
	}
	if p == nil {
		return nil, false
	}
	if _, ok := env.vars[name]; ok && p == env.pkg {
		return nil, false
	}
	obj := p.Scope().Lookup(name)
	c, ok := obj.(*types.Const)
	if !ok {
		return nil, false
	}
	v := c.Val()
	if v.Kind() == constant.Int {
		bi, ok := new(big.Int).SetString(v.ExactString(), 10)
		return bi, ok
	}
	if v.Kind() == constant.Float {
		// integral floats like 1e18
		if iv := constant.ToInt(v); iv.Kind() == constant.Int {
			bi, ok := new(big.Int).SetString(iv.ExactString(), 10)
			return bi, ok
		}
	}
	return nil, false
}

func (env *Env) curHeap() func(comp, sort string) string {
	if env.inOld {
		return env.oldHeap
	}
	return env.heap
}

func (env *Env) elab(x SExpr) Term {
	vc := env.vc
	if c, ok := env.constInt(x); ok {
		if _, isId := x.(*SIdent); !isId {
			return mathInt(smtInt(c))
		}
	}
	switch x := x.(type) {
	case *SLit:
		return mathInt(smtInt(parseIntLit(x.Val)))
	case *SBool:
		if x.Val {
			return boolTerm("true")
		}
		return boolTerm("false")
	case *SNil:
		return Term{S: "0", Sort: "Int"}
	case *SIdent:
		return env.elabIdent(x.Name)
	case *SOld:
		if env.oldHeap == nil {
			efail("old() not allowed here")
		}
		c := *env
		c.inOld = true
		return c.elab(x.X)
	case *SUnary:
		switch x.Op {
		case "!":
			a := env.elab(x.X)
			env.wantBool(a, x.X)
			return boolTerm("(not " + a.S + ")")
		case "-":
			a := env.elab(x.X)
			env.wantInt(a, x.X)
			return mathInt("(- " + a.S + ")")
		case "*":
			if id, isId := x.X.(*SIdent); isId && env.locVars != nil {
				if l, ok := env.locVars[id.Name]; ok {
					// pointer to a field or element that lives inside another object
					h := env.curHeap()(l.comp, l.sort)
					s := fmt.Sprintf("(select %s %s)", h, l.ref)
					if l.idx != "" {
						s = fmt.Sprintf("(select (select %s %s) %s)", h, l.ref, l.idx)
					}
					return Term{S: s, Sort: vc.sortOf(l.T), T: l.T}
				}
			}
			a := env.elab(x.X)
			pt, ok := typeUnder[*types.Pointer](a.T)
			if !ok {
				efail("cannot dereference %s", x.X)
			}
			el := pt.Elem()
			return Term{S: vc.loadObject(a.S, el, env.curHeap()), Sort: vc.sortOf(el), T: el}
		case "&":
			// address of an element of an object-typed slice
			if ix, ok := x.X.(*SIndex); ok {
				b := env.elab(ix.X)
				st, isSl := typeUnder[*types.Slice](b.T)
				if b.Sort == "Slice" && isSl && isObjectType(st.Elem()) {
					i := env.elab(ix.I)
					env.wantInt(i, ix.I)
					ref := vc.elemRef(st.Elem(), fmt.Sprintf("(s.arr %s)", b.S), fmt.Sprintf("(+ (s.off %s) %s)", b.S, i.S))
					return Term{S: ref, Sort: "Int", T: types.NewPointer(st.Elem())}
				}
			}
			// address of an embedded struct/array field
			if sel, ok := x.X.(*SSel); ok {
				t := env.elabSel(sel, true)
				if _, isPtr := typeUnder[*types.Pointer](t.T); isPtr && t.Sort == "Int" {
					return t
				}
			}
			efail("& is supported only on elements of slices of objects and on embedded object fields: %s", x.X)
		}
		efail("unsupported unary %s", x.Op)
	case *SBinary:
		return env.elabBinary(x)
	case *SSel:
		if id, ok := x.X.(*SIdent); ok {
			if p := env.importedPkg(id.Name); p != nil {
				return env.elabPkgMember(p, x.Name)
			}
		}
		return env.elabSel(x, false)
	case *SIndex:
		a := env.elab(x.X)
		i := env.elab(x.I)
		if _, isMap := typeUnder[*types.Map](a.T); !isMap {
			env.wantInt(i, x.I)
		}
		return env.indexTerm(a, i, x)
	case *SSlice:
		a := env.elab(x.X)
		if a.Sort != "Slice" {
			efail("slicing non-slice %s", x.X)
		}
		lo := "0"
		hi := fmt.Sprintf("(s.len %s)", a.S)
		if x.Lo != nil {
			l := env.elab(x.Lo)
			env.wantInt(l, x.Lo)
			lo = l.S
		}
		if x.Hi != nil {
			h := env.elab(x.Hi)
			env.wantInt(h, x.Hi)
			hi = h.S
		}
		return Term{S: fmt.Sprintf("(mkSlice (s.arr %s) (+ (s.off %s) %s) (- %s %s) (- (s.cap %s) %s))", a.S, a.S, lo, hi, lo, a.S, lo), Sort: "Slice", T: a.T}
	case *SQuant:
		if t, ok := env.elabAnchoredForall(x); ok {
			return t
		}
		c := env.child()
		var binders []string
		var ranges []string
		for _, v := range x.Vars {
			srt, gt := env.specType(v.Type)
			name := "q$" + v.Name
			c.vars[v.Name] = Term{S: name, Sort: srt, T: gt}
			binders = append(binders, fmt.Sprintf("(%s %s)", name, srt))
			// variables of a sized integer type range over that type ("int" is mathematical)
			if gt != nil && v.Type != "int" {
				if lo, hi, ok := intRange(gt); ok {
					ranges = append(ranges, fmt.Sprintf("(<= %s %s) (<= %s %s)", smtInt(lo), name, name, smtInt(hi)))
				}
			}
		}
		b := c.elab(x.Body)
		env.wantBool(b, x.Body)
		body := b.S
		if len(ranges) > 0 {
			if x.Forall {
				body = fmt.Sprintf("(=> (and %s) %s)", strings.Join(ranges, " "), body)
			} else {
				body = fmt.Sprintf("(and %s %s)", strings.Join(ranges, " "), body)
			}
		}
		if len(x.Pats) > 0 {
			var ps []string
			for _, pat := range x.Pats {
				var ts []string
				for _, pe := range pat {
					ts = append(ts, c.elab(pe).S)
				}
				ps = append(ps, ":pattern ("+strings.Join(ts, " ")+")")
			}
			body = "(! " + body + " " + strings.Join(ps, " ") + ")"
		}
		q := "exists"
		if x.Forall {
			q = "forall"
		}
		return boolTerm(fmt.Sprintf("(%s (%s) %s)", q, strings.Join(binders, " "), body))
	case *SCall:
		return env.elabCall(x)
	}
	efail("unsupported expression %s", x)
	return Term{}
}

// mentions reports whether expression e mentions identifier name.
func mentions(e SExpr, name string) bool {
	switch x := e.(type) {
	case *SIdent:
		return x.Name == name
	case *SUnary:
		return mentions(x.X, name)
	case *SBinary:
		return mentions(x.X, name) || mentions(x.Y, name)
	case *SCall:
		for _, a := range x.Args {
			if mentions(a, name) {
				return true
			}
		}
	case *SSel:
		return mentions(x.X, name)
	case *SIndex:
		return mentions(x.X, name) || mentions(x.I, name)
	case *SSlice:
		return mentions(x.X, name) || (x.Lo != nil && mentions(x.Lo, name)) || (x.Hi != nil && mentions(x.Hi, name))
	case *SQuant:
		return mentions(x.Body, name)
	case *SOld:
		return mentions(x.X, name)
	}
	return false
}

// findAnchor finds a sub-expression s[k] where k is exactly the quantified variable and s
// does not mention it.
func findAnchor(e SExpr, k string) SExpr {
	switch x := e.(type) {
	case *SIndex:
		if id, ok := x.I.(*SIdent); ok && id.Name == k && !mentions(x.X, k) {
			return x.X
		}
		if a := findAnchor(x.X, k); a != nil {
			return a
		}
		return findAnchor(x.I, k)
	case *SUnary:
		return findAnchor(x.X, k)
	case *SBinary:
		if a := findAnchor(x.X, k); a != nil {
			return a
		}
		return findAnchor(x.Y, k)
	case *SCall:
		for _, a := range x.Args {
			if r := findAnchor(a, k); r != nil {
				return r
			}
		}
	case *SSel:
		return findAnchor(x.X, k)
	case *SOld:
		return findAnchor(x.X, k)
	case *SQuant:
		for _, v := range x.Vars {
			if v.Name == k {
				return nil
			}
		}
		return findAnchor(x.Body, k)
	}
	return nil
}

// elabAnchoredForall rewrites "forall k int :: P(s[k], ...)" over the absolute index
// i = off(s) + k of the anchor slice s, so that the quantifier gets the E-matching
// pattern (select A i). The substitution k := i - off(s) is a bijection on the integers,
// so the formula is equivalent.
func (env *Env) elabAnchoredForall(x *SQuant) (Term, bool) {
	if !x.Forall || len(x.Vars) != 1 || len(x.Pats) > 0 || (x.Vars[0].Type != "int" && x.Vars[0].Type != "Int") {
		return Term{}, false
	}
	k := x.Vars[0].Name
	anchor := findAnchor(x.Body, k)
	if anchor == nil {
		return Term{}, false
	}
	// the anchor must be a slice
	at, err := env.Elab(anchor)
	if err != nil || at.Sort != "Slice" {
		return Term{}, false
	}
	off := fmt.Sprintf("(s.off %s)", at.S)
	c := env.child()
	c.vars[k] = Term{S: fmt.Sprintf("(- q$%s %s)", k, off), Sort: "Int"}
	b := c.elab(x.Body)
	env.wantBool(b, x.Body)
	body := strings.ReplaceAll(b.S, fmt.Sprintf("(+ %s (- q$%s %s))", off, k, off), "q$"+k)
	// patterns: every (select (select H (s.arr anchor)) q$k) occurring in the body
	var pats []string
	seen := map[string]bool{}
	needle := fmt.Sprintf(" (s.arr %s)) q$%s)", at.S, k)
	for idx := 0; ; {
		j := strings.Index(body[idx:], needle)
		if j < 0 {
			break
		}
		end := idx + j + len(needle)
		// walk back to the matching "(select (select "
		start := strings.LastIndex(body[:idx+j], "(select (select ")
		if start >= 0 {
			p := body[start:end]
			if !seen[p] && balanced(p) {
				seen[p] = true
				pats = append(pats, ":pattern ("+p+")")
			}
		}
		idx = end
	}
	if len(pats) == 0 {
		return Term{}, false
	}
	return boolTerm(fmt.Sprintf("(forall ((q$%s Int)) (! %s %s))", k, body, strings.Join(pats, " "))), true
}

func balanced(s string) bool {
	d := 0
	for _, c := range s {
		if c == '(' {
			d++
		} else if c == ')' {
			d--
			if d < 0 {
				return false
			}
		}
	}
	return d == 0
}

func typeUnder[T types.Type](t types.Type) (T, bool) {
	var zero T
	if t == nil {
		return zero, false
	}
	u, ok := t.Underlying().(T)
	return u, ok
}

func (env *Env) wantBool(t Term, x SExpr) {
	if t.Sort != "Bool" {
		efail("%s: expected bool, got %s", x, t.Sort)
	}
}
func (env *Env) wantInt(t Term, x SExpr) {
	if t.Sort != "Int" {
		efail("%s: expected integer, got %s", x, t.Sort)
	}
}

// specType resolves a type text used in quantifiers / pure function signatures.
func (env *Env) specType(ty string) (sort string, gt types.Type) {
	switch ty {
	case "int", "Int":
		return "Int", nil
	case "bool":
		return "Bool", nil
	}
	if env.pkg == nil {
		efail("cannot resolve type %s", ty)
	}
	t := env.resolveTypeText(ty)
	return env.vc.sortOf(t), t
}

// resolveTypeText resolves type texts of the forms T, pkg.T, *T, []T, [N]T.
func (env *Env) resolveTypeText(ty string) types.Type {
	ty = strings.TrimSpace(ty)
	switch {
	case strings.HasPrefix(ty, "*"):
		return types.NewPointer(env.resolveTypeText(ty[1:]))
	case strings.HasPrefix(ty, "[]"):
		return types.NewSlice(env.resolveTypeText(ty[2:]))
	case strings.HasPrefix(ty, "["):
		k := strings.Index(ty, "]")
		var n int64
		fmt.Sscanf(ty[1:k], "%d", &n)
		return types.NewArray(env.resolveTypeText(ty[k+1:]), n)
	}
	if k := strings.Index(ty, "."); k >= 0 {
		p := env.importedPkg(ty[:k])
		if p == nil {
			efail("cannot resolve package %q in type %q", ty[:k], ty)
		}
		obj, ok := p.Scope().Lookup(ty[k+1:]).(*types.TypeName)
		if !ok {
			efail("cannot resolve type %q", ty)
		}
		return obj.Type()
	}
	if obj, ok := types.Universe.Lookup(ty).(*types.TypeName); ok {
		return obj.Type()
	}
	if obj, ok := env.pkg.Scope().Lookup(ty).(*types.TypeName); ok {
		return obj.Type()
	}
	efail("cannot resolve type %q", ty)
	return nil
}

func (env *Env) elabIdent(name string) Term {
	if env.inOld && env.oldVars != nil {
		if t, ok := env.oldVars[name]; ok {
			return t
		}
	}
	if t, ok := env.vars[name]; ok {
		return t
	}
	if env.lookup != nil {
		if t, ok := env.lookup(name); ok {
			return t
		}
	}
	if env.vc != nil && env.vc.fc != nil && env.curHeap() != nil {
		for _, gv := range env.vc.fc.GhostVars {
			if gv.Name == name {
				comp, sort, es := ghostComp(gv)
				return Term{S: fmt.Sprintf("(select %s 0)", env.curHeap()(comp, sort)), Sort: es}
			}
		}
	}
	if env.pkg != nil {
		return env.elabPkgMember(env.pkg, name)
	}
	efail("unknown identifier %s", name)
	return Term{}
}

// ghostComp: heap component holding a ghost variable (at index 0), so that control-flow
// merges and loop havoc treat it like any other state.
func ghostComp(gv *GhostVar) (comp, sort, elemSort string) {
	es := "Int"
	if gv.Type == "bool" {
		es = "Bool"
	}
	return "GV$" + gv.Name, "(Array Int " + es + ")", es
}

func (env *Env) elabPkgMember(p *types.Package, name string) Term {
	obj := p.Scope().Lookup(name)
	if obj == nil {
		efail("unknown identifier %s.%s", p.Name(), name)
	}
	switch o := obj.(type) {
	case *types.Const:
		v := o.Val()
		switch v.Kind() {
		case constant.Int:
			bi, _ := new(big.Int).SetString(v.ExactString(), 10)
			return mathInt(smtInt(bi))
		case constant.Bool:
			if constant.BoolVal(v) {
				return boolTerm("true")
			}
			return boolTerm("false")
		case constant.Float:
			if iv := constant.ToInt(v); iv.Kind() == constant.Int {
				bi, _ := new(big.Int).SetString(iv.ExactString(), 10)
				return mathInt(smtInt(bi))
			}
		case constant.String:
			return Term{S: env.vc.internString(constant.StringVal(v)), Sort: "Int", T: o.Type()}
		}
		efail("unsupported constant %s", name)
	case *types.Var:
		return env.vc.globalTerm(o)
	}
	efail("identifier %s.%s is not a constant or variable", p.Name(), name)
	return Term{}
}

// elabSel elaborates a selector chain. Intermediate embedded objects are kept as
// references (keepRef) so that a.b.c does not materialise the whole struct a.b.
func (env *Env) elabSel(x *SSel, keepRef bool) Term {
	if id, ok := x.X.(*SIdent); ok {
		if p := env.importedPkg(id.Name); p != nil {
			return env.elabPkgMember(p, x.Name)
		}
	}
	var a Term
	if inner, ok := x.X.(*SSel); ok {
		a = env.elabSel(inner, true)
	} else if ix, ok := x.X.(*SIndex); ok {
		// field of an object-typed slice element: stay in reference form, so that the term is a
		// plain heap lookup (usable as a quantifier pattern) instead of accessor-of-constructor
		b := env.elab(ix.X)
		st, isSl := typeUnder[*types.Slice](b.T)
		if b.Sort == "Slice" && isSl && structOf(st.Elem()) != nil {
			i := env.elab(ix.I)
			env.wantInt(i, ix.I)
			ref := env.vc.elemRef(st.Elem(), fmt.Sprintf("(s.arr %s)", b.S), fmt.Sprintf("(+ (s.off %s) %s)", b.S, i.S))
			a = Term{S: ref, Sort: "Int", T: types.NewPointer(st.Elem())}
		} else {
			a = env.elab(x.X)
		}
	} else {
		a = env.elab(x.X)
	}
	return env.selectFieldOpt(a, x.Name, x, keepRef)
}

func (env *Env) selectField(a Term, name string, x SExpr) Term {
	return env.selectFieldOpt(a, name, x, false)
}

func (env *Env) selectFieldOpt(a Term, name string, x SExpr, keepRef bool) Term {
	vc := env.vc
	if a.T == nil {
		efail("%s: selecting field of typeless value", x)
	}
	t := a.T
	isPtr := false
	if pt, ok := t.Underlying().(*types.Pointer); ok {
		t = pt.Elem()
		isPtr = true
	}
	obj, index, _ := types.LookupFieldOrMethod(t, true, env.pkg, name)
	fv, ok := obj.(*types.Var)
	if !ok || !fv.IsField() {
		// try with the defining package of the type for unexported fields
		if n, ok2 := t.(*types.Named); ok2 && n.Obj().Pkg() != nil {
			obj, index, _ = types.LookupFieldOrMethod(t, true, n.Obj().Pkg(), name)
			fv, ok = obj.(*types.Var)
		}
		if !ok || fv == nil || !fv.IsField() {
			efail("%s: no field %s in %s", x, name, t)
		}
	}
	cur := a
	curT := t
	curIsPtr := isPtr
	for _, idx := range index {
		st, ok := curT.Underlying().(*types.Struct)
		if !ok {
			efail("%s: not a struct: %s", x, curT)
		}
		ft := st.Field(idx).Type()
		if curIsPtr {
			// cur.S is a ref to struct curT
			if isObjectType(ft) {
				// stay in ref form
				cur = Term{S: vc.fldRef(curT, idx, cur.S), Sort: "Int", T: types.NewPointer(ft)}
				curT = ft
				curIsPtr = true
				continue
			}
			c, s := vc.fieldComp(curT, idx)
			cur = Term{S: fmt.Sprintf("(select %s %s)", env.curHeap()(c, s), cur.S), Sort: vc.sortOf(ft), T: ft}
			curT = ft
			curIsPtr = false
			if pt, ok := ft.Underlying().(*types.Pointer); ok {
				_ = pt
			}
			continue
		}
		cur = Term{S: fmt.Sprintf("(%s %s)", vc.accName(curT, idx), cur.S), Sort: vc.sortOf(ft), T: ft}
		curT = ft
		curIsPtr = false
	}
	if curIsPtr && keepRef {
		return cur
	}
	if curIsPtr {
		// final field is an object held in ref form: materialise its value,
		// remembering the ref for further selection via pointer type.
		el := curT
		return Term{S: vc.loadObject(cur.S, el, env.curHeap()), Sort: vc.sortOf(el), T: el, Tup: nil}
	}
	// pointer-typed field: further selections auto-deref through T
	return cur
}

func (env *Env) indexTerm(a, i Term, x SExpr) Term {
	vc := env.vc
	if a.Sort == "Slice" {
		var el types.Type
		if st, ok := typeUnder[*types.Slice](a.T); ok {
			el = st.Elem()
		} else {
			efail("%s: slice without element type", x)
		}
		idx := fmt.Sprintf("(+ (s.off %s) %s)", a.S, i.S)
		if isObjectType(el) {
			ref := vc.elemRef(el, fmt.Sprintf("(s.arr %s)", a.S), idx)
			return Term{S: vc.loadObject(ref, el, env.curHeap()), Sort: vc.sortOf(el), T: el}
		}
		c, s := vc.elemComp(el)
		return Term{S: fmt.Sprintf("(select (select %s (s.arr %s)) %s)", env.curHeap()(c, s), a.S, idx), Sort: vc.sortOf(el), T: el}
	}
	if strings.HasPrefix(a.Sort, "(Array Int ") {
		var el types.Type
		if at, ok := typeUnder[*types.Array](a.T); ok {
			el = at.Elem()
		}
		es := strings.TrimSuffix(strings.TrimPrefix(a.Sort, "(Array Int "), ")")
		return Term{S: fmt.Sprintf("(select %s %s)", a.S, i.S), Sort: es, T: el}
	}
	if pt, ok := typeUnder[*types.Pointer](a.T); ok {
		if at, ok := typeUnder[*types.Array](pt.Elem()); ok {
			el := at.Elem()
			c, s := vc.elemComp(el)
			return Term{S: fmt.Sprintf("(select (select %s %s) %s)", env.curHeap()(c, s), a.S, i.S), Sort: vc.sortOf(el), T: el}
		}
	}
	if mt, ok := typeUnder[*types.Map](a.T); ok {
		// map lookup: zero value when the key is absent
		vC, vS, hC, hS := vc.mapComps(mt.Key(), mt.Elem())
		val := fmt.Sprintf("(select (select %s %s) %s)", env.curHeap()(vC, vS), a.S, i.S)
		has := fmt.Sprintf("(select (select %s %s) %s)", env.curHeap()(hC, hS), a.S, i.S)
		return Term{S: fmt.Sprintf("(ite %s %s %s)", has, val, vc.zeroValue(mt.Elem())), Sort: vc.sortOf(mt.Elem()), T: mt.Elem()}
	}
	efail("%s: cannot index sort %s", x, a.Sort)
	return Term{}
}

func (env *Env) elabBinary(x *SBinary) Term {
	switch x.Op {
	case "&&", "||", "==>":
		a, b := env.elab(x.X), env.elab(x.Y)
		env.wantBool(a, x.X)
		env.wantBool(b, x.Y)
		op := map[string]string{"&&": "and", "||": "or", "==>": "=>"}[x.Op]
		return boolTerm(fmt.Sprintf("(%s %s %s)", op, a.S, b.S))
	case "==", "!=":
		a, b := env.elab(x.X), env.elab(x.Y)
		if _, isNil := x.Y.(*SNil); isNil && a.Sort == "Slice" {
			b = Term{S: "(mkSlice 0 0 0 0)", Sort: "Slice", T: a.T}
		}
		if _, isNil := x.X.(*SNil); isNil && b.Sort == "Slice" {
			a = Term{S: "(mkSlice 0 0 0 0)", Sort: "Slice", T: b.T}
		}
		if a.Sort != b.Sort {
			efail("%s: comparing %s with %s", x, a.Sort, b.Sort)
		}
		if x.Op == "==" {
			return boolTerm(fmt.Sprintf("(= %s %s)", a.S, b.S))
		}
		return boolTerm(fmt.Sprintf("(not (= %s %s))", a.S, b.S))
	case "<", "<=", ">", ">=":
		a, b := env.elab(x.X), env.elab(x.Y)
		if isStringTerm(a) || isStringTerm(b) {
			// strings are opaque values: the order is an uninterpreted strict total order
			if !isStringTerm(a) || !isStringTerm(b) {
				efail("comparison of a string with a non-string")
			}
			vc := env.vc
			vc.decl("strlt", "(declare-fun strlt (Int Int) Bool)")
			vc.declAxiom("strlt$ax", "(assert (forall ((a Int) (b Int)) (! (and (not (and (strlt a b) (strlt b a))) (or (strlt a b) (strlt b a) (= a b))) :pattern ((strlt a b)))))")
			vc.declAxiom("strlt$tr", "(assert (forall ((a Int) (b Int) (c Int)) (! (=> (and (strlt a b) (strlt b c)) (strlt a c)) :pattern ((strlt a b) (strlt b c)))))")
			switch x.Op {
			case "<":
				return boolTerm(fmt.Sprintf("(strlt %s %s)", a.S, b.S))
			case ">":
				return boolTerm(fmt.Sprintf("(strlt %s %s)", b.S, a.S))
			case "<=":
				return boolTerm(fmt.Sprintf("(not (strlt %s %s))", b.S, a.S))
			default:
				return boolTerm(fmt.Sprintf("(not (strlt %s %s))", a.S, b.S))
			}
		}
		env.wantInt(a, x.X)
		env.wantInt(b, x.Y)
		return boolTerm(fmt.Sprintf("(%s %s %s)", x.Op, a.S, b.S))
	case "+", "-", "*":
		a, b := env.elab(x.X), env.elab(x.Y)
		env.wantInt(a, x.X)
		env.wantInt(b, x.Y)
		return mathInt(env.vc.arith(x.Op, a.S, b.S))
	case "/", "%":
		a, b := env.elab(x.X), env.elab(x.Y)
		env.wantInt(a, x.X)
		env.wantInt(b, x.Y)
		op := "div"
		if x.Op == "%" {
			op = "mod"
		}
		return mathInt(fmt.Sprintf("(%s %s %s)", op, a.S, b.S))
	case "<<", ">>":
		a := env.elab(x.X)
		env.wantInt(a, x.X)
		k, ok := env.constInt(x.Y)
		if !ok || !k.IsInt64() || k.Int64() < 0 || k.Int64() > 4096 {
			// variable shift: use pow2 function
			b := env.elab(x.Y)
			env.wantInt(b, x.Y)
			p := env.vc.pow2Term(b.S)
			if x.Op == "<<" {
				return mathInt(fmt.Sprintf("(* %s %s)", a.S, p))
			}
			return mathInt(fmt.Sprintf("(div %s %s)", a.S, p))
		}
		p := pow2(int(k.Int64())).String()
		if x.Op == "<<" {
			return mathInt(fmt.Sprintf("(* %s %s)", a.S, p))
		}
		return mathInt(fmt.Sprintf("(div %s %s)", a.S, p))
	case "&":
		a := env.elab(x.X)
		env.wantInt(a, x.X)
		if k, ok := env.constInt(x.Y); ok {
			k1 := new(big.Int).Add(k, big.NewInt(1))
			if k.Sign() >= 0 && new(big.Int).And(k, k1).Sign() == 0 {
				return mathInt(fmt.Sprintf("(mod %s %s)", a.S, k1.String()))
			}
			// single-bit or shifted mask m = ((1<<w)-1) << s
			if s, w, ok := shiftedMask(k); ok {
				// (a div 2^s mod 2^w) * 2^s
				return mathInt(fmt.Sprintf("(* (mod (div %s %s) %s) %s)", a.S, pow2(s).String(), pow2(w).String(), pow2(s).String()))
			}
		}
		b := env.elab(x.Y)
		return mathInt(env.vc.bitFun("and", a.S, b.S))
	case "|":
		a, b := env.elab(x.X), env.elab(x.Y)
		return mathInt(env.vc.bitFun("or", a.S, b.S))
	case "^":
		a, b := env.elab(x.X), env.elab(x.Y)
		return mathInt(env.vc.bitFun("xor", a.S, b.S))
	}
	efail("unsupported operator %s", x.Op)
	return Term{}
}

// shiftedMask recognises k = ((1<<w)-1) << s with w >= 1.
func shiftedMask(k *big.Int) (s, w int, ok bool) {
	if k.Sign() <= 0 {
		return
	}
	s = int(k.TrailingZeroBits())
	r := new(big.Int).Rsh(k, uint(s))
	r1 := new(big.Int).Add(r, big.NewInt(1))
	if new(big.Int).And(r, r1).Sign() != 0 {
		return
	}
	w = r.BitLen()
	return s, w, true
}

func (vc *FnVC) pow2Term(e string) string {
	vc.decl("pow2", "(define-fun-rec pow2 ((n Int)) Int (ite (<= n 0) 1 (* 2 (pow2 (- n 1)))))")
	return "(pow2 " + e + ")"
}

// bitFun gives uninterpreted bit operations on mathematical integers (non-negative
// operands assumed), with basic arithmetic axioms.
func (vc *FnVC) bitFun(op, a, b string) string {
	name := "bit" + op
	if !vc.declSet[name] {
		vc.decl(name, fmt.Sprintf("(declare-fun %s (Int Int) Int)", name))
		switch op {
		case "and":
			vc.declAxiom(name+"$ax","(assert (forall ((x Int) (y Int)) (! (=> (and (>= x 0) (>= y 0)) (and (>= (bitand x y) 0) (<= (bitand x y) x) (<= (bitand x y) y) (= (bitand x y) (bitand y x)))) :pattern ((bitand x y)))))")
		case "or":
			vc.declAxiom(name+"$ax","(assert (forall ((x Int) (y Int)) (! (=> (and (>= x 0) (>= y 0)) (and (>= (bitor x y) x) (>= (bitor x y) y) (<= (bitor x y) (+ x y)) (= (bitor x y) (bitor y x)))) :pattern ((bitor x y)))))")
		case "xor":
			// x ^ t == y ^ t  implies  x == y
			vc.declAxiom(name+"$inj", "(assert (forall ((x Int) (y Int) (t Int)) (! (=> (= (bitxor x t) (bitxor y t)) (= x y)) :pattern ((bitxor x t) (bitxor y t)))))")
			vc.declAxiom(name+"$inj2", "(assert (forall ((x Int) (y Int) (t Int)) (! (=> (= (bitxor t x) (bitxor t y)) (= x y)) :pattern ((bitxor t x) (bitxor t y)))))")
			vc.declAxiom(name+"$ax","(assert (forall ((x Int) (y Int)) (! (=> (and (>= x 0) (>= y 0)) (and (>= (bitxor x y) 0) (<= (bitxor x y) (+ x y)) (= (bitxor x y) (bitxor y x)) (= (= (bitxor x y) 0) (= x y)))) :pattern ((bitxor x y)))))")
		}
	}
	return fmt.Sprintf("(%s %s %s)", name, a, b)
}

func (env *Env) elabCall(x *SCall) Term {
	vc := env.vc
	switch x.Fun {
	case "len", "cap":
		if len(x.Args) != 1 {
			efail("%s takes one argument", x.Fun)
		}
		a := env.elab(x.Args[0])
		if a.Sort == "Slice" {
			return mathInt(fmt.Sprintf("(s.%s %s)", x.Fun, a.S))
		}
		if at, ok := typeUnder[*types.Array](a.T); ok {
			return mathInt(fmt.Sprint(at.Len()))
		}
		if pt, ok := typeUnder[*types.Pointer](a.T); ok {
			if at, ok := typeUnder[*types.Array](pt.Elem()); ok {
				return mathInt(fmt.Sprint(at.Len()))
			}
		}
		if b, ok := typeUnder[*types.Basic](a.T); ok && b.Kind() == types.String {
			return mathInt(fmt.Sprintf("(strlen %s)", vc.strTerm(a.S)))
		}
		efail("len of %s (sort %s)", x.Args[0], a.Sort)
	case "ite":
		if len(x.Args) != 3 {
			efail("ite takes three arguments")
		}
		c, a, b := env.elab(x.Args[0]), env.elab(x.Args[1]), env.elab(x.Args[2])
		env.wantBool(c, x.Args[0])
		if a.Sort != b.Sort {
			efail("ite branches differ: %s vs %s", a.Sort, b.Sort)
		}
		return Term{S: fmt.Sprintf("(ite %s %s %s)", c.S, a.S, b.S), Sort: a.Sort, T: a.T}
	case "min", "max":
		if len(x.Args) < 2 {
			efail("%s takes at least two arguments", x.Fun)
		}
		acc := env.elab(x.Args[0])
		env.wantInt(acc, x.Args[0])
		for _, ax := range x.Args[1:] {
			b := env.elab(ax)
			env.wantInt(b, ax)
			op := "<="
			if x.Fun == "max" {
				op = ">="
			}
			acc = mathInt(fmt.Sprintf("(ite (%s %s %s) %s %s)", op, acc.S, b.S, acc.S, b.S))
		}
		return acc
	case "abs":
		a := env.elab(x.Args[0])
		env.wantInt(a, x.Args[0])
		return mathInt(fmt.Sprintf("(ite (>= %s 0) %s (- %s))", a.S, a.S, a.S))
	case "int", "uint64", "int64", "uint", "uint8", "byte", "uint32", "int32", "uint16":
		// conversions are the identity on mathematical integers
		a := env.elab(x.Args[0])
		if a.Sort == "Bool" {
			efail("cannot convert bool")
		}
		return mathInt(a.S)
	case "bigval":
		// bigval(p): mathematical value of *big.Int p
		a := env.elab(x.Args[0])
		return mathInt(env.readCell("BigVal", "(Array Int Int)", a.S))
	case "u256val":
		a := env.elab(x.Args[0])
		if a.T != nil && isUint256(a.T) {
			return mathInt(a.S)
		}
		return mathInt(env.readCell("U256", "(Array Int Int)", a.S))
	case "pow2":
		a := env.elab(x.Args[0])
		return mathInt(vc.pow2Term(a.S))
	case "disjoint":
		a, b := env.elab(x.Args[0]), env.elab(x.Args[1])
		if a.Sort != "Slice" || b.Sort != "Slice" {
			efail("disjoint wants slices")
		}
		return boolTerm(fmt.Sprintf("(or (not (= (s.arr %s) (s.arr %s))) (<= (+ (s.off %s) (s.cap %s)) (s.off %s)) (<= (+ (s.off %s) (s.cap %s)) (s.off %s)))", a.S, b.S, a.S, a.S, b.S, b.S, b.S, a.S))
	case "noalias":
		// different backing arrays
		a, b := env.elab(x.Args[0]), env.elab(x.Args[1])
		if a.Sort != "Slice" || b.Sort != "Slice" {
			efail("noalias wants slices")
		}
		return boolTerm(fmt.Sprintf("(not (= (s.arr %s) (s.arr %s)))", a.S, b.S))
	case "iszero":
		// iszero(e): e equals the zero value of its Go type, as the comparison
		// `e == T{}` in code is modelled (whole-value equality)
		a := env.elab(x.Args[0])
		if a.T == nil {
			efail("iszero: value without Go type")
		}
		return boolTerm(fmt.Sprintf("(= %s %s)", a.S, vc.zeroValue(a.T)))
	case "sameslice":
		a, b := env.elab(x.Args[0]), env.elab(x.Args[1])
		return boolTerm(fmt.Sprintf("(= %s %s)", a.S, b.S))
	case "isfresh":
		a := env.elab(x.Args[0])
		r := a.S
		if a.Sort == "Slice" {
			r = fmt.Sprintf("(s.arr %s)", a.S)
		}
		vc.decl("allocated0", "(declare-fun allocated0 (Int) Bool)")
		return boolTerm(fmt.Sprintf("(and (not (= %s 0)) (not (allocated0 %s)))", r, r))
	case "haskey":
		// haskey(m, k): key k is present in map m
		a, k := env.elab(x.Args[0]), env.elab(x.Args[1])
		mt, ok := typeUnder[*types.Map](a.T)
		if !ok {
			efail("haskey wants a map")
		}
		_, _, hC, hS := vc.mapComps(mt.Key(), mt.Elem())
		return boolTerm(fmt.Sprintf("(select (select %s %s) %s)", env.curHeap()(hC, hS), a.S, k.S))
	case "bevalue":
		// bevalue(s): big-endian value of byte slice s (abstract; see the SetBytes model)
		a := env.elab(x.Args[0])
		if a.Sort != "Slice" {
			efail("bevalue wants a slice")
		}
		vc.decl("bebytes", "(declare-fun bebytes ((Array Int Int) Int Int) Int)")
		return mathInt(fmt.Sprintf("(bebytes (select %s (s.arr %s)) (s.off %s) (s.len %s))", env.curHeap()("E$uint8", "(Array Int (Array Int Int))"), a.S, a.S, a.S))
	case "bytecount":
		// bytecount(s, b): number of elements of byte slice s equal to b
		if len(x.Args) != 2 {
			efail("bytecount(s, b)")
		}
		a, b := env.elab(x.Args[0]), env.elab(x.Args[1])
		if a.Sort != "Slice" {
			efail("bytecount wants a slice")
		}
		return mathInt(vc.byteCountTerm(env.curHeap()("E$uint8", "(Array Int (Array Int Int))"), a.S, b.S))
	case "observe":
		// observe(Method, recv, args...): value returned by the pure observer recv.Method(args...)
		if len(x.Args) < 2 {
			efail("observe(Method, recv, args...)")
		}
		mid, ok := x.Args[0].(*SIdent)
		if !ok {
			efail("observe: first argument must be a method name")
		}
		recv := env.elab(x.Args[1])
		if recv.T == nil {
			efail("observe: receiver without Go type")
		}
		obj, _, _ := types.LookupFieldOrMethod(recv.T, true, env.pkg, mid.Name)
		fn, ok := obj.(*types.Func)
		if !ok {
			if n, ok2 := derefNamed(recv.T); ok2 && n.Obj().Pkg() != nil {
				obj, _, _ = types.LookupFieldOrMethod(recv.T, true, n.Obj().Pkg(), mid.Name)
				fn, ok = obj.(*types.Func)
			}
			if !ok {
				// a package-level function F(x, ...) observed as observe(F, x, ...)
				fn = env.lookupFunc(mid.Name)
				if fn == nil {
					efail("observe: no method or function %s for %s", mid.Name, recv.T)
				}
			}
		}
		sig := fn.Type().(*types.Signature)
		if sig.Results().Len() != 1 {
			efail("observe: method %s must have exactly one result", mid.Name)
		}
		rt := sig.Results().At(0).Type()
		rs := vc.sortOf(rt)
		ver := vc.versionOf(recv.S)
		if env.inOld {
			ver = vc.entryVersion()
		}
		argTerms := []string{recv.S, ver}
		sorts := []string{recv.Sort, "Int"}
		for _, ax := range x.Args[2:] {
			a := env.elab(ax)
			argTerms = append(argTerms, a.S)
			sorts = append(sorts, a.Sort)
		}
		fname := fmt.Sprintf("obs$%s$0", mangle(mid.Name))
		vc.declObs(fname, sorts, rs, rt)
		t := Term{S: fmt.Sprintf("(%s %s)", fname, strings.Join(argTerms, " ")), Sort: rs, T: rt}
		return t
	case "iserr":
		// iserr(e, Sentinel): errors.Is approximation
		a, b := env.elab(x.Args[0]), env.elab(x.Args[1])
		return boolTerm(vc.errorsIs(a.S, b.S))
	}
	// pure spec function
	if pf := vc.prog.lookupPure(env.pkg, x.Fun); pf != nil {
		return env.callPure(pf, x)
	}
	efail("unknown function %s in contract", x.Fun)
	return Term{}
}

func (vc *FnVC) errorsIs(e, target string) string {
	vc.decl("errorsIs", "(declare-fun errorsIs (Int Int) Bool)")
	vc.declAxiom("errorsIs$ax","(assert (forall ((e Int) (t Int)) (! (and (=> (= e t) (errorsIs e t)) (=> (= e 0) (= (errorsIs e t) (= t 0)))) :pattern ((errorsIs e t)))))")
	return fmt.Sprintf("(errorsIs %s %s)", e, target)
}

// callPure emits (and defines on first use) a spec function application.
func (env *Env) callPure(pf *PureFunc, x *SCall) Term {
	vc := env.vc
	def := vc.definePure(pf)
	if len(x.Args) != len(pf.Params) {
		efail("%s: wrong number of arguments", x)
	}
	var args []string
	for i, ax := range x.Args {
		a := env.elab(ax)
		want := def.params[i]
		if a.Sort != want.Sort {
			efail("%s: argument %d has sort %s, want %s", x, i+1, a.Sort, want.Sort)
		}
		args = append(args, a.S)
	}
	nargs := len(args)
	for i, hp := range def.heapParams {
		h := env.curHeap()(hp, def.sortsOf[i])
		if i < len(def.viaParam) && def.viaParam[i] >= 0 && def.viaParam[i] < nargs {
			h = fmt.Sprintf("(select %s (s.arr %s))", h, args[def.viaParam[i]])
		}
		args = append(args, h)
	}
	if len(args) == 0 {
		return Term{S: "spec$" + pf.Name, Sort: def.resultSort, T: def.resultT}
	}
	return Term{S: fmt.Sprintf("(spec$%s %s)", pf.Name, strings.Join(args, " ")), Sort: def.resultSort, T: def.resultT}
}

func (vc *FnVC) definePure(pf *PureFunc) *pureDef {
	key := pf.Pkg + "." + pf.Name
	if d, ok := vc.pureDefined[key]; ok {
		return d
	}
	pkg := vc.prog.typesPkg(pf.Pkg)
	base := &Env{vc: vc, vars: map[string]Term{}, pkg: pkg}
	def := &pureDef{pf: pf}
	var binders []string
	for _, p := range pf.Params {
		srt, gt := base.specType(p.Type)
		t := Term{S: "a$" + p.Name, Sort: srt, T: gt}
		def.params = append(def.params, t)
		binders = append(binders, fmt.Sprintf("(%s %s)", t.S, srt))
	}
	def.resultSort, def.resultT = base.specType(pf.Result)
	if pf.Body == nil {
		vc.pureDefined[key] = def
		var ss []string
		for _, p := range def.params {
			ss = append(ss, p.Sort)
		}
		if len(ss) == 0 {
			vc.decl("spec$"+pf.Name, fmt.Sprintf("(declare-const spec$%s %s)", pf.Name, def.resultSort))
		} else {
			vc.decl("spec$"+pf.Name, fmt.Sprintf("(declare-fun spec$%s (%s) %s)", pf.Name, strings.Join(ss, " "), def.resultSort))
		}
		return def
	}
	// Two passes to discover heap parameters (recursion passes them through).
	recursive := false
	var body Term
	for pass := 0; pass < 3; pass++ {
		used := map[string]string{}
		order := []string{}
		vc.pureDefined[key] = def // visible for recursive calls
		env := &Env{vc: vc, vars: map[string]Term{}, pkg: pkg}
		for i, p := range pf.Params {
			env.vars[p.Name] = def.params[i]
		}
		env.heap = func(comp, sort string) string {
			if _, ok := used[comp]; !ok {
				used[comp] = sort
				order = append(order, comp)
			}
			return "hp$" + comp
		}
		vc.pureStack = append(vc.pureStack, key)
		nst := len(vc.pureStack)
		b, err := env.Elab(pf.Body)
		vc.pureStack = vc.pureStack[:nst-1]
		if err != nil {
			efail("pure func %s: %v", pf.Name, err)
		}
		body = b
		recursive = strings.Contains(b.S, "spec$"+pf.Name+" ") || strings.Contains(b.S, "spec$"+pf.Name+")")
		same := len(order) == len(def.heapParams)
		if same {
			for i := range order {
				if order[i] != def.heapParams[i] {
					same = false
				}
			}
		}
		if same && pass > 0 {
			break
		}
		def.heapParams = order
		def.sortsOf = nil
		for _, c := range order {
			def.sortsOf = append(def.sortsOf, used[c])
		}
		if !recursive && pass == 0 && len(order) == 0 {
			break
		}
	}
	if body.Sort != def.resultSort {
		efail("pure func %s: body has sort %s, declared %s", pf.Name, body.Sort, def.resultSort)
	}
	if vc.quantPures == nil {
		vc.quantPures = map[string]bool{}
	}
	if vc.isQuantified(body.S) {
		vc.quantPures[pf.Name] = true
	}
	// narrow heap parameters that are read only through one slice parameter (purenarrow.go)
	def.viaParam = make([]int, len(def.heapParams))
	declSorts := append([]string{}, def.sortsOf...)
	for i, c := range def.heapParams {
		def.viaParam[i] = -1
		srt := def.sortsOf[i]
		if !strings.HasPrefix(srt, "(Array Int (Array Int ") {
			continue
		}
		if nb, w := narrowPureBody(body.S, pf.Name, c, def.params, len(def.params), i); w >= 0 {
			body.S = nb
			def.viaParam[i] = w
			declSorts[i] = strings.TrimSuffix(strings.TrimPrefix(srt, "(Array Int "), ")")
		}
	}
	for i, c := range def.heapParams {
		if def.viaParam[i] >= 0 {
			binders = append(binders, fmt.Sprintf("(ha$%s %s)", c, declSorts[i]))
		} else {
			binders = append(binders, fmt.Sprintf("(hp$%s %s)", c, def.sortsOf[i]))
		}
	}
	if pf.Opaque {
		// opaque with a body: uninterpreted in the integer mode, but a function of the heap
		// components its body reads (the body is what the bit-vector mode proves contracts from)
		var ss []string
		for _, p := range def.params {
			ss = append(ss, p.Sort)
		}
		ss = append(ss, declSorts...)
		if len(ss) == 0 {
			vc.decl("spec$"+pf.Name, fmt.Sprintf("(declare-const spec$%s %s)", pf.Name, def.resultSort))
		} else {
			vc.decl("spec$"+pf.Name, fmt.Sprintf("(declare-fun spec$%s (%s) %s)", pf.Name, strings.Join(ss, " "), def.resultSort))
		}
		return def
	}
	kw := "define-fun"
	if recursive {
		kw = "define-fun-rec"
	}
	if len(binders) == 0 {
		vc.decl("spec$"+pf.Name, fmt.Sprintf("(define-fun spec$%s () %s %s)", pf.Name, def.resultSort, body.S))
	} else {
		vc.decl("spec$"+pf.Name, fmt.Sprintf("(%s spec$%s (%s) %s %s)", kw, pf.Name, strings.Join(binders, " "), def.resultSort, body.S))
	}
	return def
}

func (vc *FnVC) internString(s string) string {
	if t, ok := vc.strIntern[s]; ok {
		return t
	}
	n := fmt.Sprintf("str$%d", len(vc.strIntern))
	vc.declConst(n, "Int")
	vc.strTerm(n)
	vc.fact(fmt.Sprintf("(= (strlen %s) %d)", n, len(s)))
	for _, other := range sortedKeys(vc.strIntern) {
		vc.fact(fmt.Sprintf("(not (= %s %s))", n, vc.strIntern[other]))
	}
	vc.strIntern[s] = n
	return n
}

// globalTerm models a package-level variable as a constant (assumed never reassigned).
func (vc *FnVC) globalTerm(o *types.Var) Term {
	name := "G$" + mangle(strings.TrimPrefix(o.Pkg().Path(), "github.com/ethereum/go-ethereum/")) + "." + o.Name()
	srt := vc.sortOf(o.Type())
	if !vc.globals[name] {
		vc.globals[name] = true
		vc.declConst(name, srt)
		if types.Identical(o.Type(), types.Universe.Lookup("error").Type()) {
			vc.fact(fmt.Sprintf("(> %s 0)", name))
			for _, other := range sortedKeys(vc.globals) {
				if other != name && strings.HasPrefix(other, "G$") && vc.globalIsErr(other) {
					vc.fact(fmt.Sprintf("(not (= %s %s))", name, other))
				}
			}
			vc.globalErrs = append(vc.globalErrs, name)
			vc.globalGoNames[name] = goName{o.Pkg(), o.Name()}
			vc.inputs = append(vc.inputs, ModelVar{"global:" + name, name, "Int"})
			vc.assume("package-level sentinel error variables are non-nil, pairwise distinct and never reassigned")
		} else {
			t := Term{S: name, Sort: srt, T: o.Type()}
			vc.addRange(t)
			vc.prog.globalModel(vc, o, name)
			vc.assume("package-level variable " + o.Pkg().Name() + "." + o.Name() + " treated as a constant (never reassigned)")
		}
	}
	return Term{S: name, Sort: srt, T: o.Type()}
}

func (vc *FnVC) globalIsErr(name string) bool {
	for _, g := range vc.globalErrs {
		if g == name {
			return true
		}
	}
	return false
}

func derefNamed(t types.Type) (*types.Named, bool) {
	if p, ok := t.Underlying().(*types.Pointer); ok {
		t = p.Elem()
	}
	if p, ok := t.(*types.Pointer); ok {
		t = p.Elem()
	}
	n, ok := t.(*types.Named)
	return n, ok
}

func isStringTerm(t Term) bool {
	if t.T == nil {
		return false
	}
	b, ok := t.T.Underlying().(*types.Basic)
	return ok && b.Info()&types.IsString != 0
}

// lookupFunc finds a package-level function by name in the contract's package or one of its
// (transitive, by name) imports; nil when absent or ambiguous.
func (env *Env) lookupFunc(name string) *types.Func {
	var found *types.Func
	try := func(p *types.Package) {
		if p == nil {
			return
		}
		if f, ok := p.Scope().Lookup(name).(*types.Func); ok {
			if found == nil {
				found = f
			}
		}
	}
	try(env.pkg)
	if found != nil {
		return found
	}
	if env.pkg != nil {
		for _, imp := range env.pkg.Imports() {
			try(imp)
		}
	}
	return found
}
