package main

// Property check orchestration, evidence and reporting.

import (
	"encoding/json"
	"fmt"
	"io"
	"os"
	"path/filepath"
	"regexp"
	"sort"
	"strings"
	"sync"
	"time"
)

type PropConfig struct {
	ID                string   `json:"id"`
	Packages          []string `json:"packages"`
	ClausesProved     []string `json:"clauses_proved"`
	ClausesOutOfReach []string `json:"clauses_out_of_reach"`
	Assumptions       []string `json:"assumptions"`
	BoundedStandIns   []string `json:"bounded_stand_ins"`
	MinObligations    int      `json:"min_obligations"`
}

type KnownFinding struct {
	Property   string `json:"property"`
	Obligation string `json:"obligation"`
	What       string `json:"what"`
	Status     string `json:"status"` // "open" | "fixed"
	Commit     string `json:"commit,omitempty"`
}

type ObResult struct {
	Name     string  `json:"name"`
	Kind     string  `json:"kind"`
	Text     string  `json:"text"`
	Pos      string  `json:"pos,omitempty"`
	Status   string  `json:"status"`
	Backend  string  `json:"backend,omitempty"`
	TimeS    float64 `json:"time_s"`
	SMTBytes int     `json:"smt_bytes"`
	Agree    []string `json:"agree,omitempty"`
}

func loadPropConfig(id string) (*PropConfig, error) {
	data, err := os.ReadFile(filepath.Join(verifDir(), "props", id+".json"))
	if err != nil {
		return nil, err
	}
	var pc PropConfig
	if err := json.Unmarshal(data, &pc); err != nil {
		return nil, err
	}
	return &pc, nil
}

func loadKnownFindings() []KnownFinding {
	data, err := os.ReadFile(filepath.Join(verifDir(), "known_findings.json"))
	if err != nil {
		return nil
	}
	var kf []KnownFinding
	json.Unmarshal(data, &kf)
	return kf
}

var sanitizeRe = regexp.MustCompile(`[^A-Za-z0-9_.#@-]+`)

func sanitize(s string) string {
	s = sanitizeRe.ReplaceAllString(s, "_")
	if len(s) > 120 {
		s = s[:120]
	}
	return s
}

type fnReport struct {
	Name   string
	fc     *FuncContract
	vc     *FnVC
	errs   []string
	notes  []string
	missing bool
}

type CheckOpts struct {
	ID, Tier, Only string
	Verbose        bool
	Overlay        map[string][]byte
	NoEvidence     bool
	Out            io.Writer
	Failed         []string // out: names of failed obligations
	FailedStatus   map[string]string
}

func runCheck(id, tier string, only string, verbose bool) int {
	return runCheckOpts(&CheckOpts{ID: id, Tier: tier, Only: only, Verbose: verbose, Out: os.Stdout})
}

func runCheckOpts(opts *CheckOpts) int {
	id, tier, only, verbose, out := opts.ID, opts.Tier, opts.Only, opts.Verbose, opts.Out
	opts.FailedStatus = map[string]string{}
	start := time.Now()
	seed := 0
	fmt.Sscanf(os.Getenv("VERIF_SEED"), "%d", &seed)
	pc, err := loadPropConfig(id)
	if err != nil {
		fmt.Fprintf(out,"ENGINE-ERROR property=%s cannot load config: %v\n", id, err)
		return 2
	}
	prog, err := LoadProg(pc.Packages, opts.Overlay)
	if err != nil {
		fmt.Fprintf(out,"ENGINE-ERROR property=%s load: %v\n", id, err)
		return 2
	}
	loadT := time.Since(start).Seconds()

	timeout := 10
	thorough := tier == "thorough"
	if thorough {
		timeout = 120
	}
	solver, err := NewSolver(timeout, thorough)
	if err != nil {
		fmt.Fprintf(out,"ENGINE-ERROR %v\n", err)
		return 2
	}
	solver.keep = os.Getenv("GOVC_KEEP") != ""
	defer solver.Close()

	var reports []*fnReport
	var obligs []*Oblig
	assumptions := map[string]bool{}
	havocked := map[string]bool{}
	trustedContracts := map[string]string{}
	engineErrs := []string{}
	drift := []string{}
	for _, fc := range prog.allContracts() {
		serves := false
		for _, s := range fc.Serves {
			if s == id {
				serves = true
			}
		}
		if !serves {
			continue
		}
		if only != "" {
			hit := false
			for _, alt := range strings.Split(only, "|") {
				if alt != "" && strings.Contains(fc.Key, alt) {
					hit = true
				}
			}
			if !hit {
				continue
			}
		}
		if fc.MathLemma {
			vc := newFnVC(prog, nil, fc)
			func() {
				defer func() {
					if r := recover(); r != nil {
						if ee, ok := r.(elabErr); ok {
							vc.errorf("%s", string(ee))
							return
						}
						panic(r)
					}
				}()
				vc.TranslateLemma()
			}()
			rep := &fnReport{Name: vc.lemmaName(), fc: fc, vc: vc}
			reports = append(reports, rep)
			for _, e := range vc.errs {
				engineErrs = append(engineErrs, rep.Name+": "+e)
			}
			for _, o := range vc.obligs {
				o.Inputs = vc.inputs
				obligs = append(obligs, o)
			}
			continue
		}
		fn := prog.findFunc(fc)
		rep := &fnReport{Name: fc.Pkg + "#" + fc.Key, fc: fc}
		reports = append(reports, rep)
		if fn == nil {
			rep.missing = true
			drift = append(drift, fmt.Sprintf("function %s#%s not found", fc.Pkg, fc.Key))
			continue
		}
		rep.Name = fnDisplayName(fn)
		if fc.Trusted {
			trustedContracts[rep.Name] = fc.TrustWhy
			continue
		}
		if fn.Blocks == nil {
			drift = append(drift, fmt.Sprintf("function %s has no body", rep.Name))
			continue
		}
		vc := newFnVC(prog, fn, fc)
		func() {
			defer func() {
				if r := recover(); r != nil {
					if ee, ok := r.(elabErr); ok {
						vc.errorf("%s", string(ee))
						return
					}
					panic(r)
				}
			}()
			if strings.TrimSpace(fc.Arith) == "bv" {
				vc.TranslateBV()
			} else {
				vc.Translate()
				vc.finish()
			}
		}()
		rep.vc = vc
		for _, e := range vc.errs {
			engineErrs = append(engineErrs, rep.Name+": "+e)
		}
		for _, n := range vc.notes {
			if strings.HasPrefix(n, "DRIFT") {
				drift = append(drift, rep.Name+": "+n)
			}
		}
		for a := range vc.assumptions {
			assumptions[a] = true
		}
		for h := range vc.havocked {
			havocked[h] = true
		}
		for n, c := range vc.usedContracts {
			if c.Trusted {
				trustedContracts[n] = c.TrustWhy
			}
		}
		for _, o := range vc.obligs {
			o.Inputs = vc.inputs
			obligs = append(obligs, o)
		}
	}
	genT := time.Since(start).Seconds() - loadT

	if len(engineErrs) > 0 {
		for _, e := range engineErrs {
			fmt.Fprintf(out,"ENGINE-ERROR property=%s %s\n", id, e)
		}
	}

	// discharge
	results := make([]*SolveResult, len(obligs))
	var wg sync.WaitGroup
	sem := make(chan struct{}, 10)
	for i, o := range obligs {
		wg.Add(1)
		sem <- struct{}{}
		go func(i int, o *Oblig) {
			defer wg.Done()
			defer func() { <-sem }()
			results[i] = solver.Solve(o)
		}(i, o)
	}
	wg.Wait()

	known := loadKnownFindings()
	isKnown := func(name string) *KnownFinding {
		for i := range known {
			if known[i].Property == id && known[i].Obligation == name && known[i].Status != "fixed" {
				return &known[i]
			}
		}
		return nil
	}

	var obres []ObResult
	nOb, nDis, nProbe, nProbeOK := 0, 0, 0, 0
	violations := 0
	faults := 0
	solverTime := 0.0
	backends := map[string]int{}
	var samples []map[string]interface{}
	replayDir := filepath.Join(verifDir(), "replays", id)
	replays, maxReplays := 0, 3
	if opts.NoEvidence {
		maxReplays = 1
	}
	for i, o := range obligs {
		r := results[i]
		solverTime += r.TimeS
		or := ObResult{Name: o.Name, Kind: o.Kind, Text: o.Text, Pos: o.Pos, Status: r.Status, Backend: r.Backend, TimeS: round3(r.TimeS), SMTBytes: r.QuerySize, Agree: r.Agree}
		if o.Expect == "sat" {
			nProbe++
			switch r.Status {
			case "sat":
				nProbeOK++
				or.Status = "reachable"
			case "unsat":
				fmt.Fprintf(out,"ENGINE-FAULT property=%s vacuity probe failed (assumptions contradictory): %s\n", id, o.Name)
				faults++
				or.Status = "VACUOUS"
			default:
				// probe undecided: not a proof of vacuity; record
				or.Status = "probe-unknown"
			}
			obres = append(obres, or)
			continue
		}
		nOb++
		switch r.Status {
		case "unsat":
			nDis++
			backends[r.Backend]++
			or.Status = "discharged"
			if len(samples) < 6 {
				samples = append(samples, map[string]interface{}{"obligation": o.Name, "kind": o.Kind, "text": o.Text, "backend": r.Backend, "time_s": round3(r.TimeS), "smt_bytes": r.QuerySize})
			}
		case "disagree":
			fmt.Fprintf(out,"ENGINE-FAULT property=%s solver disagreement on %s: %s\n", id, o.Name, r.Raw)
			faults++
		default:
			// sat or unknown: failed obligation
			if kf := isKnown(o.Name); kf != nil {
				fmt.Fprintf(out,"KNOWN-FINDING: property=%s %s (%s)\n", id, kf.What, o.Name)
				or.Status = "known-finding"
				obres = append(obres, or)
				nOb--
				continue
			}
			violations++
			opts.Failed = append(opts.Failed, o.Name)
			opts.FailedStatus[o.Name] = r.Status
			os.MkdirAll(replayDir, 0o755)
			rp := filepath.Join(replayDir, sanitize(o.Name)+".json")
			rf := map[string]interface{}{
				"property": id, "obligation": o.Name, "kind": o.Kind, "clause": o.Text, "position": o.Pos,
				"function": o.Fn, "solver_status": r.Status, "solver_backend": r.Backend, "solver_output": truncate(r.Raw, 4000),
				"model": r.Model,
			}
			suffix := " no-failing-input-found"
			if len(r.Model) > 0 && replays >= maxReplays {
				rf["replay"] = map[string]interface{}{"status": fmt.Sprintf("not attempted: replay budget of %d per run used up", maxReplays)}
			} else if len(r.Model) > 0 && !o.noReplay {
				replays++
				// solvers like huge witnesses; a counterexample with short slices, when one
				// exists, is the one that can be built and run against the real code
				if small := smallModel(solver, o); small != nil {
					r.Model = small.Model
					rf["model"] = small.Model
					rf["solver_output"] = truncate(small.Raw, 4000)
				}
				confirmed, detail := replayModel(prog, o, r, rp)
				rf["replay"] = detail
				if confirmed {
					suffix = ""
				}
			}
			data, _ := json.MarshalIndent(rf, "", " ")
			os.WriteFile(rp, data, 0o644)
			fmt.Fprintf(out,"FAILED-OBLIGATION %s [%s] %s (%s)\n", o.Name, r.Status, o.Text, o.Pos)
			fmt.Fprintf(out,"VIOLATION property=%s replay=%s%s\n", id, rp, suffix)
		}
		obres = append(obres, or)
	}

	// structural guards
	var fuc []string
	for _, rep := range reports {
		if rep.vc != nil {
			fuc = append(fuc, rep.Name)
			hasPost := false
			for _, o := range rep.vc.obligs {
				if o.Kind == "post" || o.Kind == "bounds" || o.Kind == "nowrap" || o.Kind == "lemma" || o.Kind == "call-arg" {
					hasPost = true
				}
			}
			if !hasPost {
				fmt.Fprintf(out,"ENGINE-FAULT property=%s function %s generated no post/bounds/nowrap obligation\n", id, rep.Name)
				faults++
			}
		}
	}
	if only == "" && (nOb == 0 || nOb < pc.MinObligations) {
		fmt.Fprintf(out,"ENGINE-FAULT property=%s only %d obligations generated (expected at least %d)\n", id, nOb, pc.MinObligations)
		faults++
	}
	for _, d := range drift {
		fmt.Fprintf(out,"DRIFT property=%s %s\n", id, d)
	}

	// evidence
	var assumpList []string
	for a := range assumptions {
		assumpList = append(assumpList, a)
	}
	for _, a := range pc.Assumptions {
		assumpList = append(assumpList, a)
	}
	for n, why := range trustedContracts {
		assumpList = append(assumpList, "assumed contract (body not verified): "+n+" — "+why)
	}
	var hv []string
	for h := range havocked {
		hv = append(hv, h)
	}
	sort.Strings(hv)
	if len(hv) > 0 {
		assumpList = append(assumpList, "havocked callees (results arbitrary; heap effect limited to arguments): "+strings.Join(hv, ", "))
	}
	sort.Strings(assumpList)
	sort.Strings(fuc)
	contractSrc := []string{}
	for k, v := range prog.contractSource {
		contractSrc = append(contractSrc, k+":"+v)
	}
	sort.Strings(contractSrc)
	// thorough tier: the must-fail / must-pass corpus of the property is part of the check.
	// A pass then also means: every recorded property-breaking change (deliberate mutants,
	// re-introduced defects, changes seeded by independent agents) is still reported, and
	// every recorded harmless refactor still verifies - the contracts have not gone vacuous.
	var corpus map[string]interface{}
	if thorough && only == "" && !opts.NoEvidence && opts.Overlay == nil && violations == 0 && faults == 0 && len(engineErrs) == 0 {
		n, bad, lines := runSelfCases(id, false, 3)
		var badLines []string
		for _, l := range lines {
			if !strings.HasPrefix(l, "selftest ok") {
				badLines = append(badLines, l)
				fmt.Fprintf(out, "ENGINE-FAULT property=%s corpus case misbehaves: %s\n", id, l)
			}
		}
		corpus = map[string]interface{}{"cases": n, "as_expected": n - bad, "misbehaving": badLines}
		fmt.Fprintf(out, "corpus property=%s cases=%d as_expected=%d\n", id, n, n-bad)
		if bad > 0 {
			faults++
		}
	}
	ev := map[string]interface{}{
		"property_id": id,
		"tier":        tier,
		"seed":        seed,
		"level":       "proof",
		"coverage": map[string]interface{}{
			"obligations":              nOb,
			"discharged":               nDis,
			"checker_cmd":              fmt.Sprintf("/verif/bin/govc check --property %s --tier %s", id, tier),
			"trusted_base":             []string{"govc VC generator (/verif/engine)", "go/types + golang.org/x/tools/go/ssa v0.29.0", "z3 4.8.12 / z3 5.1.0 / cvc5 1.0 (portfolio; first definite answer in quick, agreement required in thorough)", "library models in /verif/engine/models.go (math/big, uint256, encoding/binary, builtins)", "Go runtime facts: zero initialisation, append growth, bounds-check semantics"},
			"functions_under_contract": fuc,
			"by_backend":               backends,
			"solver_time_s":            round3(solverTime),
			"vacuity_probes":           nProbe,
			"vacuity_probes_reachable": nProbeOK,
			"samples":                  samples,
			"per_obligation":           obres,
			"clauses_proved":           pc.ClausesProved,
			"clauses_out_of_reach":     pc.ClausesOutOfReach,
			"bounded_stand_ins":        pc.BoundedStandIns,
			"contract_source":          contractSrc,
			"drift":                    drift,
			"load_s":                   round3(loadT),
			"vcgen_s":                  round3(genT),
			"integers":                 "exact: Go integers are SMT Ints with explicit two's-complement wrap at every operation; 'nowrap' functions carry an overflow obligation per arithmetic operation instead",
		},
		"assumptions": assumpList,
		"wall_s":      round3(time.Since(start).Seconds()),
		"violations":  violations,
	}
	if corpus != nil {
		ev["coverage"].(map[string]interface{})["mutation_corpus"] = corpus
	}
	os.MkdirAll(filepath.Join(verifDir(), "evidence"), 0o755)
	data, _ := json.MarshalIndent(ev, "", " ")
	if only == "" && !opts.NoEvidence {
		os.WriteFile(filepath.Join(verifDir(), "evidence", id+".json"), data, 0o644)
	}

	fmt.Fprintf(out,"property=%s tier=%s functions=%d obligations=%d discharged=%d probes=%d/%d violations=%d wall=%.1fs (load %.1fs, vcgen %.1fs, solver cpu %.1fs)\n",
		id, tier, len(fuc), nOb, nDis, nProbeOK, nProbe, violations, time.Since(start).Seconds(), loadT, genT, solverTime)
	if verbose {
		for _, or := range obres {
			fmt.Fprintf(out,"  %-14s %-8s %6.2fs %s\n", or.Status, or.Backend, or.TimeS, or.Name)
		}
		for _, rep := range reports {
			if rep.vc != nil {
				for _, n := range rep.vc.notes {
					fmt.Fprintf(out,"  note %s: %s\n", rep.Name, n)
				}
			}
		}
	}
	if violations > 0 {
		return 1
	}
	if len(engineErrs) > 0 || faults > 0 {
		return 2
	}
	return 0
}

func round3(f float64) float64 { return float64(int(f*1000+0.5)) / 1000 }

func truncate(s string, n int) string {
	if len(s) > n {
		return s[:n] + "...[truncated]"
	}
	return s
}
