package main

// Lemma functions applied at a program point.
//
// A lemma function is a real Go function in the contract file (build tag verif) that has a
// contract, is verified like any other function (in the integer or the bit-vector mode), and
// writes nothing (empty modifies clause). Its contract is therefore a theorem about any
// state: if the requires hold for some arguments, so do the ensures. `atcall F#k lemma
// L(args)` makes that instance available at the k-th call of F in the function under
// verification, with the arguments read at that call.

import (
	"fmt"
	"strings"
)

func (vc *FnVC) applyFunctionLemma(ac *AtCall, env *Env, short string) {
	call, ok := ac.Expr.(*SCall)
	if !ok {
		vc.errorf("atcall %s lemma: expected L(args), got %s", short, ac.Text)
		return
	}
	var lf *FuncContract
	if vc.prog != nil && vc.pkg != nil {
		lf = vc.prog.contracts[vc.pkg.Path()+"#"+call.Fun]
	}
	if lf == nil {
		vc.errorf("atcall %s lemma: no contracted function %s in this package", short, call.Fun)
		return
	}
	if len(lf.Modifies) > 0 || lf.Mutates || lf.Trusted {
		vc.errorf("atcall %s lemma: %s is not an effect-free verified function", short, call.Fun)
		return
	}
	fn := vc.prog.findFunc(lf)
	if fn == nil || len(fn.Params) != len(call.Args) {
		vc.errorf("atcall %s lemma: %s: wrong number of arguments", short, call.Fun)
		return
	}
	lenv := &Env{vc: vc, vars: map[string]Term{}, pkg: vc.pkg, heap: env.heap, oldHeap: env.heap, cellHook: env.cellHook}
	for i, p := range fn.Params {
		t, err := env.Elab(call.Args[i])
		if err != nil {
			vc.errorf("atcall %s lemma %s: %v", short, call.Fun, err)
			return
		}
		t.T = p.Type()
		lenv.vars[p.Name()] = t
		if i < len(lf.Params) && lf.Params[i] != "_" {
			lenv.vars[lf.Params[i]] = t
		}
	}
	var hyps, concl []string
	for _, r := range lf.Requires {
		s, err := lenv.ElabBool(r.Expr)
		if err != nil {
			vc.errorf("atcall %s lemma %s: %v", short, call.Fun, err)
			return
		}
		hyps = append(hyps, s)
	}
	for _, e := range lf.Ensures {
		s, err := lenv.ElabBool(e.Expr)
		if err != nil {
			vc.errorf("atcall %s lemma %s: %v", short, call.Fun, err)
			return
		}
		concl = append(concl, s)
	}
	vc.fact(fmt.Sprintf("(=> %s (=> (and %s true) (and %s true)))", vc.curReach, strings.Join(hyps, " "), strings.Join(concl, " ")))
	vc.usedContracts["lemma function "+call.Fun] = lf
}
