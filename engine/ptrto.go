package main

import "go/types"

func ptrTo(t types.Type) types.Type { return types.NewPointer(t) }
