package main

// Bit-vector back end for closed arithmetic lemmas (`arith bv` on a `lemma`).
//
// The lemma stays a statement about mathematical integers (that is how it is used in
// function VCs). For the proof, every parameter must have an unsigned Go type (its range is
// the hypothesis 0 <= x < 2^bits) and the formula may use only + * / % by positive
// constants, comparisons and boolean connectives. A syntactic interval analysis gives an
// upper bound for every subterm; the formula is then evaluated in bit vectors wide enough
// that no operation can wrap, where it means exactly what it means over the integers
// (all values are non-negative, bvudiv/bvurem agree with div/mod for positive divisors).
// Byte-decomposition identities that linear integer arithmetic solves slowly or not at all
// are immediate there.

import (
	"fmt"
	"math/big"
	"strings"
)

type bvTerm struct {
	s    string   // SMT term (bit vector of the chosen width, or Bool)
	ub   *big.Int // value <= ub (integers only)
	bool bool
}

type bvTrans struct {
	vars  map[string]*big.Int // parameter -> max value
	width int
	err   error
	env   *Env
}

func (t *bvTrans) fail(f string, a ...interface{}) bvTerm {
	if t.err == nil {
		t.err = fmt.Errorf(f, a...)
	}
	return bvTerm{s: "false", ub: big.NewInt(0), bool: true}
}

func (t *bvTrans) lit(v *big.Int) string {
	return fmt.Sprintf("(_ bv%s %d)", v.String(), t.width)
}

// bound computes an upper bound of an integer expression (pass 1, width unknown).
func (t *bvTrans) bound(x SExpr) *big.Int {
	if c, ok := t.env.constInt(x); ok {
		if _, isId := x.(*SIdent); !isId || t.vars[x.(*SIdent).Name] == nil {
			if c.Sign() < 0 {
				t.fail("negative constant %s in a bv lemma", c)
				return big.NewInt(0)
			}
			return c
		}
	}
	switch x := x.(type) {
	case *SIdent:
		if m, ok := t.vars[x.Name]; ok {
			return m
		}
		t.fail("unknown identifier %s in a bv lemma", x.Name)
	case *SLit:
		return parseIntLit(x.Val)
	case *SBinary:
		switch x.Op {
		case "+":
			return new(big.Int).Add(t.bound(x.X), t.bound(x.Y))
		case "*":
			return new(big.Int).Mul(t.bound(x.X), t.bound(x.Y))
		case "/":
			c, ok := t.env.constInt(x.Y)
			if !ok || c.Sign() <= 0 {
				t.fail("division by a non-constant or non-positive value in a bv lemma")
				return big.NewInt(0)
			}
			return new(big.Int).Div(t.bound(x.X), c)
		case "%":
			c, ok := t.env.constInt(x.Y)
			if !ok || c.Sign() <= 0 {
				t.fail("remainder by a non-constant or non-positive value in a bv lemma")
				return big.NewInt(0)
			}
			b := t.bound(x.X)
			m := new(big.Int).Sub(c, big.NewInt(1))
			if b.Cmp(m) < 0 {
				return b
			}
			return m
		default:
			t.fail("operator %s is not supported in a bv lemma", x.Op)
		}
	default:
		t.fail("expression %s is not supported in a bv lemma", x)
	}
	return big.NewInt(0)
}

// maxBound walks a boolean formula and returns the largest bound of any integer subterm.
func (t *bvTrans) maxBound(x SExpr) *big.Int {
	switch x := x.(type) {
	case *SBool:
		return big.NewInt(0)
	case *SUnary:
		if x.Op == "!" {
			return t.maxBound(x.X)
		}
	case *SBinary:
		switch x.Op {
		case "&&", "||", "==>":
			a, b := t.maxBound(x.X), t.maxBound(x.Y)
			if a.Cmp(b) > 0 {
				return a
			}
			return b
		case "==", "!=", "<", "<=", ">", ">=":
			a, b := t.intMax(x.X), t.intMax(x.Y)
			if a.Cmp(b) > 0 {
				return a
			}
			return b
		}
	}
	t.fail("formula %s is not supported in a bv lemma", x)
	return big.NewInt(0)
}

// intMax: the largest bound over all subterms of an integer expression.
func (t *bvTrans) intMax(x SExpr) *big.Int {
	m := t.bound(x)
	if b, ok := x.(*SBinary); ok {
		for _, sub := range []SExpr{b.X, b.Y} {
			if s := t.intMax(sub); s.Cmp(m) > 0 {
				m = s
			}
		}
	}
	return m
}

func (t *bvTrans) integer(x SExpr) string {
	if c, ok := t.env.constInt(x); ok {
		if id, isId := x.(*SIdent); !isId || t.vars[id.Name] == nil {
			return t.lit(c)
		}
	}
	switch x := x.(type) {
	case *SIdent:
		return "l$" + x.Name
	case *SLit:
		return t.lit(parseIntLit(x.Val))
	case *SBinary:
		op := map[string]string{"+": "bvadd", "*": "bvmul", "/": "bvudiv", "%": "bvurem"}[x.Op]
		return fmt.Sprintf("(%s %s %s)", op, t.integer(x.X), t.integer(x.Y))
	}
	t.fail("expression %s is not supported in a bv lemma", x)
	return t.lit(big.NewInt(0))
}

func (t *bvTrans) formula(x SExpr) string {
	switch x := x.(type) {
	case *SBool:
		if x.Val {
			return "true"
		}
		return "false"
	case *SUnary:
		if x.Op == "!" {
			return "(not " + t.formula(x.X) + ")"
		}
	case *SBinary:
		switch x.Op {
		case "&&":
			return fmt.Sprintf("(and %s %s)", t.formula(x.X), t.formula(x.Y))
		case "||":
			return fmt.Sprintf("(or %s %s)", t.formula(x.X), t.formula(x.Y))
		case "==>":
			return fmt.Sprintf("(=> %s %s)", t.formula(x.X), t.formula(x.Y))
		case "==":
			return fmt.Sprintf("(= %s %s)", t.integer(x.X), t.integer(x.Y))
		case "!=":
			return fmt.Sprintf("(not (= %s %s))", t.integer(x.X), t.integer(x.Y))
		case "<":
			return fmt.Sprintf("(bvult %s %s)", t.integer(x.X), t.integer(x.Y))
		case "<=":
			return fmt.Sprintf("(bvule %s %s)", t.integer(x.X), t.integer(x.Y))
		case ">":
			return fmt.Sprintf("(bvugt %s %s)", t.integer(x.X), t.integer(x.Y))
		case ">=":
			return fmt.Sprintf("(bvuge %s %s)", t.integer(x.X), t.integer(x.Y))
		}
	}
	t.fail("formula %s is not supported in a bv lemma", x)
	return "false"
}

// bvLemmaQuery builds the QF_BV query whose unsatisfiability proves the lemma, or an error
// when the lemma is outside the fragment.
func (vc *FnVC) bvLemmaQuery(ensures SExpr) (string, error) {
	fc := vc.fc
	env := &Env{vc: vc, vars: map[string]Term{}, pkg: vc.pkg}
	t := &bvTrans{vars: map[string]*big.Int{}, env: env}
	bitsOf := map[string]int{"uint8": 8, "byte": 8, "uint16": 16, "uint32": 32, "uint64": 64, "uint": 64, "uint256": 256}
	for _, p := range fc.MathParams {
		b, ok := bitsOf[p.Type]
		if !ok {
			return "", fmt.Errorf("bv lemma parameter %s must have an unsigned type (uint8..uint64, uint256), not %s", p.Name, p.Type)
		}
		t.vars[p.Name] = new(big.Int).Sub(pow2(b), big.NewInt(1))
	}
	max := big.NewInt(1)
	for _, r := range fc.Requires {
		if m := t.maxBound(r.Expr); m.Cmp(max) > 0 {
			max = m
		}
	}
	if m := t.maxBound(ensures); m.Cmp(max) > 0 {
		max = m
	}
	if t.err != nil {
		return "", t.err
	}
	t.width = max.BitLen() + 1
	if t.width > 1024 {
		return "", fmt.Errorf("bv lemma needs %d bits", t.width)
	}
	var sb strings.Builder
	sb.WriteString("(set-logic QF_BV)\n")
	for _, p := range fc.MathParams {
		fmt.Fprintf(&sb, "(declare-const l$%s (_ BitVec %d))\n", p.Name, t.width)
		fmt.Fprintf(&sb, "(assert (bvule l$%s %s))\n", p.Name, t.lit(t.vars[p.Name]))
	}
	for _, r := range fc.Requires {
		fmt.Fprintf(&sb, "(assert %s)\n", t.formula(r.Expr))
	}
	fmt.Fprintf(&sb, "(assert (not %s))\n(check-sat)\n", t.formula(ensures))
	if t.err != nil {
		return "", t.err
	}
	return sb.String(), nil
}

// bvLemmaRanges: a lemma proved over bit vectors holds for arguments within the ranges of
// its unsigned parameter types; wherever it is used over the integers those ranges are
// part of its hypotheses.
func bvLemmaRanges(lf *FuncContract, term func(name string) string) []string {
	if lf.Arith != "bv" {
		return nil
	}
	bitsOf := map[string]int{"uint8": 8, "byte": 8, "uint16": 16, "uint32": 32, "uint64": 64, "uint": 64, "uint256": 256}
	var out []string
	for _, p := range lf.MathParams {
		if b, ok := bitsOf[p.Type]; ok {
			out = append(out, fmt.Sprintf("(and (<= 0 %s) (< %s %s))", term(p.Name), term(p.Name), pow2(b).String()))
		} else {
			out = append(out, "false")
		}
	}
	return out
}
