package main

// Contract expression language: parser.
//
// Go-like expressions over mathematical integers, extended with
//   a ==> b            implication (lowest precedence, right assoc)
//   forall x T, y U :: e   /  exists x T :: e
//   old(e)  len(e) cap(e)  ite(c,a,b)  result
// Tokenised with go/scanner; parsed with a small Pratt parser.

import (
	"fmt"
	"go/scanner"
	"go/token"
	"strings"
)

type SExpr interface{ String() string }

type (
	SIdent  struct{ Name string }
	SLit    struct{ Val string } // integer literal (decimal string)
	SBool   struct{ Val bool }
	SNil    struct{}
	SUnary  struct{ Op string; X SExpr }
	SBinary struct{ Op string; X, Y SExpr }
	SCall   struct{ Fun string; Args []SExpr }
	SSel    struct{ X SExpr; Name string }
	SIndex  struct{ X, I SExpr }
	SSlice  struct{ X, Lo, Hi SExpr }
	SQuant  struct {
		Forall bool
		Vars   []SParam
		Body   SExpr
		Pats   [][]SExpr
	}
	SOld struct{ X SExpr }
)

type SParam struct {
	Name string
	Type string // type text, e.g. "int", "GasBudget", "[]byte"
}

func (e *SIdent) String() string { return e.Name }
func (e *SLit) String() string   { return e.Val }
func (e *SBool) String() string  { return fmt.Sprint(e.Val) }
func (e *SNil) String() string   { return "nil" }
func (e *SUnary) String() string { return e.Op + e.X.String() }
func (e *SBinary) String() string {
	return "(" + e.X.String() + " " + e.Op + " " + e.Y.String() + ")"
}
func (e *SCall) String() string {
	var a []string
	for _, x := range e.Args {
		a = append(a, x.String())
	}
	return e.Fun + "(" + strings.Join(a, ", ") + ")"
}
func (e *SSel) String() string   { return e.X.String() + "." + e.Name }
func (e *SIndex) String() string { return e.X.String() + "[" + e.I.String() + "]" }
func (e *SSlice) String() string {
	lo, hi := "", ""
	if e.Lo != nil {
		lo = e.Lo.String()
	}
	if e.Hi != nil {
		hi = e.Hi.String()
	}
	return e.X.String() + "[" + lo + ":" + hi + "]"
}
func (e *SQuant) String() string {
	q := "exists"
	if e.Forall {
		q = "forall"
	}
	var v []string
	for _, p := range e.Vars {
		v = append(v, p.Name+" "+p.Type)
	}
	return "(" + q + " " + strings.Join(v, ", ") + " :: " + e.Body.String() + ")"
}
func (e *SOld) String() string { return "old(" + e.X.String() + ")" }

type tok struct {
	tok token.Token
	lit string
	pos int
}

type sparser struct {
	src  string
	toks []tok
	i    int
}

func tokenize(src string) ([]tok, error) {
	fset := token.NewFileSet()
	f := fset.AddFile("", fset.Base(), len(src))
	var s scanner.Scanner
	var errs []string
	s.Init(f, []byte(src), func(pos token.Position, msg string) { errs = append(errs, msg) }, 0)
	var out []tok
	for {
		pos, t, lit := s.Scan()
		if t == token.EOF {
			break
		}
		if t == token.SEMICOLON && lit == "\n" {
			continue
		}
		out = append(out, tok{t, lit, int(pos) - f.Base()})
	}
	if len(errs) > 0 {
		return nil, fmt.Errorf("scan %q: %s", src, strings.Join(errs, "; "))
	}
	return out, nil
}

func ParseSpecExpr(src string) (e SExpr, err error) {
	toks, err := tokenize(src)
	if err != nil {
		return nil, err
	}
	p := &sparser{src: src, toks: toks}
	defer func() {
		if r := recover(); r != nil {
			if pe, ok := r.(parseErr); ok {
				err = fmt.Errorf("parse %q: %s", src, string(pe))
				return
			}
			panic(r)
		}
	}()
	e = p.parseExpr()
	if p.i < len(p.toks) {
		p.fail("unexpected token %q", p.cur().String())
	}
	return e, nil
}

type parseErr string

func (p *sparser) fail(f string, a ...interface{}) { panic(parseErr(fmt.Sprintf(f, a...))) }

func (t tok) String() string {
	if t.lit != "" {
		return t.lit
	}
	return t.tok.String()
}

func (p *sparser) cur() tok {
	if p.i < len(p.toks) {
		return p.toks[p.i]
	}
	return tok{tok: token.EOF}
}
func (p *sparser) peekN(n int) tok {
	if p.i+n < len(p.toks) {
		return p.toks[p.i+n]
	}
	return tok{tok: token.EOF}
}
func (p *sparser) next() tok { t := p.cur(); p.i++; return t }
func (p *sparser) expect(t token.Token) tok {
	c := p.next()
	if c.tok != t {
		p.fail("expected %s, got %q", t, c.String())
	}
	return c
}

// isImplies reports "==" immediately followed by ">" (the ==> operator).
func (p *sparser) isImplies() bool {
	a, b := p.cur(), p.peekN(1)
	return a.tok == token.EQL && b.tok == token.GTR && b.pos == a.pos+2
}

func (p *sparser) parseExpr() SExpr {
	c := p.cur()
	if c.tok == token.IDENT && (c.lit == "forall" || c.lit == "exists") && p.peekN(1).tok == token.IDENT {
		return p.parseQuant()
	}
	lhs := p.parseBin(1)
	if p.isImplies() {
		p.i += 2
		rhs := p.parseExpr()
		return &SBinary{"==>", lhs, rhs}
	}
	return lhs
}

func (p *sparser) parseQuant() SExpr {
	q := &SQuant{Forall: p.next().lit == "forall"}
	for {
		name := p.expect(token.IDENT).lit
		ty := p.parseTypeText()
		q.Vars = append(q.Vars, SParam{name, ty})
		if p.cur().tok == token.COMMA {
			p.next()
			continue
		}
		break
	}
	// "::"  = COLON COLON
	p.expect(token.COLON)
	p.expect(token.COLON)
	// optional patterns { e, e } { e }
	for p.cur().tok == token.LBRACE {
		p.next()
		var pat []SExpr
		for {
			pat = append(pat, p.parseBin(1))
			if p.cur().tok == token.COMMA {
				p.next()
				continue
			}
			break
		}
		p.expect(token.RBRACE)
		q.Pats = append(q.Pats, pat)
	}
	q.Body = p.parseExpr()
	return q
}

// parseTypeText consumes a type expression and returns its text.
func (p *sparser) parseTypeText() string {
	var sb strings.Builder
	for {
		c := p.cur()
		switch c.tok {
		case token.LBRACK:
			p.next()
			sb.WriteString("[")
			if p.cur().tok == token.INT {
				sb.WriteString(p.next().lit)
			}
			p.expect(token.RBRACK)
			sb.WriteString("]")
			continue
		case token.MUL:
			p.next()
			sb.WriteString("*")
			continue
		case token.IDENT:
			p.next()
			sb.WriteString(c.lit)
			if p.cur().tok == token.PERIOD && p.peekN(1).tok == token.IDENT {
				p.next()
				sb.WriteString("." + p.next().lit)
			}
			return sb.String()
		default:
			p.fail("bad type at %q", c.String())
		}
	}
}

func binPrec(t token.Token) int {
	switch t {
	case token.LOR:
		return 1
	case token.LAND:
		return 2
	case token.EQL, token.NEQ, token.LSS, token.LEQ, token.GTR, token.GEQ:
		return 3
	case token.ADD, token.SUB, token.OR, token.XOR:
		return 4
	case token.MUL, token.QUO, token.REM, token.SHL, token.SHR, token.AND, token.AND_NOT:
		return 5
	}
	return 0
}

func (p *sparser) parseBin(prec int) SExpr {
	x := p.parseUnary()
	for {
		if p.isImplies() {
			return x
		}
		c := p.cur()
		pr := binPrec(c.tok)
		if pr < prec || pr == 0 {
			return x
		}
		p.next()
		y := p.parseBin(pr + 1)
		x = &SBinary{c.tok.String(), x, y}
	}
}

func (p *sparser) parseUnary() SExpr {
	c := p.cur()
	switch c.tok {
	case token.NOT, token.SUB, token.MUL, token.AND, token.XOR:
		p.next()
		return &SUnary{c.tok.String(), p.parseUnary()}
	}
	return p.parsePostfix(p.parsePrimary())
}

func (p *sparser) parsePrimary() SExpr {
	c := p.next()
	switch c.tok {
	case token.INT:
		return &SLit{c.lit}
	case token.CHAR:
		// 'x'
		if len(c.lit) == 3 {
			return &SLit{fmt.Sprint(int(c.lit[1]))}
		}
		p.fail("unsupported char literal %s", c.lit)
	case token.LPAREN:
		e := p.parseExpr()
		p.expect(token.RPAREN)
		return e
	case token.IDENT:
		switch c.lit {
		case "true":
			return &SBool{true}
		case "false":
			return &SBool{false}
		case "nil":
			return &SNil{}
		case "forall", "exists":
			p.i--
			return p.parseQuant()
		}
		name := c.lit
		// qualified identifier pkg.Name followed by "(" is a call of pkg.Name;
		// otherwise selectors are handled in postfix.
		if p.cur().tok == token.LPAREN {
			p.next()
			var args []SExpr
			for p.cur().tok != token.RPAREN {
				args = append(args, p.parseExpr())
				if p.cur().tok == token.COMMA {
					p.next()
				} else {
					break
				}
			}
			p.expect(token.RPAREN)
			if name == "old" {
				if len(args) != 1 {
					p.fail("old takes one argument")
				}
				return &SOld{args[0]}
			}
			return &SCall{name, args}
		}
		return &SIdent{name}
	}
	p.fail("unexpected token %q", c.String())
	return nil
}

func (p *sparser) parsePostfix(x SExpr) SExpr {
	for {
		switch p.cur().tok {
		case token.PERIOD:
			p.next()
			name := p.expect(token.IDENT).lit
			x = &SSel{x, name}
		case token.LBRACK:
			p.next()
			var lo, hi SExpr
			if p.cur().tok != token.COLON {
				lo = p.parseExpr()
			}
			if p.cur().tok == token.COLON {
				p.next()
				if p.cur().tok != token.RBRACK {
					hi = p.parseExpr()
				}
				p.expect(token.RBRACK)
				x = &SSlice{x, lo, hi}
			} else {
				p.expect(token.RBRACK)
				x = &SIndex{x, lo}
			}
		case token.LPAREN:
			// qualified call pkg.Name(args)
			sel, ok := x.(*SSel)
			if !ok {
				return x
			}
			id, ok := sel.X.(*SIdent)
			if !ok {
				return x
			}
			p.next()
			var args []SExpr
			for p.cur().tok != token.RPAREN {
				args = append(args, p.parseExpr())
				if p.cur().tok == token.COMMA {
					p.next()
				} else {
					break
				}
			}
			p.expect(token.RPAREN)
			x = &SCall{id.Name + "." + sel.Name, args}
		default:
			return x
		}
	}
}
