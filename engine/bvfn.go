package main

// Bit-vector mode for function bodies (`arith bv` on a function contract).
//
// Scope (stated, checked, everything else is an engine error for the function): loop-free
// functions over integer and boolean values and byte-slice parameters (also through a
// pointer to a named byte-slice type), with index reads and writes on those slices and no
// calls except len. Every SSA value becomes a bit-vector term of its Go width, so shifts,
// masks and wrap-around mean exactly what the machine does. Slice contents are SMT arrays
// from 64-bit indices to bytes; bounds are obligations.
//
// Contract expressions are evaluated in "mathematical" 128-bit signed bit vectors (program
// values are zero- or sign-extended into them), so that `pos + 16` in a contract does not
// wrap where the integer reading of the same contract (used at call sites in the integer
// mode) does not. Quantified variables range over their Go type. Pure spec functions are
// inlined from their bodies - also those declared `opaque`, which are uninterpreted in the
// integer mode: callers reason from the contracts alone, the proof of the contract sees the
// definition.

import (
	"fmt"
	"go/constant"
	"go/token"
	"go/types"
	"math/big"
	"sort"
	"strings"

	"golang.org/x/tools/go/ssa"
)

const bvMathW = 128

type bvVal struct {
	s      string
	w      int
	signed bool
	isBool bool
	slice  string // name of the slice this value denotes ("" otherwise)
}

type bvAddr struct {
	slice string
	idx   string // 64-bit index
}

type bvFn struct {
	vc       *FnVC
	fn       *ssa.Function
	fc       *FuncContract
	vals     map[ssa.Value]bvVal
	addrs    map[ssa.Value]bvAddr
	decls    []string
	pre      []string
	arrOut   map[*ssa.BasicBlock]map[string]string
	reach    map[*ssa.BasicBlock]string
	edge     map[[2]*ssa.BasicBlock]string
	cur      map[string]string // current array term per slice
	entry    map[string]string
	lens     map[string]string
	curReach string
	nfresh   int
	stored   map[string]bool
	retReach []string
	pkg      *types.Package
}

func (b *bvFn) errorf(f string, a ...interface{}) { b.vc.errorf("bv mode: "+f, a...) }

func (b *bvFn) define(prefix, sort, term string) string {
	b.nfresh++
	n := fmt.Sprintf("%s!%d", prefix, b.nfresh)
	b.decls = append(b.decls, fmt.Sprintf("(define-fun %s () %s %s)", n, sort, term))
	return n
}

func bvSort(w int) string { return fmt.Sprintf("(_ BitVec %d)", w) }

func bvLit(v *big.Int, w int) string {
	m := new(big.Int).Mod(v, pow2(w))
	return fmt.Sprintf("(_ bv%s %d)", m.String(), w)
}

func bvIntType(t types.Type) (w int, signed bool, ok bool) {
	bt, isB := t.Underlying().(*types.Basic)
	if !isB || bt.Info()&types.IsInteger == 0 {
		return 0, false, false
	}
	w, signed = intBits(t)
	return w, signed, true
}

func isByteSlice(t types.Type) bool {
	sl, ok := t.Underlying().(*types.Slice)
	if !ok {
		return false
	}
	bt, ok := sl.Elem().Underlying().(*types.Basic)
	return ok && bt.Kind() == types.Uint8
}

// resize converts a bit-vector term between widths with Go conversion semantics.
func bvResize(s string, from int, signed bool, to int) string {
	switch {
	case from == to:
		return s
	case from > to:
		return fmt.Sprintf("((_ extract %d 0) %s)", to-1, s)
	case signed:
		return fmt.Sprintf("((_ sign_extend %d) %s)", to-from, s)
	default:
		return fmt.Sprintf("((_ zero_extend %d) %s)", to-from, s)
	}
}

func (b *bvFn) val(v ssa.Value) bvVal {
	if x, ok := b.vals[v]; ok {
		return x
	}
	if c, ok := v.(*ssa.Const); ok {
		if w, signed, isInt := bvIntType(c.Type()); isInt && c.Value != nil && c.Value.Kind() == constant.Int {
			bi, _ := new(big.Int).SetString(c.Value.ExactString(), 10)
			return bvVal{s: bvLit(bi, w), w: w, signed: signed}
		}
		if bt, ok := c.Type().Underlying().(*types.Basic); ok && bt.Kind() == types.Bool && c.Value != nil {
			if constant.BoolVal(c.Value) {
				return bvVal{s: "true", isBool: true}
			}
			return bvVal{s: "false", isBool: true}
		}
	}
	b.errorf("unsupported value %s (%T)", v, v)
	return bvVal{s: "false", isBool: true}
}

// TranslateBV builds the obligations of a function in bit-vector mode.
func (vc *FnVC) TranslateBV() {
	fn, fc := vc.fn, vc.fc
	b := &bvFn{vc: vc, fn: fn, fc: fc, vals: map[ssa.Value]bvVal{}, addrs: map[ssa.Value]bvAddr{}, arrOut: map[*ssa.BasicBlock]map[string]string{},
		reach: map[*ssa.BasicBlock]string{}, edge: map[[2]*ssa.BasicBlock]string{}, cur: map[string]string{}, entry: map[string]string{}, lens: map[string]string{}, stored: map[string]bool{}, pkg: vc.pkg}
	vc.curReach = "true"
	if len(fn.Blocks) == 0 {
		b.errorf("no body")
		return
	}
	for _, blk := range fn.Blocks {
		for _, s := range blk.Succs {
			if s.Index <= blk.Index && blockReaches(s, blk) || s == blk {
				b.errorf("loops are outside the bit-vector subset")
				return
			}
		}
	}
	// parameters
	for _, p := range fn.Params {
		name := "p$" + mangle(p.Name())
		t := p.Type()
		if pt, ok := t.Underlying().(*types.Pointer); ok && isByteSlice(pt.Elem()) {
			t = pt.Elem()
		}
		switch {
		case isByteSlice(t):
			b.decls = append(b.decls, fmt.Sprintf("(declare-const %s$arr (Array (_ BitVec 64) (_ BitVec 8)))", name), fmt.Sprintf("(declare-const %s$len (_ BitVec 64))", name))
			// lengths are non-negative ints below 2^48
			b.pre = append(b.pre, fmt.Sprintf("(bvule %s$len (_ bv281474976710656 64))", name))
			b.cur[p.Name()] = name + "$arr"
			b.entry[p.Name()] = name + "$arr"
			b.lens[p.Name()] = name + "$len"
			b.vals[p] = bvVal{slice: p.Name()}
		default:
			if w, signed, ok := bvIntType(t); ok {
				b.decls = append(b.decls, fmt.Sprintf("(declare-const %s %s)", name, bvSort(w)))
				b.vals[p] = bvVal{s: name, w: w, signed: signed}
				vc.inputs = append(vc.inputs, ModelVar{p.Name(), name, bvSort(w)})
			} else if bt, ok := t.Underlying().(*types.Basic); ok && bt.Kind() == types.Bool {
				b.decls = append(b.decls, fmt.Sprintf("(declare-const %s Bool)", name))
				b.vals[p] = bvVal{s: name, isBool: true}
			} else {
				b.errorf("parameter %s has unsupported type %s", p.Name(), p.Type())
				return
			}
		}
	}
	// preconditions
	for _, r := range fc.Requires {
		t, err := b.specBool(r.Expr, nil, false)
		if err != nil {
			b.errorf("requires %q: %v", r.Text, err)
			continue
		}
		b.pre = append(b.pre, t)
	}
	b.probe("presat", "requires-satisfiable", "preconditions are satisfiable", "true")
	// blocks in index order (the CFG is a DAG: predecessors of forward edges come first in
	// go/ssa's block numbering for loop-free code; checked below)
	for _, blk := range fn.Blocks {
		b.block(blk)
	}
	if len(b.retReach) > 0 {
		b.probe("cover", "return-reachable", "some return is reachable under the preconditions (vacuity probe)", "(or "+strings.Join(b.retReach, " ")+" false)")
	}
	// frame: every slice written must be named in the modifies clause
	var st []string
	for s := range b.stored {
		st = append(st, s)
	}
	sort.Strings(st)
	for _, s := range st {
		ok := false
		for _, m := range fc.Modifies {
			m = strings.TrimSpace(m)
			if m == s+"[..]" || m == "(*"+s+")[..]" || strings.HasPrefix(m, s+"[") {
				ok = true
			}
		}
		if !ok {
			b.errorf("slice %s is written but not named in the modifies clause", s)
		}
	}
	vc.assume("bit-vector mode: contract arithmetic is evaluated in 128-bit signed vectors (no wrap for sums and small products of 64-bit values); the same contract is read over the integers at call sites")
}

func (b *bvFn) query(goal string, negate bool) string {
	var sb strings.Builder
	sb.WriteString("(set-logic ALL)\n")
	for _, d := range b.decls {
		sb.WriteString(d)
		sb.WriteString("\n")
	}
	for _, p := range b.pre {
		fmt.Fprintf(&sb, "(assert %s)\n", p)
	}
	if negate {
		fmt.Fprintf(&sb, "(assert (not %s))\n", goal)
	} else {
		fmt.Fprintf(&sb, "(assert %s)\n", goal)
	}
	sb.WriteString("(check-sat)\n")
	return sb.String()
}

func (b *bvFn) oblig(kind, key, text, goal string, pos token.Pos) {
	o := b.vc.ob(kind, key, text+" [bit-vector mode]", goal, pos)
	o.RawQuery = b.query(goal, true)
	o.noReplay = true
}

func (b *bvFn) probe(kind, key, text, cond string) {
	o := b.vc.ob(kind, key, text, "false", b.fn.Pos())
	o.Expect = "sat"
	o.RawQuery = b.query(cond, false)
	o.noReplay = true
}

func (b *bvFn) block(blk *ssa.BasicBlock) {
	// reach and incoming arrays
	if blk == b.fn.Blocks[0] {
		b.curReach = "true"
	} else {
		var es []string
		for _, p := range blk.Preds {
			e, ok := b.edge[[2]*ssa.BasicBlock{p, blk}]
			if !ok {
				b.errorf("block order: predecessor %d of block %d not translated yet", p.Index, blk.Index)
				return
			}
			es = append(es, e)
		}
		b.curReach = b.define("reach", "Bool", "(or "+strings.Join(es, " ")+" false)")
		// merge arrays
		names := map[string]bool{}
		for n := range b.entry {
			names[n] = true
		}
		for n := range names {
			var term string
			for i, p := range blk.Preds {
				a := b.arrOut[p][n]
				if i == 0 {
					term = a
				} else {
					term = fmt.Sprintf("(ite %s %s %s)", b.edge[[2]*ssa.BasicBlock{p, blk}], a, term)
				}
			}
			if len(blk.Preds) > 1 {
				term = b.define("arr", "(Array (_ BitVec 64) (_ BitVec 8))", term)
			}
			b.cur[n] = term
		}
	}
	b.reach[blk] = b.curReach
	for _, in := range blk.Instrs {
		b.instr(in)
	}
	out := map[string]string{}
	for k, v := range b.cur {
		out[k] = v
	}
	b.arrOut[blk] = out
}

func (b *bvFn) setVal(v ssa.Value, x bvVal) {
	if x.slice == "" {
		srt := "Bool"
		if !x.isBool {
			srt = bvSort(x.w)
		}
		x.s = b.define("v$"+mangle(v.Name()), srt, x.s)
	}
	b.vals[v] = x
}

func (b *bvFn) instr(in ssa.Instruction) {
	switch in := in.(type) {
	case *ssa.DebugRef:
	case *ssa.Phi:
		var term string
		var proto bvVal
		for i, e := range in.Edges {
			v := b.val(e)
			pred := in.Block().Preds[i]
			cond := b.edge[[2]*ssa.BasicBlock{pred, in.Block()}]
			if i == 0 {
				term, proto = v.s, v
			} else {
				term = fmt.Sprintf("(ite %s %s %s)", cond, v.s, term)
			}
			if v.slice != "" {
				b.errorf("phi of slices")
				return
			}
		}
		proto.s = term
		b.setVal(in, proto)
	case *ssa.BinOp:
		b.binop(in)
	case *ssa.UnOp:
		switch in.Op {
		case token.MUL:
			if a, ok := b.addrs[in.X]; ok {
				b.setVal(in, bvVal{s: fmt.Sprintf("(select %s %s)", b.cur[a.slice], a.idx), w: 8})
				return
			}
			if x := b.val(in.X); x.slice != "" {
				b.vals[in] = x // *p for p *BitVec: the slice itself
				return
			}
			b.errorf("load through unsupported pointer %s", in.X)
		case token.NOT:
			x := b.val(in.X)
			b.setVal(in, bvVal{s: "(not " + x.s + ")", isBool: true})
		case token.XOR:
			x := b.val(in.X)
			b.setVal(in, bvVal{s: "(bvnot " + x.s + ")", w: x.w, signed: x.signed})
		case token.SUB:
			x := b.val(in.X)
			b.setVal(in, bvVal{s: "(bvneg " + x.s + ")", w: x.w, signed: x.signed})
		default:
			b.errorf("unsupported unary %s", in.Op)
		}
	case *ssa.Convert:
		x := b.val(in.X)
		w, signed, ok := bvIntType(in.Type())
		if !ok || x.isBool || x.slice != "" {
			b.errorf("unsupported conversion to %s", in.Type())
			return
		}
		b.setVal(in, bvVal{s: bvResize(x.s, x.w, x.signed, w), w: w, signed: signed})
	case *ssa.ChangeType:
		b.vals[in] = b.val(in.X)
	case *ssa.IndexAddr:
		x := b.val(in.X)
		if x.slice == "" {
			b.errorf("index of non-slice %s", in.X)
			return
		}
		i := b.val(in.Index)
		idx := bvResize(i.s, i.w, i.signed, 64)
		ln := b.lens[x.slice]
		cond := fmt.Sprintf("(bvult %s %s)", idx, ln)
		if i.signed {
			cond = fmt.Sprintf("(and (bvsge %s %s) %s)", i.s, bvLit(big.NewInt(0), i.w), cond)
		}
		b.oblig("bounds", "bounds@"+b.vc.srcText(in), "index in range", fmt.Sprintf("(=> %s %s)", b.curReach, cond), in.Pos())
		// the obligation is assumed afterwards, as in the integer mode
		b.pre = append(b.pre, fmt.Sprintf("(=> %s %s)", b.curReach, cond))
		b.addrs[in] = bvAddr{slice: x.slice, idx: idx}
	case *ssa.Store:
		a, ok := b.addrs[in.Addr]
		if !ok {
			b.errorf("store through unsupported pointer %s", in.Addr)
			return
		}
		v := b.val(in.Val)
		b.cur[a.slice] = b.define("arr", "(Array (_ BitVec 64) (_ BitVec 8))", fmt.Sprintf("(ite %s (store %s %s %s) %s)", b.curReach, b.cur[a.slice], a.idx, v.s, b.cur[a.slice]))
		b.stored[a.slice] = true
	case *ssa.Call:
		if bi, ok := in.Call.Value.(*ssa.Builtin); ok && bi.Name() == "len" {
			x := b.val(in.Call.Args[0])
			if x.slice != "" {
				b.setVal(in, bvVal{s: b.lens[x.slice], w: 64, signed: true})
				return
			}
		}
		b.errorf("calls are outside the bit-vector subset: %s", in)
	case *ssa.If:
		c := b.val(in.Cond)
		blk := in.Block()
		b.edge[[2]*ssa.BasicBlock{blk, blk.Succs[0]}] = b.define("edge", "Bool", fmt.Sprintf("(and %s %s)", b.curReach, c.s))
		b.edge[[2]*ssa.BasicBlock{blk, blk.Succs[1]}] = b.define("edge", "Bool", fmt.Sprintf("(and %s (not %s))", b.curReach, c.s))
	case *ssa.Jump:
		blk := in.Block()
		b.edge[[2]*ssa.BasicBlock{blk, blk.Succs[0]}] = b.curReach
	case *ssa.Return:
		b.retReach = append(b.retReach, b.curReach)
		res := map[string]bvVal{}
		sig := b.fn.Signature.Results()
		for i, r := range in.Results {
			v := b.val(r)
			n := sig.At(i).Name()
			if i < len(b.fc.Results) && b.fc.Results[i] != "" {
				n = b.fc.Results[i]
			}
			if n != "" && n != "_" {
				res[n] = v
			}
			res[fmt.Sprintf("result%d", i)] = v
			if len(in.Results) == 1 {
				res["result"] = v
			}
		}
		for i, e := range b.fc.Ensures {
			t, err := b.specBool(e.Expr, res, false)
			if err != nil {
				b.errorf("ensures %q: %v", e.Text, err)
				continue
			}
			b.oblig("post", fmt.Sprintf("post#%d", i+1), "ensures "+e.Text, fmt.Sprintf("(=> %s %s)", b.curReach, t), in.Pos())
		}
	default:
		b.errorf("unsupported instruction %T: %s", in, in)
	}
}

func (b *bvFn) binop(in *ssa.BinOp) {
	x, y := b.val(in.X), b.val(in.Y)
	if x.isBool || y.isBool {
		switch in.Op {
		case token.EQL:
			b.setVal(in, bvVal{s: fmt.Sprintf("(= %s %s)", x.s, y.s), isBool: true})
		case token.NEQ:
			b.setVal(in, bvVal{s: fmt.Sprintf("(not (= %s %s))", x.s, y.s), isBool: true})
		default:
			b.errorf("unsupported boolean operator %s", in.Op)
		}
		return
	}
	w, signed := x.w, x.signed
	cmp := func(u, s string) {
		op := u
		if signed {
			op = s
		}
		b.setVal(in, bvVal{s: fmt.Sprintf("(%s %s %s)", op, x.s, y.s), isBool: true})
	}
	arith := func(op string) { b.setVal(in, bvVal{s: fmt.Sprintf("(%s %s %s)", op, x.s, y.s), w: w, signed: signed}) }
	switch in.Op {
	case token.ADD:
		arith("bvadd")
	case token.SUB:
		arith("bvsub")
	case token.MUL:
		arith("bvmul")
	case token.AND:
		arith("bvand")
	case token.OR:
		arith("bvor")
	case token.XOR:
		arith("bvxor")
	case token.AND_NOT:
		b.setVal(in, bvVal{s: fmt.Sprintf("(bvand %s (bvnot %s))", x.s, y.s), w: w, signed: signed})
	case token.QUO, token.REM:
		b.oblig("bounds", "div-by-zero@"+b.vc.srcText(in), "divisor is not zero", fmt.Sprintf("(=> %s (not (= %s %s)))", b.curReach, y.s, bvLit(big.NewInt(0), y.w)), in.Pos())
		op := map[token.Token][2]string{token.QUO: {"bvudiv", "bvsdiv"}, token.REM: {"bvurem", "bvsrem"}}[in.Op]
		if signed {
			arith(op[1])
		} else {
			arith(op[0])
		}
	case token.SHL, token.SHR:
		// Go: a count >= width gives 0 (or the sign for signed >>); counts are unsigned or
		// checked non-negative
		if y.signed {
			b.oblig("bounds", "shift-count@"+b.vc.srcText(in), "shift count is non-negative", fmt.Sprintf("(=> %s (bvsge %s %s))", b.curReach, y.s, bvLit(big.NewInt(0), y.w)), in.Pos())
		}
		cw := y.w
		if cw < w {
			cw = w
		}
		cnt := bvResize(y.s, y.w, false, cw)
		big1 := fmt.Sprintf("(bvuge %s %s)", cnt, bvLit(big.NewInt(int64(w)), cw))
		c := bvResize(cnt, cw, false, w)
		var sh, over string
		switch {
		case in.Op == token.SHL:
			sh, over = fmt.Sprintf("(bvshl %s %s)", x.s, c), bvLit(big.NewInt(0), w)
		case signed:
			sh = fmt.Sprintf("(bvashr %s %s)", x.s, c)
			over = fmt.Sprintf("(bvashr %s %s)", x.s, bvLit(big.NewInt(int64(w-1)), w))
		default:
			sh, over = fmt.Sprintf("(bvlshr %s %s)", x.s, c), bvLit(big.NewInt(0), w)
		}
		b.setVal(in, bvVal{s: fmt.Sprintf("(ite %s %s %s)", big1, over, sh), w: w, signed: signed})
	case token.EQL:
		b.setVal(in, bvVal{s: fmt.Sprintf("(= %s %s)", x.s, y.s), isBool: true})
	case token.NEQ:
		b.setVal(in, bvVal{s: fmt.Sprintf("(not (= %s %s))", x.s, y.s), isBool: true})
	case token.LSS:
		cmp("bvult", "bvslt")
	case token.LEQ:
		cmp("bvule", "bvsle")
	case token.GTR:
		cmp("bvugt", "bvsgt")
	case token.GEQ:
		cmp("bvuge", "bvsge")
	default:
		b.errorf("unsupported operator %s", in.Op)
	}
}

// ---------------------------------------------------------------- contract expressions

// spec values: kind "bool", "int" (128-bit signed), "slice"
type bvSpec struct {
	kind string
	s    string
	arr  string // slice: content array
	ln   string // slice: 64-bit length
}

type bvScope struct {
	vars   map[string]bvSpec
	res    map[string]bvVal
	old    bool
	parent *bvScope
}

func (b *bvFn) specBool(x SExpr, res map[string]bvVal, old bool) (s string, err error) {
	defer func() {
		if r := recover(); r != nil {
			if ee, ok := r.(elabErr); ok {
				err = fmt.Errorf("%s", string(ee))
				return
			}
			panic(r)
		}
	}()
	sc := &bvScope{vars: map[string]bvSpec{}, res: res, old: old}
	t := b.spec(x, sc)
	if t.kind != "bool" {
		efail("expression %s is not boolean", x)
	}
	return t.s, nil
}

func (b *bvFn) fromVal(v bvVal, old bool) bvSpec {
	switch {
	case v.slice != "":
		arr := b.cur[v.slice]
		if old {
			arr = b.entry[v.slice]
		}
		return bvSpec{kind: "slice", arr: arr, ln: b.lens[v.slice]}
	case v.isBool:
		return bvSpec{kind: "bool", s: v.s}
	default:
		return bvSpec{kind: "int", s: bvResize(v.s, v.w, v.signed, bvMathW)}
	}
}

func (b *bvFn) lookup(name string, sc *bvScope) (bvSpec, bool) {
	for s := sc; s != nil; s = s.parent {
		if v, ok := s.vars[name]; ok {
			return v, true
		}
	}
	if sc.res != nil && !sc.old {
		if v, ok := sc.res[name]; ok {
			return b.fromVal(v, false), true
		}
	}
	for i, p := range b.fn.Params {
		n := p.Name()
		if i < len(b.fc.Params) && b.fc.Params[i] != "_" && b.fc.Params[i] == name {
			return b.fromVal(b.vals[p], sc.old), true
		}
		if n == name {
			return b.fromVal(b.vals[p], sc.old), true
		}
	}
	return bvSpec{}, false
}

func (b *bvFn) mathLit(v *big.Int) bvSpec { return bvSpec{kind: "int", s: bvLit(v, bvMathW)} }

func (b *bvFn) spec(x SExpr, sc *bvScope) bvSpec {
	env := &Env{vc: b.vc, vars: map[string]Term{}, pkg: b.pkg}
	if id, ok := x.(*SIdent); ok {
		if v, found := b.lookup(id.Name, sc); found {
			return v
		}
	}
	if c, ok := env.constInt(x); ok {
		return b.mathLit(c)
	}
	want := func(t bvSpec, k string, e SExpr) {
		if t.kind != k {
			efail("%s: expected %s, got %s", e, k, t.kind)
		}
	}
	switch x := x.(type) {
	case *SLit:
		return b.mathLit(parseIntLit(x.Val))
	case *SBool:
		if x.Val {
			return bvSpec{kind: "bool", s: "true"}
		}
		return bvSpec{kind: "bool", s: "false"}
	case *SIdent:
		efail("unknown identifier %s", x.Name)
	case *SOld:
		c := *sc
		c.old = true
		return b.spec(x.X, &c)
	case *SUnary:
		switch x.Op {
		case "!":
			a := b.spec(x.X, sc)
			want(a, "bool", x.X)
			return bvSpec{kind: "bool", s: "(not " + a.s + ")"}
		case "-":
			a := b.spec(x.X, sc)
			want(a, "int", x.X)
			return bvSpec{kind: "int", s: "(bvneg " + a.s + ")"}
		case "*":
			a := b.spec(x.X, sc)
			want(a, "slice", x.X)
			return a
		}
		efail("unsupported unary %s", x.Op)
	case *SBinary:
		switch x.Op {
		case "&&", "||", "==>":
			l, r := b.spec(x.X, sc), b.spec(x.Y, sc)
			want(l, "bool", x.X)
			want(r, "bool", x.Y)
			op := map[string]string{"&&": "and", "||": "or", "==>": "=>"}[x.Op]
			return bvSpec{kind: "bool", s: fmt.Sprintf("(%s %s %s)", op, l.s, r.s)}
		case "==", "!=":
			l, r := b.spec(x.X, sc), b.spec(x.Y, sc)
			if l.kind != r.kind || l.kind == "slice" {
				efail("%s: cannot compare %s with %s", x, l.kind, r.kind)
			}
			s := fmt.Sprintf("(= %s %s)", l.s, r.s)
			if x.Op == "!=" {
				s = "(not " + s + ")"
			}
			return bvSpec{kind: "bool", s: s}
		case "<", "<=", ">", ">=":
			l, r := b.spec(x.X, sc), b.spec(x.Y, sc)
			want(l, "int", x.X)
			want(r, "int", x.Y)
			op := map[string]string{"<": "bvslt", "<=": "bvsle", ">": "bvsgt", ">=": "bvsge"}[x.Op]
			return bvSpec{kind: "bool", s: fmt.Sprintf("(%s %s %s)", op, l.s, r.s)}
		case "+", "-", "*", "/", "%", "&", "|", "^", "<<", ">>":
			l, r := b.spec(x.X, sc), b.spec(x.Y, sc)
			want(l, "int", x.X)
			want(r, "int", x.Y)
			// / and % agree with the integer reading for non-negative operands (all uses here)
			op := map[string]string{"+": "bvadd", "-": "bvsub", "*": "bvmul", "/": "bvudiv", "%": "bvurem", "&": "bvand", "|": "bvor", "^": "bvxor", "<<": "bvshl", ">>": "bvlshr"}[x.Op]
			return bvSpec{kind: "int", s: fmt.Sprintf("(%s %s %s)", op, l.s, r.s)}
		}
		efail("unsupported operator %s", x.Op)
	case *SIndex:
		a := b.spec(x.X, sc)
		want(a, "slice", x.X)
		i := b.spec(x.I, sc)
		want(i, "int", x.I)
		return bvSpec{kind: "int", s: fmt.Sprintf("((_ zero_extend %d) (select %s ((_ extract 63 0) %s)))", bvMathW-8, a.arr, i.s)}
	case *SQuant:
		inner := &bvScope{vars: map[string]bvSpec{}, res: sc.res, old: sc.old, parent: sc}
		var binders, ranges []string
		for _, v := range x.Vars {
			w, signed, ok := 0, false, false
			if v.Type == "int" {
				w, signed, ok = 64, true, true
			} else if bt, isT := types.Universe.Lookup(v.Type).(*types.TypeName); isT {
				w, signed, ok = bvIntType(bt.Type())
			}
			if !ok {
				efail("quantified variable %s must have an integer type", v.Name)
			}
			// the bound variable has its Go width; its mathematical value is the extension
			n := "q$" + v.Name
			binders = append(binders, fmt.Sprintf("(%s %s)", n, bvSort(w)))
			ranges = append(ranges, "true")
			inner.vars[v.Name] = bvSpec{kind: "int", s: bvResize(n, w, signed, bvMathW)}
		}
		body := b.spec(x.Body, inner)
		want(body, "bool", x.Body)
		if x.Forall {
			return bvSpec{kind: "bool", s: fmt.Sprintf("(forall (%s) (=> (and %s) %s))", strings.Join(binders, " "), strings.Join(ranges, " "), body.s)}
		}
		return bvSpec{kind: "bool", s: fmt.Sprintf("(exists (%s) (and %s %s))", strings.Join(binders, " "), strings.Join(ranges, " "), body.s)}
	case *SCall:
		switch x.Fun {
		case "len":
			a := b.spec(x.Args[0], sc)
			want(a, "slice", x.Args[0])
			return bvSpec{kind: "int", s: fmt.Sprintf("((_ zero_extend %d) %s)", bvMathW-64, a.ln)}
		case "ite":
			c, l, r := b.spec(x.Args[0], sc), b.spec(x.Args[1], sc), b.spec(x.Args[2], sc)
			want(c, "bool", x.Args[0])
			if l.kind != r.kind || l.kind == "slice" {
				efail("ite branches differ")
			}
			return bvSpec{kind: l.kind, s: fmt.Sprintf("(ite %s %s %s)", c.s, l.s, r.s)}
		}
		pf := b.vc.prog.lookupPure(b.pkg, x.Fun)
		if pf == nil || pf.Body == nil {
			efail("unknown function %s (bit-vector mode inlines pure functions with bodies)", x.Fun)
		}
		if len(x.Args) != len(pf.Params) {
			efail("%s: wrong number of arguments", x.Fun)
		}
		inner := &bvScope{vars: map[string]bvSpec{}, parent: nil, res: nil, old: sc.old}
		for i, p := range pf.Params {
			inner.vars[p.Name] = b.spec(x.Args[i], sc)
		}
		// the body sees only its own parameters (plus package constants)
		return b.specClosed(pf.Body, inner)
	}
	efail("unsupported expression %s in bit-vector mode", x)
	return bvSpec{}
}

// specClosed elaborates a pure function body: identifiers resolve to its parameters only.
func (b *bvFn) specClosed(x SExpr, sc *bvScope) bvSpec {
	saveFn := b.fn
	// hide the function's own parameters while inside the pure body
	stub := *b
	stub.fn = &ssa.Function{}
	stub.fn.Params = nil
	_ = saveFn
	return stub.spec(x, sc)
}
