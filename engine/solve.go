package main

// Solver portfolio: z3 (4.8.12), z3-new (5.1.0), cvc5.

import (
	"bufio"
	"context"
	"fmt"
	"os"
	"os/exec"
	"path/filepath"
	"strings"
	"sync"
	"time"
)

type SolveResult struct {
	Status   string // "unsat", "sat", "unknown", "timeout", "error"
	Backend  string
	TimeS    float64
	Model    map[string]string
	Raw      string
	AllRaw   map[string]string
	Agree    []string // backends that returned the same definite answer (thorough)
	QuerySize int
	Relaxed  bool // model came from a query without background axioms (candidate only)
	QFOnly   bool // probe answered on the quantifier-free part of the assumptions only
}

func (o *Oblig) query(withModel bool) string { return o.queryOpt(withModel, false) }

// queryOpt: relaxed leaves out the benign background axioms (see declAxiom); a "sat"
// answer to a relaxed query is only a candidate that must be confirmed by replay.
func (o *Oblig) queryOpt(withModel, relaxed bool) string {
	if o.RawQuery != "" {
		return o.RawQuery
	}
	vc := o.vc
	var sb strings.Builder
	sb.WriteString("(set-option :produce-models true)\n")
	sb.WriteString("(set-logic ALL)\n")
	for i, d := range vc.decls {
		if relaxed && vc.benign[i] {
			continue
		}
		sb.WriteString(d)
		sb.WriteString("\n")
	}
	n := o.NFacts
	if n > len(vc.facts) {
		n = len(vc.facts)
	}
	for _, f := range vc.facts[:n] {
		if o.dropQuantified && vc.isQuantified(f) {
			continue
		}
		sb.WriteString("(assert ")
		sb.WriteString(f)
		sb.WriteString(")\n")
	}
	for _, e := range o.Extra {
		sb.WriteString("(assert ")
		sb.WriteString(e)
		sb.WriteString(")\n")
	}
	sb.WriteString("(assert (not ")
	sb.WriteString(o.Goal)
	sb.WriteString("))\n")
	sb.WriteString("(check-sat)\n")
	if withModel && len(o.Inputs) > 0 {
		sb.WriteString("(get-value (")
		for _, in := range o.Inputs {
			if strings.HasPrefix(in.Sort, "(Array") {
				continue
			}
			sb.WriteString(in.Term)
			sb.WriteString(" ")
		}
		sb.WriteString("))\n")
	}
	return sb.String()
}

// isQuantified: the fact contains a quantifier, directly or through a spec function.
func (vc *FnVC) isQuantified(f string) bool {
	if strings.Contains(f, "(forall ") || strings.Contains(f, "(exists ") {
		return true
	}
	for name := range vc.quantPures {
		if strings.Contains(f, "(spec$"+name+" ") {
			return true
		}
	}
	return false
}

type solverSpec struct {
	name string
	args func(file string, timeoutS int) []string
}

var solvers = []solverSpec{
	{"z3-new", func(f string, t int) []string { return []string{"z3-new", fmt.Sprintf("-T:%d", t), f} }},
	{"z3", func(f string, t int) []string { return []string{"z3", fmt.Sprintf("-T:%d", t), f} }},
	{"cvc5", func(f string, t int) []string {
		return []string{"cvc5", fmt.Sprintf("--tlimit=%d", t*1000), "--full-saturate-quant", f}
	}},
}

func runSolver(ctx context.Context, sp solverSpec, file string, timeoutS int) (status, raw string, dur float64) {
	// The limit is CPU time of the solver process (ulimit -t), so that the answer does not
	// depend on what else the machine is doing; the wall-clock limits handed to the solver
	// and to the context are only a backstop at eight times that.
	wall := 8 * timeoutS
	args := sp.args(file, wall)
	cctx, cancel := context.WithTimeout(ctx, time.Duration(wall+2)*time.Second)
	defer cancel()
	shArgs := append([]string{"-c", fmt.Sprintf("ulimit -t %d; exec \"$@\"", timeoutS), "sh"}, args...)
	cmd := exec.CommandContext(cctx, "sh", shArgs...)
	start := time.Now()
	out, _ := cmd.CombinedOutput()
	dur = time.Since(start).Seconds()
	raw = string(out)
	sc := bufio.NewScanner(strings.NewReader(raw))
	status = "unknown"
	for sc.Scan() {
		l := strings.TrimSpace(sc.Text())
		switch l {
		case "unsat", "sat", "unknown", "timeout":
			return l, raw, dur
		}
		if strings.HasPrefix(l, "(error") {
			return "error", raw, dur
		}
	}
	if cctx.Err() != nil {
		status = "timeout"
	}
	return status, raw, dur
}

type Solver struct {
	dir      string
	timeoutS int
	thorough bool
	seq      int
	mu       sync.Mutex
	keep     bool
}

func NewSolver(timeoutS int, thorough bool) (*Solver, error) {
	dir, err := os.MkdirTemp("/var/tmp", "govc-")
	if err != nil {
		return nil, err
	}
	return &Solver{dir: dir, timeoutS: timeoutS, thorough: thorough, keep: os.Getenv("GOVC_KEEP") != ""}, nil
}

func (s *Solver) Close() {
	if !s.keep {
		os.RemoveAll(s.dir)
	}
}

func (s *Solver) Solve(o *Oblig) *SolveResult {
	s.mu.Lock()
	s.seq++
	id := s.seq
	s.mu.Unlock()
	q := o.queryOpt(true, o.Expect == "sat")
	file := filepath.Join(s.dir, fmt.Sprintf("q%05d.smt2", id))
	os.WriteFile(file, []byte(q), 0o644)
	if d := os.Getenv("GOVC_DUMP"); d != "" && strings.Contains(o.Name, d) {
		os.WriteFile("/var/tmp/govc-dump-"+sanitize(o.Name)+".smt2", []byte(q), 0o644)
	}
	res := &SolveResult{AllRaw: map[string]string{}, QuerySize: len(q)}
	start := time.Now()
	defer func() {
		// reachability probe undecided (quantified facts make "sat" hard to establish):
		// fall back to the quantifier-free part of the assumptions
		if o.Expect == "sat" && res.Status != "sat" && res.Status != "unsat" {
			o2 := *o
			o2.dropQuantified = true
			rq := o2.queryOpt(false, true)
			rfile := filepath.Join(s.dir, fmt.Sprintf("q%05d_qf.smt2", id))
			os.WriteFile(rfile, []byte(rq), 0o644)
			st, raw, _ := runSolver(context.Background(), solvers[0], rfile, 5)
			if st == "sat" {
				res.Status = "sat"
				res.Backend = solvers[0].name + " (quantifier-free part only)"
				res.Raw = raw
				res.QFOnly = true
			}
			res.TimeS = time.Since(start).Seconds()
		}
	}()
	defer func() {
		// no model: retry without the background axioms to obtain a candidate input
		if o.Expect == "unsat" && res.Status == "unknown" {
			rq := o.queryOpt(true, true)
			rfile := filepath.Join(s.dir, fmt.Sprintf("q%05d_relaxed.smt2", id))
			os.WriteFile(rfile, []byte(rq), 0o644)
			for _, sp := range []solverSpec{solvers[0], solvers[2]} {
				st, raw, _ := runSolver(context.Background(), sp, rfile, 5)
				if st == "sat" {
					if m := parseModel(raw, o); len(m) > 0 {
						res.Model = m
						res.Relaxed = true
						res.Raw += "\n[relaxed query without background axioms: sat by " + sp.name + "]\n" + truncate(raw, 2000)
						break
					}
				}
			}
			res.TimeS = time.Since(start).Seconds()
		}
	}()

	// stage 1: quick single-solver attempt (cheap obligations dominate)
	if !s.thorough {
		st, raw, _ := runSolver(context.Background(), solvers[0], file, 2)
		res.AllRaw[solvers[0].name] = raw
		if st == "unsat" || st == "sat" {
			res.Status, res.Backend, res.Raw = st, solvers[0].name, raw
			res.TimeS = time.Since(start).Seconds()
			if st == "sat" {
				res.Model = parseModel(raw, o)
			}
			return res
		}
	}
	// stage 2: race all
	ctx, cancel := context.WithCancel(context.Background())
	defer cancel()
	type ans struct {
		name, st, raw string
		dur           float64
	}
	var definite []ans
	// quick tier: an obligation nobody decides within the time limit gets one more round with
	// three times the limit before it is reported (wall-clock limits are unreliable on a
	// loaded machine; a timeout is not a refutation)
	rounds := []int{s.timeoutS}
	if !s.thorough && o.Expect != "sat" {
		rounds = append(rounds, 3*s.timeoutS)
	}
	for _, limit := range rounds {
		ch := make(chan ans, len(solvers))
		for _, sp := range solvers {
			sp := sp
			to := limit
			go func() {
				if o.Expect == "sat" && to > 4 {
					to = 4
				}
				st, raw, d := runSolver(ctx, sp, file, to)
				ch <- ans{sp.name, st, raw, d}
			}()
		}
		// thorough tier: every back end that answers within a grace period after the first
		// definite answer (five times the time that answer took, at least 10 s, at most 60 s)
		// must agree with it; back ends that need longer are recorded as undecided
		var grace <-chan time.Time
	collect:
		for i := 0; i < len(solvers); i++ {
			select {
			case a := <-ch:
				res.AllRaw[a.name] = a.raw
				if a.st == "unsat" || a.st == "sat" {
					definite = append(definite, a)
					if !s.thorough {
						cancel()
						break collect
					}
					if grace == nil {
						g := 5 * time.Since(start)
						if g < 10*time.Second {
							g = 10 * time.Second
						}
						if g > 60*time.Second {
							g = 60 * time.Second
						}
						grace = time.After(g)
					}
				}
			case <-grace:
				cancel()
				break collect
			}
		}
		if len(definite) > 0 {
			break
		}
	}
	res.TimeS = time.Since(start).Seconds()
	if len(definite) == 0 {
		res.Status = "unknown"
		var parts []string
		for n, r := range res.AllRaw {
			first := strings.SplitN(strings.TrimSpace(r), "\n", 2)[0]
			parts = append(parts, n+": "+first)
		}
		res.Raw = strings.Join(parts, "; ")
		return res
	}
	res.Status, res.Backend, res.Raw = definite[0].st, definite[0].name, definite[0].raw
	for _, d := range definite {
		if d.st != res.Status {
			res.Status = "disagree"
			res.Raw = fmt.Sprintf("%s says %s, %s says %s", definite[0].name, definite[0].st, d.name, d.st)
			return res
		}
		res.Agree = append(res.Agree, d.name)
	}
	if res.Status == "sat" {
		for _, d := range definite {
			if m := parseModel(d.raw, o); len(m) > 0 {
				res.Model = m
				break
			}
		}
	}
	return res
}

// parseModel parses the (get-value ...) answer: ((term value) (term value) ...)
func parseModel(raw string, o *Oblig) map[string]string {
	k := strings.Index(raw, "((")
	if k < 0 {
		return nil
	}
	s := raw[k:]
	toks := sexpTokens(s)
	pos := 0
	tree := parseSexp(toks, &pos)
	m := map[string]string{}
	lst, ok := tree.([]interface{})
	if !ok {
		return nil
	}
	byTerm := map[string]string{}
	for _, in := range o.Inputs {
		byTerm[normSexp(in.Term)] = in.Name
	}
	for _, pair := range lst {
		pl, ok := pair.([]interface{})
		if !ok || len(pl) != 2 {
			continue
		}
		term := normSexp(sexpString(pl[0]))
		val := sexpString(pl[1])
		if name, ok := byTerm[term]; ok {
			m[name] = smtValueToString(val)
		}
	}
	return m
}

func normSexp(s string) string {
	return strings.Join(strings.Fields(strings.ReplaceAll(strings.ReplaceAll(s, "(", " ( "), ")", " ) ")), " ")
}

func smtValueToString(v string) string {
	v = strings.TrimSpace(v)
	n := normSexp(v)
	if strings.HasPrefix(n, "( - ") && strings.HasSuffix(n, " )") {
		return "-" + strings.TrimSpace(n[4:len(n)-2])
	}
	return v
}

func sexpTokens(s string) []string {
	var out []string
	i := 0
	for i < len(s) {
		c := s[i]
		switch {
		case c == '(' || c == ')':
			out = append(out, string(c))
			i++
		case c == ' ' || c == '\n' || c == '\t' || c == '\r':
			i++
		case c == '|':
			j := i + 1
			for j < len(s) && s[j] != '|' {
				j++
			}
			out = append(out, s[i:min(j+1, len(s))])
			i = j + 1
		case c == '"':
			j := i + 1
			for j < len(s) && s[j] != '"' {
				j++
			}
			out = append(out, s[i:min(j+1, len(s))])
			i = j + 1
		default:
			j := i
			for j < len(s) && !strings.ContainsRune("() \n\t\r", rune(s[j])) {
				j++
			}
			out = append(out, s[i:j])
			i = j
		}
	}
	return out
}

func parseSexp(toks []string, pos *int) interface{} {
	if *pos >= len(toks) {
		return nil
	}
	t := toks[*pos]
	*pos++
	if t == "(" {
		var lst []interface{}
		for *pos < len(toks) && toks[*pos] != ")" {
			lst = append(lst, parseSexp(toks, pos))
		}
		*pos++
		return lst
	}
	return t
}

func sexpString(x interface{}) string {
	switch x := x.(type) {
	case string:
		return x
	case []interface{}:
		var parts []string
		for _, e := range x {
			parts = append(parts, sexpString(e))
		}
		return "(" + strings.Join(parts, " ") + ")"
	}
	return ""
}
