package main

// SSA -> verification conditions.

import (
	"fmt"
	"go/constant"
	"go/token"
	"go/types"
	"math/big"
	"sort"
	"strings"

	"golang.org/x/tools/go/ssa"
)

type loopInfo struct {
	header *ssa.BasicBlock
	blocks map[*ssa.BasicBlock]bool
	spec   *LoopSpec
	ord    int
}

type modItem struct {
	text  string
	kind  string // "object" (all fields at ref), "field", "elems" (whole backing array), "range"
	ref   string // ref term (entry state)
	owner types.Type
	field int
	elem  types.Type
	lo    string // absolute index range for "range"
	hi    string
	comp  string
	// "objrange": elements [lo,hi) (all of them when lo == "") of the object-typed backing
	// array ref; one item per heap component that holds part of an element
	leaf  *objLeaf
	csort string
}

// objRegionCond: r (an index into the item's component) lies inside the element region
// named by an "objrange" item.
func (vc *FnVC) objRegionCond(m modItem, r string) string {
	vc.elemRef(m.elem, "0", "0")
	efn := "elem$" + shortTypeName(m.elem)
	e := m.leaf.inv(r)
	a := fmt.Sprintf("(%s$arr %s)", efn, e)
	i := fmt.Sprintf("(%s$idx %s)", efn, e)
	c := fmt.Sprintf("(and (= %s %s) (= %s %s)", r, m.leaf.path(fmt.Sprintf("(%s %s %s)", efn, a, i)), a, m.ref)
	if m.lo != "" {
		c += fmt.Sprintf(" (<= %s %s) (< %s %s)", m.lo, i, i, m.hi)
	}
	return c + ")"
}

// objRangeItems builds the "objrange" items for elements [lo,hi) of an object-typed array.
func (vc *FnVC) objRangeItems(text, arr string, el types.Type, lo, hi string) ([]modItem, error) {
	var leaves []objLeaf
	id := func(r string) string { return r }
	if !vc.objLeaves(el, id, id, &leaves) {
		return nil, fmt.Errorf("modifies on a slice of %s: element type not supported", el)
	}
	var out []modItem
	for k := range leaves {
		lf := leaves[k]
		out = append(out, modItem{text: text, kind: "objrange", ref: arr, elem: el, lo: lo, hi: hi, comp: lf.comp, csort: lf.sort, leaf: &lf})
	}
	return out, nil
}

func posStr(fset *token.FileSet, p token.Pos) string {
	if !p.IsValid() {
		return ""
	}
	pp := fset.Position(p)
	f := pp.Filename
	f = strings.TrimPrefix(f, "/repo/")
	return fmt.Sprintf("%s:%d", f, pp.Line)
}

func (vc *FnVC) ob(kind, key, text, goal string, pos token.Pos) *Oblig {
	base := fmt.Sprintf("%s : %s", vc.fnName(), key)
	vc.obCount[base]++
	name := base
	if n := vc.obCount[base]; n > 1 {
		name = fmt.Sprintf("%s~%d", base, n)
	}
	o := &Oblig{Name: name, Kind: kind, Text: text, Goal: goal, NFacts: len(vc.facts), Fn: vc.fnName(), Expect: "unsat", vc: vc}
	if vc.prog != nil {
		o.Pos = posStr(vc.prog.fset, pos)
	}
	vc.obligs = append(vc.obligs, o)
	return o
}

// obAssert creates an obligation "reach => cond" at the current point, then assumes it.
func (vc *FnVC) obAssert(kind, key, text, cond string, pos token.Pos) {
	if cond == "true" {
		return
	}
	if kind == "frame" && vc.fc != nil && vc.fc.NoFrame {
		return
	}
	if kind == "frame" && vc.fc != nil && vc.fc.OwnWrites && (strings.HasPrefix(key, "frame@callee-modifies") || strings.Contains(key, "(passed to ")) {
		return
	}
	if vc.sweep {
		// safety sweep: no frame, callee preconditions taken for granted
		if kind == "frame" {
			return
		}
		if kind == "call-pre" || kind == "call-arg" {
			vc.fact(fmt.Sprintf("(=> %s %s)", vc.curReach, cond))
			return
		}
	}
	goal := fmt.Sprintf("(=> %s %s)", vc.curReach, cond)
	vc.ob(kind, key, text, goal, pos)
	vc.fact(goal)
}

func (vc *FnVC) fnName() string {
	if vc.fn == nil {
		if vc.fc != nil && vc.fc.MathLemma {
			return vc.lemmaName()
		}
		return "?"
	}
	return fnDisplayName(vc.fn)
}

func fnDisplayName(fn *ssa.Function) string {
	pkg := ""
	if fn.Pkg != nil {
		pkg = strings.TrimPrefix(fn.Pkg.Pkg.Path(), "github.com/ethereum/go-ethereum/")
	}
	if recv := fn.Signature.Recv(); recv != nil {
		rt := recv.Type()
		star := ""
		if p, ok := rt.(*types.Pointer); ok {
			rt = p.Elem()
			star = "*"
		}
		n := types.TypeString(rt, func(*types.Package) string { return "" })
		return fmt.Sprintf("%s.(%s%s).%s", pkg, star, n, fn.Name())
	}
	return pkg + "." + fn.Name()
}

// ------------------------------------------------------------------ values

func (vc *FnVC) constTerm(c *ssa.Const) Term {
	t := c.Type()
	srt := vc.sortOf(t)
	if c.Value == nil {
		// zero value
		return Term{S: vc.zeroValue(t), Sort: srt, T: t}
	}
	switch c.Value.Kind() {
	case constant.Bool:
		if constant.BoolVal(c.Value) {
			return Term{S: "true", Sort: "Bool", T: t}
		}
		return Term{S: "false", Sort: "Bool", T: t}
	case constant.Int:
		bi, _ := new(big.Int).SetString(c.Value.ExactString(), 10)
		return Term{S: smtInt(bi), Sort: "Int", T: t}
	case constant.String:
		return Term{S: vc.internString(constant.StringVal(c.Value)), Sort: "Int", T: t}
	case constant.Float:
		if iv := constant.ToInt(c.Value); iv.Kind() == constant.Int {
			bi, _ := new(big.Int).SetString(iv.ExactString(), 10)
			return Term{S: smtInt(bi), Sort: "Int", T: t}
		}
		return Term{S: vc.freshConst("flt", "Int"), Sort: "Int", T: t}
	}
	return Term{S: vc.freshConst("const", srt), Sort: srt, T: t}
}

func (vc *FnVC) zeroValue(t types.Type) string {
	if isUint256(t) || isBigInt(t) {
		return "0"
	}
	switch u := t.Underlying().(type) {
	case *types.Basic:
		if u.Info()&types.IsBoolean != 0 {
			return "false"
		}
		if u.Kind() == types.String {
			return vc.internString("")
		}
		return "0"
	case *types.Slice:
		return "(mkSlice 0 0 0 0)"
	case *types.Struct:
		if u.NumFields() == 0 {
			return vc.ctorName(t)
		}
		var parts []string
		for i := 0; i < u.NumFields(); i++ {
			parts = append(parts, vc.zeroValue(u.Field(i).Type()))
		}
		return fmt.Sprintf("(%s %s)", vc.ctorName(t), strings.Join(parts, " "))
	case *types.Array:
		return fmt.Sprintf("((as const %s) %s)", vc.sortOf(t), vc.zeroValue(u.Elem()))
	}
	return "0"
}

func (vc *FnVC) val(v ssa.Value) Term {
	if t, ok := vc.vals[v]; ok {
		return t
	}
	switch v := v.(type) {
	case *ssa.Const:
		return vc.constTerm(v)
	case *ssa.Global:
		// address of a global: model as a ref constant
		name := "GA$" + mangle(v.Pkg.Pkg.Path()) + "." + v.Name()
		vc.declConst(name, "Int")
		return Term{S: name, Sort: "Int", T: v.Type()}
	case *ssa.Function:
		name := "FN$" + mangle(v.String())
		vc.declConst(name, "Int")
		return Term{S: name, Sort: "Int", T: v.Type()}
	case *ssa.Builtin:
		return Term{S: "0", Sort: "Int", T: v.Type()}
	case *ssa.FreeVar:
		name := "fv$" + mangle(v.Name())
		vc.declConst(name, "Int")
		t := Term{S: name, Sort: vc.sortOf(v.Type()), T: v.Type()}
		vc.vals[v] = t
		return t
	}
	// value defined later in block order (should not happen in RPO except phis) or unsupported
	srt := vc.sortOf(v.Type())
	n := vc.declConst("v$"+mangle(v.Name()), srt)
	t := Term{S: n, Sort: srt, T: v.Type()}
	vc.vals[v] = t
	return t
}

func (vc *FnVC) define(v ssa.Value, term string) Term {
	srt := vc.sortOf(v.Type())
	n := vc.declConst("v$"+mangle(v.Name()), srt)
	vc.fact(fmt.Sprintf("(= %s %s)", n, term))
	t := Term{S: n, Sort: srt, T: v.Type()}
	vc.vals[v] = t
	return t
}

func (vc *FnVC) defineFresh(v ssa.Value) Term {
	srt := vc.sortOf(v.Type())
	n := vc.declConst("v$"+mangle(v.Name()), srt)
	t := Term{S: n, Sort: srt, T: v.Type()}
	vc.vals[v] = t
	vc.addRange(t)
	return t
}

// ------------------------------------------------------------------ CFG helpers

func (vc *FnVC) computeLoops() {
	fn := vc.fn
	vc.loopInfo = map[*ssa.BasicBlock]*loopInfo{}
	for _, b := range fn.Blocks {
		for _, s := range b.Succs {
			if s.Dominates(b) {
				// back edge b -> s
				li := vc.loopInfo[s]
				if li == nil {
					li = &loopInfo{header: s, blocks: map[*ssa.BasicBlock]bool{s: true}}
					vc.loopInfo[s] = li
				}
				// natural loop: all blocks that reach b without passing s
				var stack []*ssa.BasicBlock
				if !li.blocks[b] {
					li.blocks[b] = true
					stack = append(stack, b)
				}
				for len(stack) > 0 {
					x := stack[len(stack)-1]
					stack = stack[:len(stack)-1]
					for _, p := range x.Preds {
						if !li.blocks[p] {
							li.blocks[p] = true
							stack = append(stack, p)
						}
					}
				}
			}
		}
	}
	// ordinal by source position of header
	var hs []*ssa.BasicBlock
	for h := range vc.loopInfo {
		hs = append(hs, h)
	}
	sort.Slice(hs, func(i, j int) bool { return loopPos(hs[i]) < loopPos(hs[j]) })
	for i, h := range hs {
		vc.loopInfo[h].ord = i + 1
	}
	if vc.fc != nil {
		for _, ls := range vc.fc.Loops {
			for _, li := range vc.loopInfo {
				if li.ord == ls.Ordinal {
					li.spec = ls
				}
			}
		}
	}
}

func loopPos(b *ssa.BasicBlock) token.Pos {
	// use the minimal valid position among the instructions of the header
	var best token.Pos
	for _, in := range b.Instrs {
		// phis carry the position of the variable's declaration, which for a variable shared
		// with an enclosing loop lies before that loop's own condition
		if _, isPhi := in.(*ssa.Phi); isPhi {
			continue
		}
		if p := in.Pos(); p.IsValid() && (best == 0 || p < best) {
			best = p
		}
	}
	if best == 0 {
		for _, in := range b.Instrs {
			if p := in.Pos(); p.IsValid() && (best == 0 || p < best) {
				best = p
			}
		}
	}
	if best == 0 {
		// fall back to index order
		return token.Pos(1<<30 + b.Index)
	}
	return best
}

func isBackEdge(from, to *ssa.BasicBlock) bool { return to.Dominates(from) }

// rpo returns blocks in reverse post-order ignoring back edges.
func rpo(fn *ssa.Function) []*ssa.BasicBlock {
	seen := map[*ssa.BasicBlock]bool{}
	var order []*ssa.BasicBlock
	var visit func(b *ssa.BasicBlock)
	visit = func(b *ssa.BasicBlock) {
		seen[b] = true
		for _, s := range b.Succs {
			if !seen[s] && !isBackEdge(b, s) {
				visit(s)
			}
		}
		order = append(order, b)
	}
	if len(fn.Blocks) > 0 {
		visit(fn.Blocks[0])
	}
	for i, j := 0, len(order)-1; i < j; i, j = i+1, j-1 {
		order[i], order[j] = order[j], order[i]
	}
	return order
}

// ------------------------------------------------------------------ name resolution

// resolveName finds the SSA value bound to source variable `name` at the start of block b
// (phis of b included), walking up the dominator tree.
func (vc *FnVC) resolveName(name string, b *ssa.BasicBlock, before int) (ssa.Value, bool) {
	blk := b
	limit := before
	for blk != nil {
		n := len(blk.Instrs)
		if limit >= 0 && blk == b {
			n = limit
		}
		for i := n - 1; i >= 0; i-- {
			switch in := blk.Instrs[i].(type) {
			case *ssa.DebugRef:
				if in.IsAddr {
					continue
				}
				if id, ok := in.Expr.(interface{ String() string }); ok {
					_ = id
				}
				if obj := in.Object(); obj != nil && obj.Name() == name {
					if _, isVar := obj.(*types.Var); isVar {
						return in.X, true
					}
				}
			case *ssa.Phi:
				if in.Comment == name {
					return in, true
				}
			}
		}
		blk = blk.Idom()
		limit = -1
	}
	for _, p := range vc.fn.Params {
		if p.Name() == name {
			return p, true
		}
	}
	return nil, false
}

// allocLocalTerm: a local variable that lives in memory (address taken, named result): its
// current content read from the environment's heap.
func (vc *FnVC) allocLocalTerm(name string, env *Env) (Term, bool) {
	// a variable captured by a function literal: go/ssa passes a pointer to its cell
	for _, fv := range vc.fn.FreeVars {
		if fv.Name() != name {
			continue
		}
		ref, ok := vc.vals[fv]
		pt, isPtr := fv.Type().Underlying().(*types.Pointer)
		if !ok || !isPtr {
			return Term{}, false
		}
		et := pt.Elem()
		return Term{S: vc.loadObject(ref.S, et, env.curHeap()), Sort: vc.sortOf(et), T: et}, true
	}
	for _, b := range vc.fn.Blocks {
		for _, in := range b.Instrs {
			a, ok := in.(*ssa.Alloc)
			if !ok || a.Comment != name {
				continue
			}
			ref, ok := vc.vals[a]
			if !ok {
				return Term{}, false
			}
			et := a.Type().Underlying().(*types.Pointer).Elem()
			return Term{S: vc.loadObject(ref.S, et, env.curHeap()), Sort: vc.sortOf(et), T: et}, true
		}
	}
	return Term{}, false
}

// ------------------------------------------------------------------ main translation

func (vc *FnVC) setupEntry() {
	fn := vc.fn
	// parameters
	for i, p := range fn.Params {
		srt := vc.sortOf(p.Type())
		n := vc.declConst("p$"+mangle(p.Name()), srt)
		t := Term{S: n, Sort: srt, T: p.Type()}
		vc.vals[p] = t
		vc.addRange(t)
		if _, isPtr := p.Type().Underlying().(*types.Pointer); isPtr {
			nilable := false
			if vc.fc != nil {
				for _, nn := range vc.fc.Nilable {
					if nn == p.Name() {
						nilable = true
					}
				}
			}
			if !nilable {
				vc.fact(fmt.Sprintf("(> %s 0)", n))
				vc.assume("pointer parameters and receivers are non-nil unless declared nilable (nil dereference is not an obligation)")
			}
			vc.decl("allocated0", "(declare-fun allocated0 (Int) Bool)")
			vc.fact(fmt.Sprintf("(=> (> %s 0) (allocated0 %s))", n, n))
		}
		if _, isSl := p.Type().Underlying().(*types.Slice); isSl {
			vc.decl("allocated0", "(declare-fun allocated0 (Int) Bool)")
			vc.fact(fmt.Sprintf("(=> (> (s.arr %s) 0) (allocated0 (s.arr %s)))", n, n))
		}
		name := p.Name()
		if vc.fc != nil && i < len(vc.fc.Params) && vc.fc.Params[i] != "_" {
			// "result" is reserved in contracts (the value returned); a parameter of that name
			// must be renamed in the header
			if vc.fc.Params[i] != name && name != "result" {
				vc.notes = append(vc.notes, fmt.Sprintf("DRIFT parameter %d is named %q in the contract header, %q in the code", i, vc.fc.Params[i], name))
			}
			name = vc.fc.Params[i]
		}
		vc.paramTerms[name] = t
		vc.paramTerms[p.Name()] = t
	}
	for _, fv := range fn.FreeVars {
		vc.val(fv)
	}
	// named results
	res := fn.Signature.Results()
	for i := 0; i < res.Len(); i++ {
		n := res.At(i).Name()
		if vc.fc != nil && i < len(vc.fc.Results) && vc.fc.Results[i] != "" {
			n = vc.fc.Results[i]
		}
		vc.resultNames = append(vc.resultNames, n)
	}
	if vc.fc != nil {
		for _, g := range vc.fc.Ghosts {
			env := vc.entryEnv()
			srt, gt := env.specType(g.Type)
			n := vc.declConst("ghost$"+g.Name, srt)
			vc.ghostTerms[g.Name] = Term{S: n, Sort: srt, T: gt}
		}
	}
}

func (vc *FnVC) entryEnv() *Env {
	env := &Env{vc: vc, vars: map[string]Term{}, pkg: vc.pkg}
	for k, v := range vc.paramTerms {
		env.vars[k] = v
	}
	for k, v := range vc.ghostTerms {
		env.vars[k] = v
	}
	entry := func(comp, sort string) string { return vc.entryComp(comp, sort) }
	env.heap = entry
	env.oldHeap = entry
	if vc.fn != nil && len(vc.fn.FreeVars) > 0 {
		// captured variables of a function literal are readable by name in its contract
		env.lookup = func(name string) (Term, bool) {
			for _, fv := range vc.fn.FreeVars {
				if fv.Name() == name {
					return vc.allocLocalTerm(name, env)
				}
			}
			return Term{}, false
		}
	}
	return env
}

func (vc *FnVC) curEnv() *Env {
	env := vc.entryEnv()
	env.heap = func(comp, sort string) string { return vc.heapGet(comp, sort) }
	env.cellHook = func(comp, sort, ref string) string { return vc.readCell(comp, sort, ref) }
	return env
}

// Translate builds facts and obligations for the function body.
func (vc *FnVC) Translate() {
	fn := vc.fn
	fc := vc.fc
	vc.nowrap = fc != nil && fc.NoWrap
	vc.setupEntry()
	vc.computeLoops()

	// preconditions
	env := vc.entryEnv()
	var reqs []string
	if fc != nil {
		for _, r := range fc.Requires {
			s, err := env.ElabBool(r.Expr)
			if err != nil {
				vc.errorf("requires %q: %v", r.Text, err)
				continue
			}
			reqs = append(reqs, s)
			vc.fact(s)
		}
		vc.elabModifies(env)
		for _, u := range fc.Uses {
			vc.useLemma(u)
		}
		for _, gv := range fc.GhostVars {
			comp, sort, es := ghostComp(gv)
			t, err := env.Elab(gv.Init.Expr)
			if err != nil || t.Sort != es {
				vc.errorf("ghostvar %s: bad initial value %q", gv.Name, gv.Init.Text)
				continue
			}
			vc.fact(fmt.Sprintf("(= (select %s 0) %s)", vc.entryComp(comp, sort), t.S))
		}
	}
	// vacuity probe: preconditions satisfiable
	pre := vc.ob("presat", "requires-satisfiable", "conjunction of requires is satisfiable", "false", fn.Pos())
	pre.Expect = "sat"

	order := rpo(fn)
	for _, b := range order {
		vc.translateBlock(b)
	}
	// loops without invariants
	for _, li := range vc.loopInfo {
		if li.spec == nil {
			vc.notes = append(vc.notes, fmt.Sprintf("loop %d has no invariant: state havocked at header (only 'true' assumed)", li.ord))
		}
	}
	// model inputs for counterexamples: only memory the VC actually mentions
	vc.collectInputs()
}

func (vc *FnVC) collectInputs() {
	for _, p := range vc.fn.Params {
		vc.addInputs(p.Name(), vc.vals[p].S, p.Type(), 0)
	}
	for n, g := range vc.ghostTerms {
		vc.inputs = append(vc.inputs, ModelVar{"ghost " + n, g.S, g.Sort})
	}
}

func (vc *FnVC) elabModifies(env *Env) {
	for _, item := range vc.fc.Modifies {
		mi, err := vc.elabModItem(env, item)
		if err != nil {
			vc.errorf("modifies %q: %v", item, err)
			continue
		}
		vc.modItems = append(vc.modItems, mi...)
	}
}

// elabModItem: "*g" | "g.f" | "s[..]" | "s[lo:hi]" | "*g.inner"
func (vc *FnVC) elabModItem(env *Env, item string) (out []modItem, err error) {
	defer func() {
		if r := recover(); r != nil {
			if ee, ok := r.(elabErr); ok {
				err = fmt.Errorf("%s", string(ee))
				return
			}
			panic(r)
		}
	}()
	item = strings.TrimSpace(item)
	if strings.HasPrefix(item, "typeof ") {
		// every object of the named struct type (any ref): for objects reached through
		// maps or pointer fields whose identity the contract cannot name
		t := env.resolveTypeText(strings.TrimSpace(strings.TrimPrefix(item, "typeof ")))
		if sl, isSl := t.Underlying().(*types.Slice); isSl && !isObjectType(sl.Elem()) {
			// every backing array of that element type (buffers that are reallocated on the way)
			c, _ := vc.elemComp(sl.Elem())
			return []modItem{{text: item, kind: "anyelems", elem: sl.Elem(), comp: c}}, nil
		}
		st := structOf(t)
		if st == nil {
			return nil, fmt.Errorf("typeof wants a struct type")
		}
		for i := 0; i < st.NumFields(); i++ {
			if isObjectType(st.Field(i).Type()) {
				continue
			}
			c, _ := vc.fieldComp(t, i)
			out = append(out, modItem{text: item, kind: "anyref", owner: t, field: i, comp: c})
		}
		return out, nil
	}
	if strings.HasSuffix(item, "[..]") {
		x, perr := ParseSpecExpr(strings.TrimSuffix(item, "[..]"))
		if perr != nil {
			return nil, perr
		}
		t := env.elab(x)
		if mt, ok := typeUnder[*types.Map](t.T); ok {
			vC, _, hC, _ := vc.mapComps(mt.Key(), mt.Elem())
			return []modItem{{text: item, kind: "field", ref: t.S, comp: vC}, {text: item, kind: "field", ref: t.S, comp: hC}}, nil
		}
		if t.Sort == "Slice" {
			st, _ := typeUnder[*types.Slice](t.T)
			c, _ := vc.elemComp(st.Elem())
			if isObjectType(st.Elem()) {
				return vc.objRangeItems(item, fmt.Sprintf("(s.arr %s)", t.S), st.Elem(), "", "")
			}
			return []modItem{{text: item, kind: "elems", ref: fmt.Sprintf("(s.arr %s)", t.S), elem: st.Elem(), comp: c}}, nil
		}
		if pt, ok := typeUnder[*types.Pointer](t.T); ok {
			if at, ok := typeUnder[*types.Array](pt.Elem()); ok {
				c, _ := vc.elemComp(at.Elem())
				return []modItem{{text: item, kind: "elems", ref: t.S, elem: at.Elem(), comp: c}}, nil
			}
		}
		return nil, fmt.Errorf("not a slice or array pointer")
	}
	x, perr := ParseSpecExpr(item)
	if perr != nil {
		return nil, perr
	}
	switch x := x.(type) {
	case *SUnary:
		if x.Op == "*" {
			if id, isId := x.X.(*SIdent); isId && env.locVars != nil {
				if l, ok := env.locVars[id.Name]; ok {
					if l.idx != "" {
						return []modItem{{text: item, kind: "range", ref: l.ref, elem: l.T, comp: l.comp, lo: l.idx, hi: fmt.Sprintf("(+ %s 1)", l.idx)}}, nil
					}
					return []modItem{{text: item, kind: "field", ref: l.ref, comp: l.comp}}, nil
				}
			}
			t := env.elab(x.X)
			pt, ok := typeUnder[*types.Pointer](t.T)
			if !ok {
				return nil, fmt.Errorf("not a pointer")
			}
			return vc.objectModItems(item, t.S, pt.Elem()), nil
		}
	case *SSlice:
		t := env.elab(x.X)
		if t.Sort != "Slice" {
			return nil, fmt.Errorf("not a slice")
		}
		st, _ := typeUnder[*types.Slice](t.T)
		lo, hi := "0", fmt.Sprintf("(s.len %s)", t.S)
		if x.Lo != nil {
			lo = env.elab(x.Lo).S
		}
		if x.Hi != nil {
			hi = env.elab(x.Hi).S
		}
		if isObjectType(st.Elem()) {
			return vc.objRangeItems(item, fmt.Sprintf("(s.arr %s)", t.S), st.Elem(), fmt.Sprintf("(+ (s.off %s) %s)", t.S, lo), fmt.Sprintf("(+ (s.off %s) %s)", t.S, hi))
		}
		c, _ := vc.elemComp(st.Elem())
		return []modItem{{text: item, kind: "range", ref: fmt.Sprintf("(s.arr %s)", t.S), elem: st.Elem(), comp: c,
			lo: fmt.Sprintf("(+ (s.off %s) %s)", t.S, lo), hi: fmt.Sprintf("(+ (s.off %s) %s)", t.S, hi)}}, nil
	case *SSel:
		var base Term
		if inner, isSel := x.X.(*SSel); isSel {
			// field of an embedded struct: the embedded object's reference
			base = env.elabSel(inner, true)
		} else {
			base = env.elab(x.X)
		}
		bt := base.T
		if bt == nil {
			return nil, fmt.Errorf("typeless base")
		}
		pt, ok := bt.Underlying().(*types.Pointer)
		if !ok {
			return nil, fmt.Errorf("modifies field of non-pointer %s", x.X)
		}
		el := pt.Elem()
		obj, index, _ := types.LookupFieldOrMethod(el, true, vc.pkg, x.Name)
		if n, ok2 := el.(*types.Named); ok2 && (obj == nil) && n.Obj().Pkg() != nil {
			obj, index, _ = types.LookupFieldOrMethod(el, true, n.Obj().Pkg(), x.Name)
		}
		if _, ok := obj.(*types.Var); !ok || len(index) != 1 {
			return nil, fmt.Errorf("no direct field %s", x.Name)
		}
		st := el.Underlying().(*types.Struct)
		ft := st.Field(index[0]).Type()
		if isObjectType(ft) {
			return vc.objectModItems(item, vc.fldRef(el, index[0], base.S), ft), nil
		}
		c, _ := vc.fieldComp(el, index[0])
		return []modItem{{text: item, kind: "field", ref: base.S, owner: el, field: index[0], comp: c}}, nil
	}
	return nil, fmt.Errorf("unsupported modifies item")
}

func (vc *FnVC) objectModItems(text, ref string, t types.Type) []modItem {
	if isUint256(t) || isBigInt(t) {
		c, _ := vc.cellComp(t)
		return []modItem{{text: text, kind: "field", ref: ref, comp: c}}
	}
	var out []modItem
	switch u := t.Underlying().(type) {
	case *types.Struct:
		for i := 0; i < u.NumFields(); i++ {
			ft := u.Field(i).Type()
			if isObjectType(ft) {
				out = append(out, vc.objectModItems(text, vc.fldRef(t, i, ref), ft)...)
			} else {
				c, _ := vc.fieldComp(t, i)
				out = append(out, modItem{text: text, kind: "field", ref: ref, owner: t, field: i, comp: c})
			}
		}
	case *types.Array:
		c, _ := vc.elemComp(u.Elem())
		out = append(out, modItem{text: text, kind: "elems", ref: ref, elem: u.Elem(), comp: c})
	default:
		c, _ := vc.cellComp(t)
		out = append(out, modItem{text: text, kind: "field", ref: ref, comp: c})
	}
	return out
}

// rootIsFresh reports whether ref term is (a sub-object of) a local allocation.
func (vc *FnVC) rootIsFresh(ref string) bool {
	for r := range vc.freshRoots {
		if ref == r || strings.Contains(ref, " "+r+")") || strings.Contains(ref, " "+r+" ") {
			return true
		}
	}
	return false
}

// checkWrite emits the frame obligation for a write to comp at ref (idx for arrays).
func (vc *FnVC) checkWrite(comp, ref, idx, what string, pos token.Pos) {
	if vc.fc == nil || vc.rootIsFresh(ref) {
		return
	}
	var alts []string
	for _, m := range vc.modItems {
		if m.comp != comp {
			continue
		}
		switch m.kind {
		case "anyref", "anyelems":
			return
		case "field", "elems":
			alts = append(alts, fmt.Sprintf("(= %s %s)", ref, m.ref))
		case "objrange":
			alts = append(alts, vc.objRegionCond(m, ref))
		case "range":
			if idx == "" {
				continue
			}
			alts = append(alts, fmt.Sprintf("(and (= %s %s) (<= %s %s) (< %s %s))", ref, m.ref, m.lo, idx, idx, m.hi))
		}
	}
	// writes to objects allocated by this function (fresh) reached through loaded
	// pointers cannot be told apart syntactically; they must be listed or proved equal.
	cond := "false"
	if len(alts) == 1 {
		cond = alts[0]
	} else if len(alts) > 1 {
		cond = "(or " + strings.Join(alts, " ") + ")"
	}
	if len(vc.allocRefs) > 0 {
		var fr []string
		for _, a := range vc.allocRefs {
			fr = append(fr, fmt.Sprintf("(= %s %s)", ref, a))
		}
		cond = "(or " + cond + " " + strings.Join(fr, " ") + ")"
	}
	// objects that did not exist at entry (allocated by this activation or its callees)
	// are invisible to the caller: writing them needs no permission
	vc.decl("allocated0", "(declare-fun allocated0 (Int) Bool)")
	cond = fmt.Sprintf("(or %s (not (allocated0 %s)))", cond, ref)
	vc.obAssert("frame", "frame@"+what, "write to "+what+" is permitted by the modifies clause", cond, pos)
}

func (vc *FnVC) translateBlock(b *ssa.BasicBlock) {
	fn := vc.fn
	vc.curBlock = b
	li := vc.loopInfo[b]
	// reach + incoming heap
	var fwdPreds []*ssa.BasicBlock
	for _, p := range b.Preds {
		if !isBackEdge(p, b) {
			fwdPreds = append(fwdPreds, p)
		}
	}
	if b == fn.Blocks[0] {
		vc.curReach = "true"
		vc.curHeap = map[string]string{}
	} else {
		var edges []string
		for _, p := range fwdPreds {
			if e, ok := vc.edgeCond[[2]*ssa.BasicBlock{p, b}]; ok {
				edges = append(edges, e)
			}
		}
		if len(edges) == 0 {
			// unreachable block (e.g. recover block)
			vc.curReach = "false"
			vc.curHeap = map[string]string{}
			vc.reach[b] = "false"
			vc.heapOut[b] = vc.curHeap
			vc.edgeOut(b, "false")
			return
		}
		rn := vc.declConst(fmt.Sprintf("reach$%d", b.Index), "Bool")
		if len(edges) == 1 {
			vc.fact(fmt.Sprintf("(= %s %s)", rn, edges[0]))
		} else {
			vc.fact(fmt.Sprintf("(= %s (or %s))", rn, strings.Join(edges, " ")))
		}
		vc.curReach = rn
		vc.curHeap = vc.mergeHeaps(b, fwdPreds)
	}
	// cell cache: inherited only along a unique forward edge into a non-loop-header block
	vc.cellCache = map[string]string{}
	if li == nil && len(fwdPreds) == len(b.Preds) && len(fwdPreds) > 0 {
		// keep what every predecessor agrees on (dead predecessors are ignored)
		var live []*ssa.BasicBlock
		for _, p := range fwdPreds {
			if e, ok := vc.edgeCond[[2]*ssa.BasicBlock{p, b}]; ok && e != "false" && vc.reach[p] != "false" {
				live = append(live, p)
			}
		}
		if len(live) > 0 {
			for k, v := range vc.cellCacheOut[live[0]] {
				same := true
				for _, p := range live[1:] {
					if vc.cellCacheOut[p][k] != v {
						same = false
						break
					}
				}
				if same {
					vc.cellCache[k] = v
					continue
				}
				// cached in every predecessor with different values: merge explicitly
				all := true
				for _, p := range live[1:] {
					if _, ok := vc.cellCacheOut[p][k]; !ok {
						all = false
					}
				}
				if all {
					m := vc.freshConst("cellm", "Int")
					for _, p := range live {
						vc.fact(fmt.Sprintf("(=> %s (= %s %s))", vc.edgeCond[[2]*ssa.BasicBlock{p, b}], m, vc.cellCacheOut[p][k]))
					}
					vc.cellCache[k] = m
				}
			}
		}
	}
	// phis (non-loop-header): per-edge equalities
	if li == nil {
		for _, in := range b.Instrs {
			phi, ok := in.(*ssa.Phi)
			if !ok {
				break
			}
			t := vc.defineFresh(phi)
			for i, p := range b.Preds {
				e, ok := vc.edgeCond[[2]*ssa.BasicBlock{p, b}]
				if !ok {
					continue
				}
				vc.fact(fmt.Sprintf("(=> %s (= %s %s))", e, t.S, vc.val(phi.Edges[i]).S))
			}
		}
	} else {
		vc.loopHeader(b, li, fwdPreds)
	}
	vc.reach[b] = vc.curReach

	for idx, in := range b.Instrs {
		if _, ok := in.(*ssa.Phi); ok {
			continue
		}
		vc.instr(in, idx)
	}
	vc.heapOut[b] = vc.curHeap
	if vc.cellCacheOut == nil {
		vc.cellCacheOut = map[*ssa.BasicBlock]map[string]string{}
	}
	vc.cellCacheOut[b] = vc.cellCache
}

func (vc *FnVC) mergeHeaps(b *ssa.BasicBlock, preds []*ssa.BasicBlock) map[string]string {
	out := map[string]string{}
	var live []*ssa.BasicBlock
	for _, p := range preds {
		if _, ok := vc.edgeCond[[2]*ssa.BasicBlock{p, b}]; ok && vc.heapOut[p] != nil {
			live = append(live, p)
		}
	}
	if len(live) == 1 {
		for k, v := range vc.heapOut[live[0]] {
			out[k] = v
		}
		return out
	}
	comps := map[string]bool{}
	for _, p := range live {
		for k := range vc.heapOut[p] {
			comps[k] = true
		}
	}
	for _, c := range sortedKeys(comps) {
		srt := vc.compSort[c]
		var terms []string
		same := true
		for _, p := range live {
			t, ok := vc.heapOut[p][c]
			if !ok {
				t = vc.entryComp(c, srt)
			}
			terms = append(terms, t)
			if t != terms[0] {
				same = false
			}
		}
		if same {
			out[c] = terms[0]
			continue
		}
		vc.heapVer++
		n := fmt.Sprintf("%s@%d", c, vc.heapVer)
		vc.declConst(n, srt)
		for i, p := range live {
			vc.fact(fmt.Sprintf("(=> %s (= %s %s))", vc.edgeCond[[2]*ssa.BasicBlock{p, b}], n, terms[i]))
		}
		out[c] = n
	}
	return out
}

// edgeOut records the edge conditions out of block b given its terminator.
func (vc *FnVC) edgeOut(b *ssa.BasicBlock, reach string) {
	if len(b.Instrs) == 0 {
		return
	}
	switch t := b.Instrs[len(b.Instrs)-1].(type) {
	case *ssa.If:
		c := vc.val(t.Cond).S
		if reach == "false" {
			c = "false"
		}
		vc.edgeCond[[2]*ssa.BasicBlock{b, b.Succs[0]}] = fmt.Sprintf("(and %s %s)", reach, c)
		if b.Succs[0] == b.Succs[1] {
			vc.edgeCond[[2]*ssa.BasicBlock{b, b.Succs[0]}] = reach
		} else {
			vc.edgeCond[[2]*ssa.BasicBlock{b, b.Succs[1]}] = fmt.Sprintf("(and %s (not %s))", reach, c)
		}
	case *ssa.Jump:
		vc.edgeCond[[2]*ssa.BasicBlock{b, b.Succs[0]}] = reach
	}
}

// invEnv builds the environment for a loop invariant at header h, with phi overrides.
func (vc *FnVC) invEnv(h *ssa.BasicBlock, override map[ssa.Value]Term, heap map[string]string) *Env {
	env := vc.entryEnv()
	env.heap = func(comp, sort string) string {
		if t, ok := heap[comp]; ok {
			return t
		}
		return vc.entryComp(comp, sort)
	}
	env.lookup = func(name string) (Term, bool) {
		v, ok := vc.resolveName(name, h, vc.firstNonPhi(h))
		if !ok {
			return vc.allocLocalTerm(name, env)
		}
		if t, ok := override[v]; ok {
			return t, true
		}
		return vc.val(v), true
	}
	// params shadowed by loop variables with the same name: lookup first
	base := env.vars
	env.vars = map[string]Term{}
	for k, v := range base {
		if _, isParam := vc.paramTerms[k]; isParam {
			// prefer current SSA binding if the parameter was reassigned (phi named like it)
			if pv, ok := vc.resolveName(k, h, vc.firstNonPhi(h)); ok {
				if _, isP := pv.(*ssa.Parameter); !isP {
					continue
				}
			}
		}
		env.vars[k] = v
	}
	// entry values of parameters remain reachable as name0? keep simple: old(x) gives entry value
	env.oldVars = map[string]Term{}
	for k, v := range vc.paramTerms {
		env.oldVars[k] = v
	}
	return env
}

func (vc *FnVC) firstNonPhi(b *ssa.BasicBlock) int {
	for i, in := range b.Instrs {
		if _, ok := in.(*ssa.Phi); !ok {
			return i
		}
	}
	return len(b.Instrs)
}

func (vc *FnVC) loopHeader(h *ssa.BasicBlock, li *loopInfo, fwdPreds []*ssa.BasicBlock) {
	pos := loopPos(h)
	preHeap := vc.curHeap
	preReach := vc.curReach
	// 1. init: invariants hold on entry, with phis bound to incoming (merged) values
	override := map[ssa.Value]Term{}
	var phis []*ssa.Phi
	for _, in := range h.Instrs {
		phi, ok := in.(*ssa.Phi)
		if !ok {
			break
		}
		phis = append(phis, phi)
		srt := vc.sortOf(phi.Type())
		n := vc.declConst(fmt.Sprintf("init$%s", mangle(phi.Name())), srt)
		for i, p := range h.Preds {
			if isBackEdge(p, h) {
				continue
			}
			if e, ok := vc.edgeCond[[2]*ssa.BasicBlock{p, h}]; ok {
				vc.fact(fmt.Sprintf("(=> %s (= %s %s))", e, n, vc.val(phi.Edges[i]).S))
			}
		}
		override[phi] = Term{S: n, Sort: srt, T: phi.Type()}
	}
	if li.spec != nil {
		env := vc.invEnv(h, override, preHeap)
		for i, inv := range li.spec.Invs {
			s, err := env.ElabBool(inv.Expr)
			if err != nil {
				vc.errorf("loop %d invariant %q: %v", li.ord, inv.Text, err)
				continue
			}
			vc.curReach = preReach
			vc.obAssert("loop-init", fmt.Sprintf("loop%d.init#%d", li.ord, i+1), "invariant holds on entry: "+inv.Text, s, pos)
		}
	}
	// 2. havoc: phis fresh, modified heap components fresh (with frame), reach fresh
	for _, phi := range phis {
		vc.defineFresh(phi)
	}
	vc.curHeap = map[string]string{}
	for k, v := range preHeap {
		vc.curHeap[k] = v
	}
	vc.havocLoopHeap(li)
	vc.bumpAllVersions()
	rn := vc.declConst(fmt.Sprintf("reach$%d", h.Index), "Bool")
	vc.curReach = rn
	// 3. assume invariants
	if li.spec != nil {
		env := vc.invEnv(h, nil, vc.curHeap)
		for _, inv := range li.spec.Invs {
			s, err := env.ElabBool(inv.Expr)
			if err != nil {
				continue
			}
			vc.fact(fmt.Sprintf("(=> %s %s)", rn, s))
		}
		for _, u := range li.spec.Uses {
			if s, ok := vc.useLemmaInstance(u, env); ok {
				vc.fact(fmt.Sprintf("(=> %s %s)", rn, s))
			}
		}
		for _, inv := range li.spec.Assumes {
			s, err := env.ElabBool(inv.Expr)
			if err != nil {
				vc.errorf("loop %d assume-invariant %q: %v", li.ord, inv.Text, err)
				continue
			}
			vc.fact(fmt.Sprintf("(=> %s %s)", rn, s))
			vc.assume(fmt.Sprintf("UNCHECKED loop fact in %s loop %d: %s", vc.fnName(), li.ord, inv.Text))
		}
	}
	// cover: loop body reachable under the invariant
	cv := vc.ob("cover", fmt.Sprintf("loop%d.cover", li.ord), "loop header reachable with invariant (vacuity probe)", fmt.Sprintf("(not %s)", rn), pos)
	cv.Expect = "sat"
}

// havocLoopHeap havocs every heap component written inside the loop. Writes whose
// base ref is loop-invariant havoc only that ref.
func (vc *FnVC) havocLoopHeap(li *loopInfo) {
	type wr struct {
		sort string
		refs []string
		all  bool
	}
	writes := map[string]*wr{}
	note := func(comp, sort, ref string, precise bool) {
		w := writes[comp]
		if w == nil {
			w = &wr{sort: sort}
			writes[comp] = w
		}
		if !precise {
			w.all = true
			return
		}
		for _, r := range w.refs {
			if r == ref {
				return
			}
		}
		w.refs = append(w.refs, ref)
	}
	inLoop := func(v ssa.Value) bool {
		in, ok := v.(ssa.Instruction)
		if !ok {
			return false
		}
		return li.blocks[in.Block()]
	}
	var blocks []*ssa.BasicBlock
	for b := range li.blocks {
		blocks = append(blocks, b)
	}
	sort.Slice(blocks, func(i, j int) bool { return blocks[i].Index < blocks[j].Index })
	for _, b := range blocks {
		for _, in := range b.Instrs {
			switch in := in.(type) {
			case *ssa.Store:
				vc.noteStoreTargets(in.Addr, in.Val.Type(), inLoop, note)
			case ssa.CallInstruction:
				vc.noteCallTargets(in, inLoop, note)
				if vc.fc != nil {
					for _, gv := range vc.fc.GhostVars {
						c, s, _ := ghostComp(gv)
						note(c, s, "", false)
					}
				}
			case *ssa.MapUpdate:
				// maps are havocked as opaque values; nothing in heap components
			}
		}
	}
	for _, comp := range sortedKeys(writes) {
		w := writes[comp]
		if w.all {
			vc.heapHavoc(comp, w.sort)
			continue
		}
		cur := vc.heapGet(comp, w.sort)
		elemSort := strings.TrimSuffix(strings.TrimPrefix(w.sort, "(Array Int "), ")")
		for _, r := range w.refs {
			f := vc.freshConst("lh", elemSort)
			cur = fmt.Sprintf("(store %s %s %s)", cur, r, f)
		}
		vc.heapSet(comp, w.sort, cur)
	}
}

// noteStoreTargets classifies the heap component(s) written by a store through addr.
func (vc *FnVC) noteStoreTargets(addr ssa.Value, valT types.Type, inLoop func(ssa.Value) bool, note func(comp, sort, ref string, precise bool)) {
	switch a := addr.(type) {
	case *ssa.FieldAddr:
		owner := a.X.Type().Underlying().(*types.Pointer).Elem()
		st := owner.Underlying().(*types.Struct)
		ft := st.Field(a.Field).Type()
		precise := !inLoop(a.X)
		ref := ""
		if precise {
			ref = vc.val(a.X).S
		}
		if isObjectType(ft) {
			sub := ""
			if precise {
				sub = vc.fldRef(owner, a.Field, ref)
			}
			vc.noteObjectTargets(sub, ft, precise, note)
			return
		}
		c, s := vc.fieldComp(owner, a.Field)
		note(c, s, ref, precise)
	case *ssa.IndexAddr:
		var el types.Type
		var refTerm string
		precise := !inLoop(a.X)
		switch xt := a.X.Type().Underlying().(type) {
		case *types.Slice:
			el = xt.Elem()
			if precise {
				refTerm = fmt.Sprintf("(s.arr %s)", vc.val(a.X).S)
			}
		case *types.Pointer:
			el = xt.Elem().Underlying().(*types.Array).Elem()
			if precise {
				refTerm = vc.val(a.X).S
			}
		}
		if isObjectType(el) {
			vc.noteObjectTargets("", el, false, note)
			return
		}
		c, s := vc.elemComp(el)
		note(c, s, refTerm, precise)
	default:
		// plain pointer: object or cell
		pt, ok := addr.Type().Underlying().(*types.Pointer)
		if !ok {
			return
		}
		precise := !inLoop(addr)
		ref := ""
		if precise {
			ref = vc.val(addr).S
		}
		vc.noteObjectTargets(ref, pt.Elem(), precise, note)
	}
}

func (vc *FnVC) noteObjectTargets(ref string, t types.Type, precise bool, note func(comp, sort, ref string, precise bool)) {
	if isUint256(t) || isBigInt(t) {
		c, s := vc.cellComp(t)
		note(c, s, ref, precise)
		return
	}
	switch u := t.Underlying().(type) {
	case *types.Struct:
		for i := 0; i < u.NumFields(); i++ {
			ft := u.Field(i).Type()
			if isObjectType(ft) {
				sub := ""
				if precise {
					sub = vc.fldRef(t, i, ref)
				}
				vc.noteObjectTargets(sub, ft, precise, note)
			} else {
				c, s := vc.fieldComp(t, i)
				note(c, s, ref, precise)
			}
		}
	case *types.Array:
		if isObjectType(u.Elem()) {
			vc.noteObjectTargets("", u.Elem(), false, note)
			return
		}
		c, s := vc.elemComp(u.Elem())
		note(c, s, ref, precise)
	default:
		c, s := vc.cellComp(t)
		note(c, s, ref, precise)
	}
}
