package main

// Replay of solver models against the real code (go test -overlay).

func replayModel(prog *Prog, o *Oblig, r *SolveResult, path string) (confirmed bool, detail map[string]interface{}) {
	return false, map[string]interface{}{"status": "not-attempted"}
}
