package main

// Replay of solver models against the real code: the model's inputs are turned into
// an in-package Go test injected with `go test -overlay` (nothing is written to the
// repository); the observed outputs are then checked against the failed contract
// clause by a second, fully concrete SMT query.

import (
	"encoding/json"
	"fmt"
	"go/types"
	"os"
	"os/exec"
	"path/filepath"
	"sort"
	"strings"

	"golang.org/x/tools/go/ssa"
)

const replayMaxElems = 48

// addInputs registers model variables for a value of type t held in term (entry state).
func (vc *FnVC) addInputs(path, term string, t types.Type, depth int) {
	if depth > 3 {
		return
	}
	entry := func(comp, sort string) string { return vc.entryComp(comp, sort) }
	add := func(name, tm, sort string) { vc.inputs = append(vc.inputs, ModelVar{name, tm, sort}) }
	if isUint256(t) {
		add(path, term, "Int")
		return
	}
	switch u := t.Underlying().(type) {
	case *types.Basic:
		add(path, term, vc.sortOf(t))
	case *types.Pointer:
		add(path, term, "Int")
		el := u.Elem()
		if isBigInt(el) || isUint256(el) {
			cc, _ := vc.cellComp(el)
			if _, used := vc.entryHeap[cc]; used {
				add("*"+path, vc.loadObject(term, el, entry), "Int")
			}
			return
		}
		if structOf(el) != nil {
			vc.addInputsRef("*"+path, term, el, depth+1)
		}
	case *types.Struct:
		for i := 0; i < u.NumFields(); i++ {
			vc.addInputs(path+"."+u.Field(i).Name(), fmt.Sprintf("(%s %s)", vc.accName(t, i), term), u.Field(i).Type(), depth+1)
		}
	case *types.Slice:
		add(path+".len", fmt.Sprintf("(s.len %s)", term), "Int")
		add(path+".cap", fmt.Sprintf("(s.cap %s)", term), "Int")
		add(path+".off", fmt.Sprintf("(s.off %s)", term), "Int")
		add(path+".arr", fmt.Sprintf("(s.arr %s)", term), "Int")
		if !isObjectType(u.Elem()) {
			if _, ok := u.Elem().Underlying().(*types.Basic); ok {
				c, s := vc.elemComp(u.Elem())
				if _, used := vc.entryHeap[c]; !used {
					return
				}
				for i := 0; i < replayMaxElems; i++ {
					add(fmt.Sprintf("%s[%d]", path, i), fmt.Sprintf("(select (select %s (s.arr %s)) (+ (s.off %s) %d))", entry(c, s), term, term, i), vc.sortOf(u.Elem()))
				}
			}
		}
	case *types.Interface, *types.Map, *types.Signature, *types.Chan:
		add(path, term, "Int")
	case *types.Array:
		if _, ok := u.Elem().Underlying().(*types.Basic); ok && u.Len() <= replayMaxElems {
			for i := 0; i < int(u.Len()); i++ {
				add(fmt.Sprintf("%s[%d]", path, i), fmt.Sprintf("(select %s %d)", term, i), vc.sortOf(u.Elem()))
			}
		}
	}
}

// addInputsRef registers model variables for the object of type t living at ref
// (entry state), navigating by reference so that terms stay small.
func (vc *FnVC) addInputsRef(path, ref string, t types.Type, depth int) {
	if depth > 3 || len(vc.inputs) > 400 {
		return
	}
	entry := func(comp, sort string) string { return vc.entryComp(comp, sort) }
	st := structOf(t)
	if st == nil {
		return
	}
	for i := 0; i < st.NumFields(); i++ {
		f := st.Field(i)
		ft := f.Type()
		p := path + "." + f.Name()
		if isUint256(ft) {
			if _, used := vc.entryHeap["U256"]; used {
				vc.inputs = append(vc.inputs, ModelVar{p, vc.loadObject(vc.fldRef(t, i, ref), ft, entry), "Int"})
			}
			continue
		}
		if isObjectType(ft) {
			fn := "fld$" + shortTypeName(t) + "$" + f.Name()
			if structOf(ft) != nil && vc.subrefDeclared[fn] {
				vc.addInputsRef(p, vc.fldRef(t, i, ref), ft, depth+1)
			}
			continue
		}
		c, s := vc.fieldComp(t, i)
		if _, used := vc.entryHeap[c]; !used {
			continue
		}
		sel := fmt.Sprintf("(select %s %s)", entry(c, s), ref)
		switch u := ft.Underlying().(type) {
		case *types.Basic:
			vc.inputs = append(vc.inputs, ModelVar{p, sel, vc.sortOf(ft)})
		case *types.Pointer:
			vc.inputs = append(vc.inputs, ModelVar{p, sel, "Int"})
			if isBigInt(u.Elem()) || isUint256(u.Elem()) {
				cc, _ := vc.cellComp(u.Elem())
				if _, used := vc.entryHeap[cc]; used {
					vc.inputs = append(vc.inputs, ModelVar{"*" + p, vc.loadObject(sel, u.Elem(), entry), "Int"})
				}
			} else if structOf(u.Elem()) != nil && depth < 2 {
				vc.addInputsRef("*"+p, sel, u.Elem(), depth+1)
			}
		case *types.Interface:
			vc.inputs = append(vc.inputs, ModelVar{p, sel, "Int"})
		case *types.Slice:
			vc.inputs = append(vc.inputs, ModelVar{p + ".len", fmt.Sprintf("(s.len %s)", sel), "Int"})
		}
	}
}

type replayGen struct {
	vc      *FnVC
	model   map[string]string
	pkg     *types.Package
	imports map[string]string // path -> name
	errs    []string
	setup   []string
}

func (g *replayGen) qual(p *types.Package) string {
	if p == g.pkg {
		return ""
	}
	g.imports[p.Path()] = p.Name()
	return p.Name()
}

func (g *replayGen) typeStr(t types.Type) string {
	return types.TypeString(t, g.qual)
}

func (g *replayGen) mv(path string) (string, bool) {
	v, ok := g.model[path]
	return v, ok
}

// goValue builds a Go expression of type t from the model at path.
func (g *replayGen) goValue(path string, t types.Type) string {
	if isUint256(t) {
		v, _ := g.mv(path)
		if v == "" {
			v = "0"
		}
		g.imports["github.com/holiman/uint256"] = "uint256"
		return fmt.Sprintf("*uint256.MustFromDecimal(%q)", v)
	}
	switch u := t.Underlying().(type) {
	case *types.Basic:
		v, ok := g.mv(path)
		if !ok {
			v = "0"
			if u.Info()&types.IsBoolean != 0 {
				v = "false"
			}
		}
		switch {
		case u.Info()&types.IsBoolean != 0:
			return fmt.Sprintf("%s(%s)", g.typeStr(t), v)
		case u.Info()&types.IsInteger != 0:
			return fmt.Sprintf("%s(%s)", g.typeStr(t), v)
		case u.Info()&types.IsString != 0:
			return `""`
		}
		g.errs = append(g.errs, "unsupported basic type "+t.String())
		return "0"
	case *types.Struct:
		if n, ok := t.(*types.Named); ok && n.Obj().Pkg() != g.pkg && !n.Obj().Exported() {
			g.errs = append(g.errs, "unexported foreign type "+t.String())
		}
		var parts []string
		for i := 0; i < u.NumFields(); i++ {
			f := u.Field(i)
			if !f.Exported() && f.Pkg() != g.pkg {
				continue
			}
			switch ft := f.Type().Underlying().(type) {
			case *types.Basic, *types.Struct, *types.Slice:
				parts = append(parts, fmt.Sprintf("%s: %s", f.Name(), g.goValue(path+"."+f.Name(), f.Type())))
			case *types.Array:
				if isUint256(f.Type()) {
					parts = append(parts, fmt.Sprintf("%s: %s", f.Name(), g.goValue(path+"."+f.Name(), f.Type())))
				}
			case *types.Pointer:
				if isBigInt(ft.Elem()) || isUint256(ft.Elem()) || structOf(ft.Elem()) != nil {
					if _, has := g.mv(path + "." + f.Name()); has {
						parts = append(parts, fmt.Sprintf("%s: %s", f.Name(), g.goValue(path+"."+f.Name(), f.Type())))
					}
				} else if _, has := g.mv(path + "." + f.Name()); has {
					g.errs = append(g.errs, "field "+f.Name()+" of unsupported pointer type is read by the function")
				}
			case *types.Interface, *types.Map, *types.Chan, *types.Signature:
				if _, has := g.mv(path + "." + f.Name()); has {
					g.errs = append(g.errs, "field "+path+"."+f.Name()+" ("+f.Type().String()+") is read by the function and cannot be constructed")
				}
			}
		}
		return fmt.Sprintf("%s{%s}", g.typeStr(t), strings.Join(parts, ", "))
	case *types.Pointer:
		el := u.Elem()
		if v, ok := g.mv(path); ok && v == "0" {
			return fmt.Sprintf("(%s)(nil)", g.typeStr(t))
		}
		if isBigInt(el) {
			v, _ := g.mv("*" + path)
			if v == "" {
				v = "0"
			}
			g.imports["math/big"] = "big"
			return fmt.Sprintf("func() *big.Int { x, _ := new(big.Int).SetString(%q, 10); return x }()", v)
		}
		if isUint256(el) {
			v, _ := g.mv("*" + path)
			if v == "" {
				v = "0"
			}
			g.imports["github.com/holiman/uint256"] = "uint256"
			return fmt.Sprintf("uint256.MustFromDecimal(%q)", v)
		}
		if structOf(el) != nil {
			return "&" + g.goValue("*"+path, el)
		}
		g.errs = append(g.errs, "unsupported pointer type "+t.String())
		return "nil"
	case *types.Slice:
		ln, _ := g.mv(path + ".len")
		cp, _ := g.mv(path + ".cap")
		off, _ := g.mv(path + ".off")
		arr, _ := g.mv(path + ".arr")
		var n, c, o int
		fmt.Sscanf(ln, "%d", &n)
		fmt.Sscanf(cp, "%d", &c)
		fmt.Sscanf(off, "%d", &o)
		if arr == "0" && n == 0 {
			return "nil"
		}
		if n > replayMaxElems || c > 1<<16 {
			g.errs = append(g.errs, fmt.Sprintf("slice %s too large to replay (len %d cap %d)", path, n, c))
			return "nil"
		}
		if _, ok := u.Elem().Underlying().(*types.Basic); !ok {
			g.errs = append(g.errs, "unsupported slice element type "+t.String())
			return "nil"
		}
		var elems []string
		for i := 0; i < n; i++ {
			elems = append(elems, g.goValue(fmt.Sprintf("%s[%d]", path, i), u.Elem()))
		}
		// backing array of capacity c (zero beyond the modelled prefix)
		name := fmt.Sprintf("bk%d", len(g.setup))
		g.setup = append(g.setup, fmt.Sprintf("%s := make(%s, %d, %d)", name, g.typeStr(t), n, max(c, n)))
		g.setup = append(g.setup, fmt.Sprintf("copy(%s, %s{%s})", name, g.typeStr(t), strings.Join(elems, ", ")))
		return name
	case *types.Interface:
		v, _ := g.mv(path)
		if v == "0" || v == "" {
			return "nil"
		}
		if types.Identical(t, types.Universe.Lookup("error").Type()) {
			for gname, goName := range g.vc.globalGoNames {
				if mvv, ok := g.model["global:"+gname]; ok && mvv == v {
					if goName.pkg != g.pkg {
						g.imports[goName.pkg.Path()] = goName.pkg.Name()
						return goName.pkg.Name() + "." + goName.name
					}
					return goName.name
				}
			}
			g.imports["errors"] = "errors"
			return `errors.New("verif-replay-error")`
		}
		g.errs = append(g.errs, "unsupported interface type "+t.String())
		return "nil"
	case *types.Array:
		if _, ok := u.Elem().Underlying().(*types.Basic); ok && u.Len() <= replayMaxElems {
			var elems []string
			for i := 0; i < int(u.Len()); i++ {
				elems = append(elems, g.goValue(fmt.Sprintf("%s[%d]", path, i), u.Elem()))
			}
			return fmt.Sprintf("%s{%s}", g.typeStr(t), strings.Join(elems, ", "))
		}
	}
	g.errs = append(g.errs, "unsupported type "+t.String())
	return "nil"
}

// dumpStmts emits Go statements that record the value at Go expression `expr` of type t
// under key path into map out.
func (g *replayGen) dumpStmts(path, expr string, t types.Type, depth int) []string {
	if depth > 3 {
		return nil
	}
	if isUint256(t) {
		return []string{fmt.Sprintf("{ v := %s; out[%q] = v.Dec() }", expr, path)}
	}
	switch u := t.Underlying().(type) {
	case *types.Basic:
		if u.Info()&(types.IsInteger|types.IsBoolean) != 0 {
			return []string{fmt.Sprintf("out[%q] = fmt.Sprint(%s)", path, expr)}
		}
	case *types.Struct:
		var st []string
		for i := 0; i < u.NumFields(); i++ {
			f := u.Field(i)
			if !f.Exported() && f.Pkg() != g.pkg {
				continue
			}
			st = append(st, g.dumpStmts(path+"."+f.Name(), expr+"."+f.Name(), f.Type(), depth+1)...)
		}
		return st
	case *types.Pointer:
		el := u.Elem()
		if isBigInt(el) {
			return []string{fmt.Sprintf("if %s != nil { out[%q] = %s.String() } else { out[%q] = \"nil\" }", expr, "*"+path, expr, path)}
		}
		if isUint256(el) {
			return []string{fmt.Sprintf("if %s != nil { out[%q] = %s.Dec() } else { out[%q] = \"nil\" }", expr, "*"+path, expr, path)}
		}
		if structOf(el) != nil {
			inner := g.dumpStmts("*"+path, "(*"+expr+")", el, depth+1)
			return []string{fmt.Sprintf("if %s != nil { %s } else { out[%q] = \"nil\" }", expr, strings.Join(inner, "; "), path)}
		}
	case *types.Slice:
		if _, ok := u.Elem().Underlying().(*types.Basic); ok {
			return []string{
				fmt.Sprintf("out[%q] = fmt.Sprint(len(%s))", path+".len", expr),
				fmt.Sprintf("out[%q] = fmt.Sprint(cap(%s))", path+".cap", expr),
				fmt.Sprintf("for i := 0; i < len(%s) && i < %d; i++ { out[fmt.Sprintf(\"%s[%%d]\", i)] = fmt.Sprint(%s[i]) }", expr, replayMaxElems, path, expr),
			}
		}
	case *types.Interface:
		if types.Identical(t, types.Universe.Lookup("error").Type()) {
			st := []string{fmt.Sprintf("if %s == nil { out[%q] = \"nil\" } else { out[%q] = \"err:\" + %s.Error() }", expr, path, path, expr)}
			for gname, goName := range g.vc.globalGoNames {
				q := goName.name
				if goName.pkg != g.pkg {
					g.imports[goName.pkg.Path()] = goName.pkg.Name()
					q = goName.pkg.Name() + "." + goName.name
				}
				st = append(st, fmt.Sprintf("if %s != nil && %s == %s { out[%q] = \"global:%s\" }", expr, expr, q, path, gname))
			}
			return st
		}
	}
	return nil
}

type goName struct {
	pkg  *types.Package
	name string
}

// replayModel runs the real function on the model's inputs and decides whether the
// failed obligation is confirmed.
func replayModel(prog *Prog, o *Oblig, r *SolveResult, path string) (confirmed bool, detail map[string]interface{}) {
	detail = map[string]interface{}{}
	vc := o.vc
	fn := vc.fn
	if fn == nil || fn.Pkg == nil {
		detail["status"] = "no function"
		return false, detail
	}
	g := &replayGen{vc: vc, model: r.Model, pkg: fn.Pkg.Pkg, imports: map[string]string{"testing": "testing", "fmt": "fmt", "encoding/json": "json"}}
	var args []string
	var decls []string
	var post []string
	for i, p := range fn.Params {
		name := fmt.Sprintf("in%d", i)
		val := g.goValue(p.Name(), p.Type())
		decls = append(decls, fmt.Sprintf("%s := %s", name, val))
		args = append(args, name)
		post = append(post, g.dumpStmts(p.Name(), name, p.Type(), 0)...)
	}
	if len(g.errs) > 0 {
		detail["status"] = "inputs not constructible: " + strings.Join(g.errs, "; ")
		return false, detail
	}
	// call expression
	var call string
	var callArgs []string
	if fn.Signature.Recv() != nil {
		callArgs = args[1:]
		call = fmt.Sprintf("%s.%s(%s)", args[0], fn.Name(), strings.Join(callArgs, ", "))
	} else {
		call = fmt.Sprintf("%s(%s)", fn.Name(), strings.Join(args, ", "))
	}
	res := fn.Signature.Results()
	var lhs []string
	for i := 0; i < res.Len(); i++ {
		lhs = append(lhs, fmt.Sprintf("r%d", i))
		post = append(post, g.dumpStmts(fmt.Sprintf("result%d", i), fmt.Sprintf("r%d", i), res.At(i).Type(), 0)...)
	}
	assign := call
	if len(lhs) > 0 {
		assign = strings.Join(lhs, ", ") + " := " + call
	}
	var sb strings.Builder
	sb.WriteString("package " + fn.Pkg.Pkg.Name() + "\n\nimport (\n")
	var imps []string
	for p := range g.imports {
		imps = append(imps, p)
	}
	sort.Strings(imps)
	for _, p := range imps {
		sb.WriteString(fmt.Sprintf("\t%s %q\n", g.imports[p], p))
	}
	sb.WriteString(")\n\nfunc TestVerifReplay(t *testing.T) {\n\tout := map[string]string{}\n")
	sb.WriteString("\tdefer func() {\n\t\tif r := recover(); r != nil { out[\"panic\"] = fmt.Sprint(r) }\n\t\tb, _ := json.Marshal(out)\n\t\tfmt.Printf(\"VERIF-REPLAY-OUT %s\\n\", b)\n\t}()\n")
	for _, s := range g.setup {
		sb.WriteString("\t" + s + "\n")
	}
	for _, d := range decls {
		sb.WriteString("\t" + d + "\n")
	}
	sb.WriteString("\t" + assign + "\n")
	for _, s := range post {
		sb.WriteString("\t" + s + "\n")
	}
	for i := range lhs {
		sb.WriteString(fmt.Sprintf("\t_ = r%d\n", i))
	}
	sb.WriteString("}\n")
	src := sb.String()
	detail["test_source"] = src

	pkgDir := strings.TrimPrefix(fn.Pkg.Pkg.Path(), modPrefix)
	tmp, err := os.MkdirTemp("/var/tmp", "govc-replay-")
	if err != nil {
		detail["status"] = err.Error()
		return false, detail
	}
	defer os.RemoveAll(tmp)
	testFile := filepath.Join(tmp, "zz_verif_replay_test.go")
	os.WriteFile(testFile, []byte(src), 0o644)
	ov := map[string]map[string]string{"Replace": {filepath.Join(prog.repoDir, pkgDir, "zz_verif_replay_test.go"): testFile}}
	// contract files that only exist in the mirror (lemma functions live there)
	for d, srcKind := range prog.contractSource {
		if strings.HasPrefix(srcKind, "mirror") {
			ov["Replace"][filepath.Join(prog.repoDir, d, "zz_verif_contracts.go")] = filepath.Join(verifDir(), "contracts", d, "zz_verif_contracts.go")
		}
	}
	for f, data := range prog.extraOverlay {
		fn := filepath.Join(tmp, sanitize(f))
		os.WriteFile(fn, data, 0o644)
		ov["Replace"][f] = fn
	}
	ovData, _ := json.Marshal(ov)
	ovFile := filepath.Join(tmp, "overlay.json")
	os.WriteFile(ovFile, ovData, 0o644)
	cmdline := fmt.Sprintf("ulimit -v 8000000; cd %s && go test -overlay %s -tags verif -vet=off -v -count=1 -timeout 60s -run '^TestVerifReplay$' ./%s", prog.repoDir, ovFile, pkgDir)
	cmd := exec.Command("bash", "-c", cmdline)
	cmd.Env = append(os.Environ(), "GOFLAGS=-mod=mod", "GOPROXY=off")
	outb, _ := cmd.CombinedOutput()
	outs := string(outb)
	detail["replay_cmd"] = cmdline
	k := strings.Index(outs, "VERIF-REPLAY-OUT ")
	if k < 0 {
		detail["status"] = "replay did not run: " + truncate(outs, 1500)
		return false, detail
	}
	line := outs[k+len("VERIF-REPLAY-OUT "):]
	if e := strings.Index(line, "\n"); e >= 0 {
		line = line[:e]
	}
	observed := map[string]string{}
	json.Unmarshal([]byte(line), &observed)
	detail["observed"] = observed
	detail["inputs"] = r.Model

	// decide
	if pmsg, ok := observed["panic"]; ok {
		detail["status"] = "real code panicked on the model input: " + pmsg
		// A panic on an input that satisfies the preconditions confirms a refuted safety
		// obligation (bounds, nil, unreachable, nowrap). For other kinds it confirms only a
		// definite refutation (solver said sat): a witness found by the relaxed search after an
		// undecided answer may fail for reasons that have nothing to do with the obligation
		// (e.g. an interface field left nil), so it is reported but not counted as confirmation.
		switch o.Kind {
		case "bounds", "nil", "unreachable", "nowrap":
			return true, detail
		}
		if r.Status == "sat" && !r.Relaxed {
			return true, detail
		}
		detail["status"] = fmt.Sprint(detail["status"]) + " (witness from the relaxed search after an undecided answer: not counted as confirmation)"
		return false, detail
	}
	switch o.Kind {
	case "post":
		ok, why := evalClauseConcrete(prog, o, r.Model, observed)
		detail["clause_eval"] = why
		if ok {
			detail["status"] = "confirmed: ensures clause is false on the observed outputs of the real function"
			return true, detail
		}
		detail["status"] = "not confirmed: real function satisfies the clause on this input (model exploited an abstraction)"
		return false, detail
	default:
		// try all ensures clauses of the function: a wrap/frame violation that matters shows up there
		for i := range vc.fc.Ensures {
			oo := *o
			oo.Kind = "post"
			oo.clauseIdx = i + 1
			ok, why := evalClauseConcrete(prog, &oo, r.Model, observed)
			if ok {
				detail["clause_eval"] = why
				detail["status"] = fmt.Sprintf("confirmed: on the model input of the failed %s obligation the real function violates ensures #%d", o.Kind, i+1)
				return true, detail
			}
		}
		detail["status"] = "real function ran on the model input without panic and without violating an ensures clause; the failed " + o.Kind + " obligation itself is not observable from outside"
		return false, detail
	}
}

// evalClauseConcrete re-elaborates the clause over a fresh VC context in which inputs and
// observed outputs are fixed to constants; "sat" of (not clause) confirms the violation.
func evalClauseConcrete(prog *Prog, o *Oblig, model, observed map[string]string) (bool, string) {
	old := o.vc
	vc := newFnVC(prog, old.fn, old.fc)
	// same signature as the original VC (declarations only, no facts)
	vc.decls = append([]string{}, old.decls...)
	for k, v := range old.declSet {
		vc.declSet[k] = v
	}
	vc.benign = map[int]bool{}
	for k, v := range old.benign {
		vc.benign[k] = v
	}
	for k, v := range old.entryHeap {
		vc.entryHeap[k] = v
	}
	for k, v := range old.compSort {
		vc.compSort[k] = v
	}
	for k, v := range old.compType {
		vc.compType[k] = v
	}
	for k, v := range old.subrefDeclared {
		vc.subrefDeclared[k] = v
	}
	for k, v := range old.strIntern {
		vc.strIntern[k] = v
	}
	for k, v := range old.globals {
		vc.globals[k] = v
	}
	vc.globalErrs = append([]string{}, old.globalErrs...)
	vc.refTagN = old.refTagN
	vc.fresh = old.fresh + 100000
	vc.heapVer = old.heapVer + 100000
	vc.setupEntry()
	vc.inputs = old.inputs
	// bind inputs
	for _, in := range vc.inputs {
		if v, ok := model[in.Name]; ok && !strings.HasPrefix(in.Sort, "(Array") {
			vc.fact(fmt.Sprintf("(= %s %s)", in.Term, smtLit(v, in.Sort)))
		}
	}
	// global sentinel values take their model values
	for gname, gn := range old.globalGoNames {
		vc.globalGoNames[gname] = gn
		if obj, _ := gn.pkg.Scope().Lookup(gn.name).(*types.Var); obj != nil {
			t := vc.globalTerm(obj)
			if v, ok := model["global:"+gname]; ok {
				vc.fact(fmt.Sprintf("(= %s %s)", t.S, smtLit(v, t.Sort)))
			}
		}
	}
	env := vc.entryEnv()
	// post heap: pointer params' objects take the observed values
	postHeap := map[string]string{}
	saved := vc.curHeap
	vc.curHeap = postHeap
	for _, p := range old.fn.Params {
		pt, ok := p.Type().Underlying().(*types.Pointer)
		if !ok {
			continue
		}
		el := pt.Elem()
		ref := vc.vals[p].S
		if st := structOf(el); st != nil {
			vc.bindObserved(ref, el, "*"+p.Name(), observed)
		} else if isBigInt(el) || isUint256(el) {
			if v, ok := observed["*"+p.Name()]; ok {
				vc.storeObject(ref, el, smtLit(v, "Int"))
			}
		}
	}
	for _, p := range old.fn.Params {
		if st, ok := p.Type().Underlying().(*types.Slice); ok && !isObjectType(st.Elem()) {
			t := vc.vals[p]
			c, s := vc.elemComp(st.Elem())
			h := vc.heapGet(c, s)
			arr := fmt.Sprintf("(select %s (s.arr %s))", h, t.S)
			for i := 0; i < replayMaxElems; i++ {
				if v, ok := observed[fmt.Sprintf("%s[%d]", p.Name(), i)]; ok {
					arr = fmt.Sprintf("(store %s (+ (s.off %s) %d) %s)", arr, t.S, i, smtLit(v, vc.sortOf(st.Elem())))
				}
			}
			vc.heapSet(c, s, fmt.Sprintf("(store %s (s.arr %s) %s)", h, t.S, arr))
		}
	}
	env.heap = func(comp, sort string) string { return vc.heapGet(comp, sort) }
	_ = saved
	// results
	res := old.fn.Signature.Results()
	for i := 0; i < res.Len(); i++ {
		t, ok := vc.observedTerm(fmt.Sprintf("result%d", i), res.At(i).Type(), observed, model)
		if !ok {
			return false, "result not observable: " + res.At(i).Type().String()
		}
		if i < len(old.resultNames) && old.resultNames[i] != "" && old.resultNames[i] != "_" {
			env.vars[old.resultNames[i]] = t
		}
		env.vars[fmt.Sprintf("result%d", i)] = t
		if res.Len() == 1 {
			env.vars["result"] = t
		}
	}
	idx := o.clauseIdx
	if idx == 0 {
		// parse from name "... : post#N"
		if k := strings.LastIndex(o.Name, "post#"); k >= 0 {
			fmt.Sscanf(o.Name[k+5:], "%d", &idx)
		}
	}
	if idx < 1 || idx > len(old.fc.Ensures) {
		return false, "cannot identify clause"
	}
	cl := old.fc.Ensures[idx-1]
	s, err := env.ElabBool(cl.Expr)
	if err != nil {
		return false, "elaboration: " + err.Error()
	}
	// requires must hold on the input as well (sanity: the model satisfies them)
	probe := &Oblig{Name: "replay-eval", Goal: s, NFacts: len(vc.facts), vc: vc, Expect: "unsat"}
	sv, err := NewSolver(20, false)
	if err != nil {
		return false, err.Error()
	}
	defer sv.Close()
	r := sv.Solve(probe)
	switch r.Status {
	case "sat":
		return true, "clause '" + cl.Text + "' evaluates to false on (model inputs, observed outputs)"
	case "unsat":
		return false, "clause '" + cl.Text + "' holds on (model inputs, observed outputs)"
	}
	return false, "clause evaluation undecided: " + r.Status
}

func smtLit(v, sort string) string {
	v = strings.TrimSpace(v)
	if sort == "Bool" {
		return v
	}
	if strings.HasPrefix(v, "-") {
		return "(- " + v[1:] + ")"
	}
	return v
}

func (vc *FnVC) bindObserved(ref string, t types.Type, path string, observed map[string]string) {
	st := structOf(t)
	if st == nil {
		return
	}
	for i := 0; i < st.NumFields(); i++ {
		f := st.Field(i)
		ft := f.Type()
		p := path + "." + f.Name()
		if isUint256(ft) {
			if v, ok := observed[p]; ok {
				vc.storeObject(vc.fldRef(t, i, ref), ft, smtLit(v, "Int"))
			}
			continue
		}
		if isObjectType(ft) {
			vc.bindObserved(vc.fldRef(t, i, ref), ft, p, observed)
			continue
		}
		if v, ok := observed[p]; ok {
			c, s := vc.fieldComp(t, i)
			vc.heapSet(c, s, fmt.Sprintf("(store %s %s %s)", vc.heapGet(c, s), ref, smtLit(v, vc.sortOf(ft))))
		}
	}
}

// observedTerm builds a concrete SMT term for an observed result.
func (vc *FnVC) observedTerm(path string, t types.Type, observed, model map[string]string) (Term, bool) {
	srt := vc.sortOf(t)
	if isUint256(t) {
		v, ok := observed[path]
		return Term{S: smtLit(v, "Int"), Sort: "Int", T: t}, ok
	}
	switch u := t.Underlying().(type) {
	case *types.Basic:
		v, ok := observed[path]
		if !ok {
			return Term{}, false
		}
		return Term{S: smtLit(v, srt), Sort: srt, T: t}, true
	case *types.Struct:
		var parts []string
		for i := 0; i < u.NumFields(); i++ {
			ft, ok := vc.observedTerm(path+"."+u.Field(i).Name(), u.Field(i).Type(), observed, model)
			if !ok {
				return Term{}, false
			}
			parts = append(parts, ft.S)
		}
		if len(parts) == 0 {
			return Term{S: vc.ctorName(t), Sort: srt, T: t}, true
		}
		return Term{S: fmt.Sprintf("(%s %s)", vc.ctorName(t), strings.Join(parts, " ")), Sort: srt, T: t}, true
	case *types.Interface:
		v, ok := observed[path]
		if !ok {
			return Term{}, false
		}
		if v == "nil" {
			return Term{S: "0", Sort: "Int", T: t}, true
		}
		if strings.HasPrefix(v, "global:") {
			gname := strings.TrimPrefix(v, "global:")
			if gn, ok := vc.globalByName(gname); ok {
				return Term{S: gn, Sort: "Int", T: t}, true
			}
		}
		f := vc.freshConst("obs", "Int")
		vc.fact(fmt.Sprintf("(> %s 0)", f))
		vc.pendingDistinct = append(vc.pendingDistinct, f)
		return Term{S: f, Sort: "Int", T: t}, true
	case *types.Slice:
		ln, ok := observed[path+".len"]
		if !ok {
			return Term{}, false
		}
		cp := observed[path+".cap"]
		arr := vc.newAllocRef("obsarr")
		if _, isBasic := u.Elem().Underlying().(*types.Basic); isBasic {
			c, s := vc.elemComp(u.Elem())
			a := fmt.Sprintf("((as const (Array Int %s)) %s)", vc.sortOf(u.Elem()), vc.zeroValue(u.Elem()))
			for i := 0; i < replayMaxElems; i++ {
				if v, ok := observed[fmt.Sprintf("%s[%d]", path, i)]; ok {
					a = fmt.Sprintf("(store %s %d %s)", a, i, smtLit(v, vc.sortOf(u.Elem())))
				}
			}
			vc.heapSet(c, s, fmt.Sprintf("(store %s %s %s)", vc.heapGet(c, s), arr, a))
		}
		return Term{S: fmt.Sprintf("(mkSlice %s 0 %s %s)", arr, ln, cp), Sort: "Slice", T: t}, true
	case *types.Pointer:
		v, ok := observed[path]
		if ok && v == "nil" {
			return Term{S: "0", Sort: "Int", T: t}, true
		}
		el := u.Elem()
		ref := vc.newAllocRef("obsptr")
		if isBigInt(el) || isUint256(el) {
			if v, ok := observed["*"+path]; ok {
				vc.storeObject(ref, el, smtLit(v, "Int"))
				return Term{S: ref, Sort: "Int", T: t}, true
			}
			return Term{}, false
		}
		if structOf(el) != nil {
			vc.bindObserved(ref, el, "*"+path, observed)
			return Term{S: ref, Sort: "Int", T: t}, true
		}
	}
	return Term{}, false
}

func (vc *FnVC) globalByName(gname string) (string, bool) {
	// make sure the global is declared in this context
	if gn, ok := vc.globalGoNames[gname]; ok {
		obj, _ := gn.pkg.Scope().Lookup(gn.name).(*types.Var)
		if obj != nil {
			return vc.globalTerm(obj).S, true
		}
	}
	// declare by scanning known packages
	for _, pk := range vc.prog.pkgs {
		_ = pk
	}
	return "", false
}

var _ = ssa.Value(nil)
