package main

// Per-instruction translation.

import (
	"fmt"
	"go/constant"
	"go/token"
	"go/types"
	"math/big"
	"sort"
	"strings"

	"golang.org/x/tools/go/ssa"
)

// Loc is a scalar memory location (field of an object, element of an array, or cell).
type Loc struct {
	comp, sort string
	ref, idx   string // idx != "" for elements
	T          types.Type
	what       string
}

func (vc *FnVC) locLoad(l Loc) string {
	h := vc.heapGet(l.comp, l.sort)
	if l.idx != "" {
		return fmt.Sprintf("(select (select %s %s) %s)", h, l.ref, l.idx)
	}
	return fmt.Sprintf("(select %s %s)", h, l.ref)
}

func (vc *FnVC) locStore(l Loc, v string) {
	h := vc.heapGet(l.comp, l.sort)
	if l.idx != "" {
		vc.heapSet(l.comp, l.sort, fmt.Sprintf("(store %s %s (store (select %s %s) %s %s))", h, l.ref, h, l.ref, l.idx, v))
		return
	}
	vc.heapSet(l.comp, l.sort, fmt.Sprintf("(store %s %s %s)", h, l.ref, v))
}

func exprText(fset *token.FileSet, prog *Prog, pos token.Pos) string {
	return ""
}

// srcText returns a compact source text for an instruction, used in obligation names.
func (vc *FnVC) srcText(in ssa.Instruction) string {
	if vc.prog == nil {
		return ""
	}
	return vc.prog.sourceText(in)
}

// freshNames returns the identifiers x for which expression e asserts isfresh(x) as an
// unconditional (top-level) conjunct.
func freshNames(e SExpr) []string {
	switch x := e.(type) {
	case *SBinary:
		if x.Op == "&&" {
			return append(freshNames(x.X), freshNames(x.Y)...)
		}
	case *SCall:
		if x.Fun == "isfresh" && len(x.Args) == 1 {
			if id, ok := x.Args[0].(*SIdent); ok {
				return []string{id.Name}
			}
		}
	}
	return nil
}

// registerFresh treats an existing ref term (e.g. a callee result declared fresh) as a
// new allocation.
func (vc *FnVC) registerFresh(a string) {
	vc.newAllocFacts(a)
}

func (vc *FnVC) newAllocRef(prefix string) string {
	a := vc.freshConst(prefix, "Int")
	vc.newAllocFacts(a)
	return a
}

func (vc *FnVC) newAllocFacts(a string) {
	vc.fact(fmt.Sprintf("(> %s 0)", a))
	vc.decl("allocated0", "(declare-fun allocated0 (Int) Bool)")
	vc.fact(fmt.Sprintf("(not (allocated0 %s))", a))
	// a new allocation is a whole object, never a field or element of another one
	vc.decl("reftag", "(declare-fun reftag (Int) Int)")
	vc.fact(fmt.Sprintf("(= (reftag %s) 0)", a))
	// nil counts as pre-existing: sub-objects of a nil pointer never coincide with new objects
	vc.decl("allocated0$nil", "(assert (allocated0 0))")
	for _, o := range vc.allocRefs {
		vc.fact(fmt.Sprintf("(not (= %s %s))", a, o))
	}
	// a new object differs from every pointer value that exists already
	var olds []string
	seen := map[string]bool{}
	for v, t := range vc.vals {
		if t.T == nil || v == nil {
			continue
		}
		var s string
		switch t.T.Underlying().(type) {
		case *types.Pointer:
			if t.Sort == "Int" {
				s = t.S
			}
		case *types.Slice:
			if t.Sort == "Slice" {
				s = fmt.Sprintf("(s.arr %s)", t.S)
			}
		}
		if s != "" && s != a && !seen[s] && !vc.freshRoots[s] {
			seen[s] = true
			olds = append(olds, s)
		}
	}
	sort.Strings(olds)
	for _, s := range olds {
		vc.fact(fmt.Sprintf("(not (= %s %s))", a, s))
	}
	vc.allocRefs = append(vc.allocRefs, a)
	vc.freshRoots[a] = true
}

// locOf returns the scalar location addressed by pointer value addr, if it is one
// of the syntactic forms FieldAddr / IndexAddr; ok=false otherwise.
func (vc *FnVC) locOf(addr ssa.Value) (Loc, bool) {
	if l, ok := vc.locs[addr]; ok {
		return l, true
	}
	return Loc{}, false
}

func (vc *FnVC) instr(in ssa.Instruction, idx int) {
	switch in := in.(type) {
	case *ssa.DebugRef:
		return
	case *ssa.Alloc:
		el := in.Type().Underlying().(*types.Pointer).Elem()
		a := vc.newAllocRef("a$" + mangle(in.Name()))
		vc.vals[in] = Term{S: a, Sort: "Int", T: in.Type()}
		vc.storeObject(a, el, vc.zeroValue(el))
	case *ssa.FieldAddr:
		owner := in.X.Type().Underlying().(*types.Pointer).Elem()
		st := owner.Underlying().(*types.Struct)
		ft := st.Field(in.Field).Type()
		ref := vc.val(in.X).S
		if isObjectType(ft) {
			vc.vals[in] = Term{S: vc.fldRef(owner, in.Field, ref), Sort: "Int", T: in.Type()}
			return
		}
		c, s := vc.fieldComp(owner, in.Field)
		vc.locs[in] = Loc{comp: c, sort: s, ref: ref, T: ft, what: st.Field(in.Field).Name()}
	case *ssa.IndexAddr:
		vc.indexAddr(in)
	case *ssa.Field:
		x := vc.val(in.X)
		vc.define(in, fmt.Sprintf("(%s %s)", vc.accName(in.X.Type(), in.Field), x.S))
	case *ssa.Index:
		x := vc.val(in.X)
		i := vc.val(in.Index)
		switch u := in.X.Type().Underlying().(type) {
		case *types.Array:
			vc.obAssert("bounds", "bounds@"+vc.srcText(in), "array index in range", fmt.Sprintf("(and (<= 0 %s) (< %s %d))", i.S, i.S, u.Len()), in.Pos())
			vc.define(in, fmt.Sprintf("(select %s %s)", x.S, i.S))
		default:
			// string index
			vc.obAssert("bounds", "bounds@"+vc.srcText(in), "string index in range", fmt.Sprintf("(and (<= 0 %s) (< %s (strlen %s)))", i.S, i.S, vc.strTerm(x.S)), in.Pos())
			vc.defineFresh(in)
		}
	case *ssa.UnOp:
		vc.unop(in)
	case *ssa.BinOp:
		vc.binop(in)
	case *ssa.Store:
		vc.store(in)
	case *ssa.Convert:
		vc.convert(in)
	case *ssa.ChangeType:
		x := vc.val(in.X)
		vc.vals[in] = Term{S: x.S, Sort: x.Sort, T: in.Type()}
	case *ssa.ChangeInterface:
		x := vc.val(in.X)
		vc.vals[in] = Term{S: x.S, Sort: x.Sort, T: in.Type()}
	case *ssa.MakeInterface:
		x := vc.val(in.X)
		switch in.X.Type().Underlying().(type) {
		case *types.Pointer, *types.Map, *types.Chan, *types.Signature, *types.Interface:
			vc.vals[in] = Term{S: x.S, Sort: "Int", T: in.Type()}
		default:
			bf := "box$" + mangle(x.Sort)
			vc.decl(bf, fmt.Sprintf("(declare-fun %s (%s) Int)", bf, x.Sort))
			t := vc.define(in, fmt.Sprintf("(%s %s)", bf, x.S))
			vc.fact(fmt.Sprintf("(> %s 0)", t.S))
		}
	case *ssa.TypeAssert:
		if in.CommaOk {
			v := vc.freshConst("ta", vc.sortOf(in.AssertedType))
			ok := vc.freshConst("taok", "Bool")
			tv := Term{S: v, Sort: vc.sortOf(in.AssertedType), T: in.AssertedType}
			vc.addRange(tv)
			vc.vals[in] = Term{Sort: "Tuple", Tup: []Term{tv, {S: ok, Sort: "Bool"}}}
		} else {
			vc.assume("type assertions without comma-ok are assumed to succeed")
			switch in.AssertedType.Underlying().(type) {
			case *types.Pointer, *types.Interface, *types.Map, *types.Chan, *types.Signature:
				// boxing of pointer-like values is the identity in this model
				x := vc.val(in.X)
				vc.vals[in] = Term{S: x.S, Sort: "Int", T: in.Type()}
			default:
				vc.defineFresh(in)
			}
		}
	case *ssa.Extract:
		t := vc.val(in.Tuple)
		if in.Index < len(t.Tup) {
			e := t.Tup[in.Index]
			e.T = in.Type()
			vc.vals[in] = e
		} else {
			vc.defineFresh(in)
		}
	case *ssa.Slice:
		vc.sliceInstr(in)
	case *ssa.MakeSlice:
		ln := vc.val(in.Len)
		cp := vc.val(in.Cap)
		vc.obAssert("bounds", "bounds@"+vc.srcText(in), "make: 0 <= len <= cap", fmt.Sprintf("(and (<= 0 %s) (<= %s %s))", ln.S, ln.S, cp.S), in.Pos())
		vc.assume("make() of a slice succeeds (allocation-size panics / out-of-memory are not modelled)")
		arr := vc.newAllocRef("mk$" + mangle(in.Name()))
		el := in.Type().Underlying().(*types.Slice).Elem()
		if !isObjectType(el) {
			c, s := vc.elemComp(el)
			vc.heapSet(c, s, fmt.Sprintf("(store %s %s ((as const (Array Int %s)) %s))", vc.heapGet(c, s), arr, vc.sortOf(el), vc.zeroValue(el)))
		} else {
			vc.zeroObjectElems(arr, el)
		}
		vc.define(in, fmt.Sprintf("(mkSlice %s 0 %s %s)", arr, ln.S, cp.S))
	case *ssa.MakeMap:
		// a new, empty map: fresh handle, no key present
		mt := in.Type().Underlying().(*types.Map)
		m := vc.newAllocRef("map$" + mangle(in.Name()))
		vc.vals[in] = Term{S: m, Sort: "Int", T: in.Type()}
		_, _, hC, hS := vc.mapComps(mt.Key(), mt.Elem())
		vc.heapSet(hC, hS, fmt.Sprintf("(store %s %s ((as const (Array %s Bool)) false))", vc.heapGet(hC, hS), m, vc.sortOf(mt.Key())))
	case *ssa.MakeChan:
		t := vc.defineFresh(in)
		vc.fact(fmt.Sprintf("(> %s 0)", t.S))
	case *ssa.MakeClosure:
		t := vc.defineFresh(in)
		vc.fact(fmt.Sprintf("(> %s 0)", t.S))
		vc.closures[in] = in
	case *ssa.Lookup:
		vc.lookup(in)
	case *ssa.MapUpdate:
		vc.mapUpdate(in)
	case *ssa.Range:
		vc.defineFresh(in)
	case *ssa.Next:
		it := in.Type().(*types.Tuple)
		var tup []Term
		for i := 0; i < it.Len(); i++ {
			srt := vc.sortOf(it.At(i).Type())
			f := vc.freshConst("next", srt)
			t := Term{S: f, Sort: srt, T: it.At(i).Type()}
			if _, isInvalid := it.At(i).Type().(*types.Basic); !isInvalid || it.At(i).Type().(*types.Basic).Kind() != types.Invalid {
				vc.addRange(t)
			}
			tup = append(tup, t)
		}
		vc.vals[in] = Term{Sort: "Tuple", Tup: tup}
	case *ssa.Call:
		vc.call(in)
	case *ssa.Defer:
		vc.deferInstr(in)
	case *ssa.RunDefers:
		vc.runDefers(in)
	case *ssa.Go:
		vc.errorf("go statement: outside the verified subset")
	case *ssa.Send, *ssa.Select:
		vc.errorf("channel operation: outside the verified subset")
		if v, ok := in.(ssa.Value); ok {
			vc.defineFresh(v)
		}
	case *ssa.If:
		vc.edgeOut(vc.curBlock, vc.curReach)
		vc.backEdges(vc.curBlock)
	case *ssa.Jump:
		vc.edgeOut(vc.curBlock, vc.curReach)
		vc.backEdges(vc.curBlock)
	case *ssa.Return:
		vc.ret(in)
	case *ssa.Panic:
		msg := ""
		if mi, ok := in.X.(*ssa.MakeInterface); ok {
			if c, ok := mi.X.(*ssa.Const); ok && c.Value != nil && c.Value.Kind() == constant.String {
				msg = constant.StringVal(c.Value)
			}
		}
		if vc.fc != nil && vc.fc.MayPanic {
			vc.assume("explicit panic statements of " + vc.fnName() + " are documented behaviour (maypanic): those paths end without obligation")
		} else if vc.fc != nil {
			key := "panic-unreachable"
			if msg != "" {
				key += "(" + msg + ")"
			}
			vc.ob("unreachable", key, "explicit panic is unreachable: "+msg, fmt.Sprintf("(not %s)", vc.curReach), in.Pos())
		}
	case *ssa.SliceToArrayPointer:
		x := vc.val(in.X)
		n := in.Type().Underlying().(*types.Pointer).Elem().Underlying().(*types.Array).Len()
		vc.obAssert("bounds", "bounds@"+vc.srcText(in), "slice to array pointer: length suffices", fmt.Sprintf("(>= (s.len %s) %d)", x.S, n), in.Pos())
		// the array pointer aliases the slice's backing store only when off == 0; otherwise opaque
		vc.defineFresh(in)
		vc.notes = append(vc.notes, "slice-to-array-pointer conversion modelled as opaque pointer")
	default:
		vc.errorf("unsupported instruction %T: %s", in, in)
		if v, ok := in.(ssa.Value); ok {
			vc.defineFresh(v)
		}
	}
}

func (vc *FnVC) zeroObjectElems(arr string, el types.Type) {
	if isUint256(el) || isBigInt(el) {
		c, s := vc.cellComp(el)
		n := vc.heapHavoc(c, s)
		prev := vc.entryComp(c, s)
		_ = prev
		vc.notes = append(vc.notes, "make of object slice: element zero-initialisation stated with a quantified fact")
		er := vc.elemRef(el, arr, "i")
		vc.fact(fmt.Sprintf("(forall ((i Int)) (! (= (select %s %s) 0) :pattern (%s)))", n, er, er))
		return
	}
	vc.notes = append(vc.notes, "make of struct slice: element zero-initialisation not modelled")
}

func (vc *FnVC) indexAddr(in *ssa.IndexAddr) {
	i := vc.val(in.Index)
	x := vc.val(in.X)
	var el types.Type
	var arr, off, bound string
	switch xt := in.X.Type().Underlying().(type) {
	case *types.Slice:
		el = xt.Elem()
		arr = fmt.Sprintf("(s.arr %s)", x.S)
		off = fmt.Sprintf("(+ (s.off %s) %s)", x.S, i.S)
		bound = fmt.Sprintf("(s.len %s)", x.S)
	case *types.Pointer:
		at := xt.Elem().Underlying().(*types.Array)
		el = at.Elem()
		arr = x.S
		off = i.S
		bound = fmt.Sprint(at.Len())
	default:
		vc.errorf("IndexAddr on %s", in.X.Type())
		return
	}
	vc.obAssert("bounds", "bounds@"+vc.srcText(in), "index in range", fmt.Sprintf("(and (<= 0 %s) (< %s %s))", i.S, i.S, bound), in.Pos())
	if isObjectType(el) {
		vc.vals[in] = Term{S: vc.elemRef(el, arr, off), Sort: "Int", T: in.Type()}
		return
	}
	c, s := vc.elemComp(el)
	vc.locs[in] = Loc{comp: c, sort: s, ref: arr, idx: off, T: el, what: vc.srcText(in)}
}

func (vc *FnVC) unop(in *ssa.UnOp) {
	switch in.Op {
	case token.MUL: // load
		if l, ok := vc.locOf(in.X); ok {
			t := vc.define(in, vc.locLoad(l))
			vc.addRange(t)
			return
		}
		if g, ok := in.X.(*ssa.Global); ok {
			obj, _ := g.Object().(*types.Var)
			if obj != nil {
				t := vc.globalTerm(obj)
				t.T = in.Type()
				vc.vals[in] = t
				return
			}
		}
		p := vc.val(in.X)
		el := in.X.Type().Underlying().(*types.Pointer).Elem()
		heap := func(c, s string) string { return vc.heapGet(c, s) }
		if isUint256(el) || isBigInt(el) {
			c, s := vc.cellComp(el)
			t := vc.define(in, vc.readCell(c, s, p.S))
			vc.addRange(t)
			return
		}
		t := vc.define(in, vc.loadObject(p.S, el, heap))
		vc.addRange(t)
	case token.NOT:
		vc.define(in, "(not "+vc.val(in.X).S+")")
	case token.SUB:
		x := vc.val(in.X)
		if _, _, ok := intRange(in.Type()); ok {
			vc.define(in, vc.wrap("(- "+x.S+")", in.Type()))
		} else {
			vc.defineFresh(in)
		}
	case token.XOR:
		x := vc.val(in.X)
		lo, hi, ok := intRange(in.Type())
		if !ok {
			vc.defineFresh(in)
			return
		}
		if lo.Sign() == 0 {
			vc.define(in, fmt.Sprintf("(- %s %s)", hi.String(), x.S))
		} else {
			vc.define(in, fmt.Sprintf("(- (- %s) 1)", x.S))
		}
	default:
		vc.errorf("unsupported unary op %s", in.Op)
		vc.defineFresh(in)
	}
}

// wrap reduces a mathematical integer term into the range of Go type t (two's complement).
func (vc *FnVC) wrap(raw string, t types.Type) string {
	lo, hi, ok := intRange(t)
	if !ok {
		return raw
	}
	w := new(big.Int).Add(new(big.Int).Sub(hi, lo), big.NewInt(1))
	if lo.Sign() == 0 {
		return fmt.Sprintf("(mod %s %s)", raw, w.String())
	}
	half := new(big.Int).Neg(lo)
	return fmt.Sprintf("(- (mod (+ %s %s) %s) %s)", raw, half.String(), w.String(), half.String())
}

// wrapAddSub: raw is within one modulus of the range; use ite instead of mod.
func (vc *FnVC) wrapAddSub(raw string, t types.Type) string {
	lo, hi, ok := intRange(t)
	if !ok {
		return raw
	}
	w := new(big.Int).Add(new(big.Int).Sub(hi, lo), big.NewInt(1))
	return fmt.Sprintf("(let ((r$ %s)) (ite (> r$ %s) (- r$ %s) (ite (< r$ %s) (+ r$ %s) r$)))", raw, smtInt(hi), w.String(), smtInt(lo), w.String())
}

func isConstVal(v ssa.Value) (*big.Int, bool) {
	c, ok := v.(*ssa.Const)
	if !ok || c.Value == nil || c.Value.Kind() != constant.Int {
		return nil, false
	}
	bi, ok := new(big.Int).SetString(c.Value.ExactString(), 10)
	return bi, ok
}

func (vc *FnVC) inRange(term string, t types.Type) string {
	lo, hi, _ := intRange(t)
	return fmt.Sprintf("(and (<= %s %s) (<= %s %s))", smtInt(lo), term, term, smtInt(hi))
}

func (vc *FnVC) binop(in *ssa.BinOp) {
	x, y := vc.val(in.X), vc.val(in.Y)
	t := in.Type()
	xt := in.X.Type()
	_, _, isInt := intRange(xt)
	if isUint256(xt) {
		isInt = false
	}
	bx, isBasic := xt.Underlying().(*types.Basic)
	isString := isBasic && bx.Info()&types.IsString != 0
	isFloat := isBasic && bx.Info()&(types.IsFloat|types.IsComplex) != 0
	switch in.Op {
	case token.EQL, token.NEQ:
		if isFloat {
			vc.defineFresh(in)
			return
		}
		e := fmt.Sprintf("(= %s %s)", x.S, y.S)
		if x.Sort != y.Sort {
			vc.errorf("comparison of different sorts %s %s at %s", x.Sort, y.Sort, in)
			vc.defineFresh(in)
			return
		}
		if in.Op == token.NEQ {
			e = "(not " + e + ")"
		}
		vc.define(in, e)
		return
	case token.LSS, token.LEQ, token.GTR, token.GEQ:
		if isInt {
			vc.define(in, fmt.Sprintf("(%s %s %s)", in.Op.String(), x.S, y.S))
			return
		}
		if isFloat && x.Sort == "Int" && y.Sort == "Int" {
			// floats are opaque values (integral constants keep their value); comparisons are
			// deterministic uninterpreted relations, with x < x and x > x false
			vc.decl("flt$lt", "(declare-fun flt$lt (Int Int) Bool)")
			vc.decl("flt$le", "(declare-fun flt$le (Int Int) Bool)")
			vc.declAxiom("flt$ax", "(assert (forall ((a Int)) (! (not (flt$lt a a)) :pattern ((flt$lt a a)))))")
			var e string
			switch in.Op {
			case token.LSS:
				e = fmt.Sprintf("(flt$lt %s %s)", x.S, y.S)
			case token.GTR:
				e = fmt.Sprintf("(flt$lt %s %s)", y.S, x.S)
			case token.LEQ:
				e = fmt.Sprintf("(flt$le %s %s)", x.S, y.S)
			case token.GEQ:
				e = fmt.Sprintf("(flt$le %s %s)", y.S, x.S)
			}
			vc.define(in, e)
			vc.assume("floating point values are opaque; only determinism of comparisons and irreflexivity of < are used")
			return
		}
		if isString {
			vc.decl("strlt", "(declare-fun strlt (Int Int) Bool)")
			vc.declAxiom("strlt$ax","(assert (forall ((a Int) (b Int)) (! (and (not (and (strlt a b) (strlt b a))) (or (strlt a b) (strlt b a) (= a b))) :pattern ((strlt a b)))))")
			vc.declAxiom("strlt$tr","(assert (forall ((a Int) (b Int) (c Int)) (! (=> (and (strlt a b) (strlt b c)) (strlt a c)) :pattern ((strlt a b) (strlt b c)))))")
			vc.assume("string identity: equal strings are represented by equal ids (string '<' is an uninterpreted strict total order on ids)")
			var e string
			switch in.Op {
			case token.LSS:
				e = fmt.Sprintf("(strlt %s %s)", x.S, y.S)
			case token.GTR:
				e = fmt.Sprintf("(strlt %s %s)", y.S, x.S)
			case token.LEQ:
				e = fmt.Sprintf("(not (strlt %s %s))", y.S, x.S)
			case token.GEQ:
				e = fmt.Sprintf("(not (strlt %s %s))", x.S, y.S)
			}
			vc.define(in, e)
			return
		}
		vc.defineFresh(in)
		return
	}
	if isString && in.Op == token.ADD {
		r := vc.defineFresh(in)
		vc.fact(fmt.Sprintf("(= (strlen %s) (+ (strlen %s) (strlen %s)))", vc.strTerm(r.S), x.S, y.S))
		return
	}
	if !isInt {
		vc.defineFresh(in)
		return
	}
	src := vc.srcText(in)
	switch in.Op {
	case token.ADD, token.SUB, token.MUL:
		op := map[token.Token]string{token.ADD: "+", token.SUB: "-", token.MUL: "*"}[in.Op]
		raw := vc.arith(op, x.S, y.S)
		if vc.nowrap {
			_, cx := isConstVal(in.X)
			_, cy := isConstVal(in.Y)
			if !(cx && cy) {
				vc.obAssert("nowrap", "nowrap@"+src, "no overflow/underflow in "+src, vc.inRange(raw, t), in.Pos())
			}
			vc.define(in, raw)
			return
		}
		if in.Op == token.MUL {
			vc.define(in, vc.wrap(raw, t))
		} else {
			vc.define(in, vc.wrapAddSub(raw, t))
		}
	case token.QUO, token.REM:
		vc.obAssert("bounds", "div-by-zero@"+src, "divisor is non-zero in "+src, fmt.Sprintf("(not (= %s 0))", y.S), in.Pos())
		lo, _, _ := intRange(t)
		if lo.Sign() == 0 {
			if in.Op == token.QUO {
				vc.define(in, fmt.Sprintf("(div %s %s)", x.S, y.S))
			} else {
				vc.define(in, fmt.Sprintf("(mod %s %s)", x.S, y.S))
			}
			return
		}
		if c, isC := isConstVal(in.Y); isC && c.Sign() > 0 {
			// positive constant divisor: truncated division cannot wrap
			qc := fmt.Sprintf("(ite (>= %s 0) (div %s %s) (- (div (- %s) %s)))", x.S, x.S, y.S, x.S, y.S)
			if in.Op == token.QUO {
				vc.define(in, qc)
			} else {
				vc.define(in, fmt.Sprintf("(- %s (* %s %s))", x.S, y.S, qc))
			}
			return
		}
		q := fmt.Sprintf("(ite (>= %s 0) (ite (> %s 0) (div %s %s) (- (div %s (- %s)))) (ite (> %s 0) (- (div (- %s) %s)) (div (- %s) (- %s))))", x.S, y.S, x.S, y.S, x.S, y.S, y.S, x.S, y.S, x.S, y.S)
		if in.Op == token.QUO {
			vc.define(in, vc.wrap(q, t))
		} else {
			vc.define(in, fmt.Sprintf("(- %s (* %s %s))", x.S, y.S, q))
		}
	case token.SHL, token.SHR:
		bits, _ := intBits(t)
		if k, ok := isConstVal(in.Y); ok && k.IsInt64() {
			kk := int(k.Int64())
			if kk >= bits {
				if in.Op == token.SHL {
					vc.define(in, "0")
				} else {
					lo, _, _ := intRange(t)
					if lo.Sign() == 0 {
						vc.define(in, "0")
					} else {
						vc.define(in, fmt.Sprintf("(ite (< %s 0) (- 1) 0)", x.S))
					}
				}
				return
			}
			if in.Op == token.SHL {
				vc.define(in, vc.wrap(fmt.Sprintf("(* %s %s)", x.S, pow2(kk).String()), t))
			} else {
				vc.define(in, fmt.Sprintf("(div %s %s)", x.S, pow2(kk).String()))
			}
			return
		}
		// variable shift: ite chain over 0..bits-1
		var sb strings.Builder
		closers := 0
		for i := 0; i < bits; i++ {
			var e string
			if in.Op == token.SHL {
				e = vc.wrap(fmt.Sprintf("(* %s %s)", x.S, pow2(i).String()), t)
			} else {
				e = fmt.Sprintf("(div %s %s)", x.S, pow2(i).String())
			}
			sb.WriteString(fmt.Sprintf("(ite (= %s %d) %s ", y.S, i, e))
			closers++
		}
		last := "0"
		if in.Op == token.SHR {
			if lo, _, _ := intRange(t); lo.Sign() < 0 {
				last = fmt.Sprintf("(ite (< %s 0) (- 1) 0)", x.S)
			}
		}
		sb.WriteString(last)
		sb.WriteString(strings.Repeat(")", closers))
		// negative shift counts panic
		if lo, _, ok := intRange(in.Y.Type()); ok && lo.Sign() < 0 {
			vc.obAssert("bounds", "shift-count@"+src, "shift count is non-negative", fmt.Sprintf("(>= %s 0)", y.S), in.Pos())
		}
		vc.define(in, sb.String())
	case token.AND, token.OR, token.XOR, token.AND_NOT:
		vc.bitop(in, x, y)
	default:
		vc.errorf("unsupported binary op %s", in.Op)
		vc.defineFresh(in)
	}
}

func (vc *FnVC) bitop(in *ssa.BinOp, x, y Term) {
	t := in.Type()
	lo, hi, _ := intRange(t)
	unsigned := lo.Sign() == 0
	cx, xIsC := isConstVal(in.X)
	cy, yIsC := isConstVal(in.Y)
	if xIsC && yIsC {
		var r *big.Int
		switch in.Op {
		case token.AND:
			r = new(big.Int).And(cx, cy)
		case token.OR:
			r = new(big.Int).Or(cx, cy)
		case token.XOR:
			r = new(big.Int).Xor(cx, cy)
		case token.AND_NOT:
			r = new(big.Int).AndNot(cx, cy)
		}
		vc.define(in, smtInt(r))
		return
	}
	if in.Op == token.AND && !unsigned {
		// two's complement: x & (2^k - 1) is the Euclidean remainder mod 2^k, also for negative x
		v, c, isC := x, cy, yIsC
		if xIsC {
			v, c, isC = y, cx, true
		}
		if isC && c.Sign() > 0 {
			c1 := new(big.Int).Add(c, big.NewInt(1))
			if new(big.Int).And(c, c1).Sign() == 0 {
				vc.define(in, fmt.Sprintf("(mod %s %s)", v.S, c1.String()))
				return
			}
		}
	}
	if in.Op == token.AND && unsigned {
		v, c, isC := x, cy, yIsC
		if xIsC {
			v, c, isC = y, cx, true
		}
		if isC {
			if c.Sign() == 0 {
				vc.define(in, "0")
				return
			}
			if c.Cmp(hi) == 0 {
				vc.define(in, v.S)
				return
			}
			c1 := new(big.Int).Add(c, big.NewInt(1))
			if new(big.Int).And(c, c1).Sign() == 0 {
				vc.define(in, fmt.Sprintf("(mod %s %s)", v.S, c1.String()))
				return
			}
			if s, w, ok := shiftedMask(c); ok {
				vc.define(in, fmt.Sprintf("(* (mod (div %s %s) %s) %s)", v.S, pow2(s).String(), pow2(w).String(), pow2(s).String()))
				return
			}
		}
	}
	if in.Op == token.AND_NOT && unsigned && yIsC {
		// x &^ c  ==  x & (^c)
		nc := new(big.Int).AndNot(hi, cy)
		if s, w, ok := shiftedMask(nc); ok {
			vc.define(in, fmt.Sprintf("(* (mod (div %s %s) %s) %s)", x.S, pow2(s).String(), pow2(w).String(), pow2(s).String()))
			return
		}
	}
	if (in.Op == token.OR || in.Op == token.XOR) && unsigned {
		if yIsC && cy.Sign() == 0 {
			vc.define(in, x.S)
			return
		}
		if xIsC && cx.Sign() == 0 {
			vc.define(in, y.S)
			return
		}
	}
	if unsigned && in.Op != token.AND_NOT {
		// operands whose set bits are syntactically disjoint (x a multiple of 2^k by construction,
		// y below 2^k by type or construction): x|y == x^y == x+y exactly, x&y == 0
		tzx, ubx := bitShape(in.X, 0)
		tzy, uby := bitShape(in.Y, 0)
		if tzx >= uby || tzy >= ubx {
			if in.Op == token.AND {
				vc.define(in, "0")
			} else {
				vc.define(in, fmt.Sprintf("(+ %s %s)", x.S, y.S))
			}
			return
		}
	}
	name := map[token.Token]string{token.AND: "and", token.OR: "or", token.XOR: "xor", token.AND_NOT: "andnot"}[in.Op]
	if !unsigned {
		vc.defineFresh(in)
		vc.notes = append(vc.notes, "signed bit operation havocked: "+vc.srcText(in))
		return
	}
	if name == "andnot" {
		vc.decl("bitandnot", "(declare-fun bitandnot (Int Int) Int)")
		vc.declAxiom("bitandnot$ax","(assert (forall ((x Int) (y Int)) (! (=> (and (>= x 0) (>= y 0)) (and (>= (bitandnot x y) 0) (<= (bitandnot x y) x))) :pattern ((bitandnot x y)))))")
		vc.define(in, fmt.Sprintf("(bitandnot %s %s)", x.S, y.S))
		return
	}
	r := vc.define(in, vc.bitFun(name, x.S, y.S))
	vc.fact(vc.inRange(r.S, t))
	vc.bitUses = append(vc.bitUses, bitUse{name, x.S, y.S, r.S, t})
	// bit-level facts bridged to arithmetic: operands with disjoint bit ranges
	// (x a multiple of 2^k, y below 2^k) combine by addition; AND of such operands is 0.
	bits, _ := intBits(t)
	var ks []int
	for k := 1; k < bits; k++ {
		if bits <= 8 || k%4 == 0 {
			ks = append(ks, k)
		}
	}
	for _, k := range ks {
		p := pow2(k).String()
		for _, pr := range [][2]string{{x.S, y.S}, {y.S, x.S}} {
			cond := fmt.Sprintf("(and (= (mod %s %s) 0) (< %s %s))", pr[0], p, pr[1], p)
			switch name {
			case "or", "xor":
				vc.fact(fmt.Sprintf("(=> %s (= %s (+ %s %s)))", cond, r.S, pr[0], pr[1]))
			case "and":
				vc.fact(fmt.Sprintf("(=> %s (= %s 0))", cond, r.S))
			}
		}
	}
	vc.assume("bit-lemma bridge: for non-negative a, b with a a multiple of 2^k and b < 2^k: a|b == a^b == a+b and a&b == 0 (standard bit-vector fact, used as an arithmetic axiom)")
}

// bitShape gives, from the syntactic construction of an unsigned value, a number tz of
// guaranteed trailing zero bits and an upper bound ub on its bit length (value < 2^ub).
// (0, width) is the trivial answer; signed or unknown values get (0, 64).
func bitShape(v ssa.Value, depth int) (tz, ub int) {
	bits := 64
	unsignedT := false
	if lo, _, ok := intRange(v.Type()); ok && lo.Sign() == 0 {
		unsignedT = true
		bits, _ = intBits(v.Type())
	}
	if c, ok := isConstVal(v); ok {
		if c.Sign() < 0 {
			return 0, 64
		}
		if c.Sign() == 0 {
			return 64, 0
		}
		return int(c.TrailingZeroBits()), c.BitLen()
	}
	if !unsignedT || depth > 12 {
		return 0, bits
	}
	minI := func(a, b int) int {
		if a < b {
			return a
		}
		return b
	}
	maxI := func(a, b int) int {
		if a > b {
			return a
		}
		return b
	}
	switch x := v.(type) {
	case *ssa.Convert:
		if lo, _, ok := intRange(x.X.Type()); ok && lo.Sign() == 0 {
			t, u := bitShape(x.X, depth+1)
			return t, minI(u, bits)
		}
	case *ssa.BinOp:
		switch x.Op {
		case token.SHL:
			if k, ok := isConstVal(x.Y); ok && k.IsInt64() && k.Int64() >= 0 && k.Int64() < 64 {
				t, u := bitShape(x.X, depth+1)
				return minI(t+int(k.Int64()), 64), minI(u+int(k.Int64()), bits)
			}
		case token.SHR:
			if k, ok := isConstVal(x.Y); ok && k.IsInt64() && k.Int64() >= 0 && k.Int64() < 64 {
				t, u := bitShape(x.X, depth+1)
				return maxI(t-int(k.Int64()), 0), maxI(u-int(k.Int64()), 0)
			}
		case token.OR, token.XOR:
			t1, u1 := bitShape(x.X, depth+1)
			t2, u2 := bitShape(x.Y, depth+1)
			return minI(t1, t2), maxI(u1, u2)
		case token.AND:
			t1, u1 := bitShape(x.X, depth+1)
			t2, u2 := bitShape(x.Y, depth+1)
			return maxI(t1, t2), minI(u1, u2)
		}
	}
	return 0, bits
}

type bitUse struct {
	op, x, y, r string
	t           types.Type
}

func (vc *FnVC) convert(in *ssa.Convert) {
	x := vc.val(in.X)
	from, to := in.X.Type(), in.Type()
	_, _, fromInt := intRange(from)
	lo2, hi2, toInt := intRange(to)
	if isUint256(from) || isUint256(to) {
		fromInt, toInt = false, false
	}
	if fromInt && toInt {
		lo1, hi1, _ := intRange(from)
		if lo1.Cmp(lo2) >= 0 && hi1.Cmp(hi2) <= 0 {
			vc.vals[in] = Term{S: x.S, Sort: "Int", T: to}
			return
		}
		if vc.nowrap {
			vc.obAssert("nowrap", "nowrap@"+vc.srcText(in), "conversion preserves the value: "+vc.srcText(in), vc.inRange(x.S, to), in.Pos())
			vc.vals[in] = Term{S: x.S, Sort: "Int", T: to}
			return
		}
		vc.define(in, vc.wrap(x.S, to))
		return
	}
	fb, _ := from.Underlying().(*types.Basic)
	tb, _ := to.Underlying().(*types.Basic)
	// string <-> []byte
	if _, ok := to.Underlying().(*types.Slice); ok && fb != nil && fb.Info()&types.IsString != 0 {
		arr := vc.newAllocRef("cv$" + mangle(in.Name()))
		n := fmt.Sprintf("(strlen %s)", vc.strTerm(x.S))
		vc.define(in, fmt.Sprintf("(mkSlice %s 0 %s %s)", arr, n, n))
		vc.notes = append(vc.notes, "string->[]byte conversion: contents opaque")
		return
	}
	if _, ok := from.Underlying().(*types.Slice); ok && tb != nil && tb.Info()&types.IsString != 0 {
		r := vc.defineFresh(in)
		vc.fact(fmt.Sprintf("(= (strlen %s) (s.len %s))", vc.strTerm(r.S), x.S))
		return
	}
	if x.Sort == vc.sortOf(to) && !(fb != nil && fb.Info()&types.IsFloat != 0) && !(tb != nil && tb.Info()&types.IsFloat != 0) {
		if fromInt && tb != nil && tb.Info()&types.IsString != 0 {
			vc.defineFresh(in)
			return
		}
		vc.vals[in] = Term{S: x.S, Sort: x.Sort, T: to}
		return
	}
	vc.defineFresh(in)
}

func (vc *FnVC) store(in *ssa.Store) {
	v := vc.val(in.Val)
	if l, ok := vc.locOf(in.Addr); ok {
		vc.checkWrite(l.comp, l.ref, l.idx, vc.addrText(in.Addr), in.Pos())
		vc.locStore(l, v.S)
		return
	}
	if g, ok := in.Addr.(*ssa.Global); ok {
		vc.notes = append(vc.notes, "store to global "+g.Name()+" ignored (globals are modelled as constants)")
		vc.assume("writes to package-level variables are not modelled")
		return
	}
	p := vc.val(in.Addr)
	el := in.Addr.Type().Underlying().(*types.Pointer).Elem()
	vc.checkObjectWrite(p.S, el, vc.addrText(in.Addr), in.Pos())
	vc.storeObject(p.S, el, v.S)
}

func (vc *FnVC) checkObjectWrite(ref string, t types.Type, what string, pos token.Pos) {
	if vc.fc == nil || vc.rootIsFresh(ref) {
		return
	}
	if isUint256(t) || isBigInt(t) {
		c, _ := vc.cellComp(t)
		vc.checkWrite(c, ref, "", what, pos)
		return
	}
	switch u := t.Underlying().(type) {
	case *types.Struct:
		for i := 0; i < u.NumFields(); i++ {
			ft := u.Field(i).Type()
			if isObjectType(ft) {
				vc.checkObjectWrite(vc.fldRef(t, i, ref), ft, what+"."+u.Field(i).Name(), pos)
			} else {
				c, _ := vc.fieldComp(t, i)
				vc.checkWrite(c, ref, "", what+"."+u.Field(i).Name(), pos)
			}
		}
	case *types.Array:
		c, _ := vc.elemComp(u.Elem())
		vc.checkWrite(c, ref, "", what, pos)
	default:
		c, _ := vc.cellComp(t)
		vc.checkWrite(c, ref, "", what, pos)
	}
}

func (vc *FnVC) addrText(addr ssa.Value) string {
	switch a := addr.(type) {
	case *ssa.FieldAddr:
		st := a.X.Type().Underlying().(*types.Pointer).Elem().Underlying().(*types.Struct)
		return vc.valueText(a.X) + "." + st.Field(a.Field).Name()
	case *ssa.IndexAddr:
		return vc.valueText(a.X) + "[" + vc.valueText(a.Index) + "]"
	}
	return "*" + vc.valueText(addr)
}

// valueText gives a stable, source-like text for an SSA value (names, not temporaries, where possible).
func (vc *FnVC) valueText(v ssa.Value) string {
	switch v := v.(type) {
	case *ssa.Parameter:
		return v.Name()
	case *ssa.Const:
		if v.Value != nil {
			return v.Value.ExactString()
		}
		return "nil"
	case *ssa.Alloc:
		if v.Comment != "" {
			return v.Comment
		}
	case *ssa.Phi:
		if v.Comment != "" {
			return v.Comment
		}
	case *ssa.FieldAddr, *ssa.IndexAddr:
		return vc.addrText(v)
	case *ssa.UnOp:
		if v.Op == token.MUL {
			return vc.addrText(v.X)
		}
	}
	if in, ok := v.(ssa.Instruction); ok {
		if s := vc.srcText(in); s != "" {
			return s
		}
	}
	return "_"
}

func (vc *FnVC) sliceInstr(in *ssa.Slice) {
	x := vc.val(in.X)
	src := vc.srcText(in)
	get := func(v ssa.Value, def string) string {
		if v == nil {
			return def
		}
		return vc.val(v).S
	}
	switch xt := in.X.Type().Underlying().(type) {
	case *types.Slice:
		lo := get(in.Low, "0")
		hi := get(in.High, fmt.Sprintf("(s.len %s)", x.S))
		capT := fmt.Sprintf("(s.cap %s)", x.S)
		mx := get(in.Max, capT)
		cond := fmt.Sprintf("(and (<= 0 %s) (<= %s %s) (<= %s %s) (<= %s %s))", lo, lo, hi, hi, mx, mx, capT)
		if in.Max == nil {
			cond = fmt.Sprintf("(and (<= 0 %s) (<= %s %s) (<= %s %s))", lo, lo, hi, hi, capT)
		}
		vc.obAssert("bounds", "bounds@"+src, "slice bounds in range: "+src, cond, in.Pos())
		vc.define(in, fmt.Sprintf("(mkSlice (s.arr %s) (+ (s.off %s) %s) (- %s %s) (- %s %s))", x.S, x.S, lo, hi, lo, mx, lo))
	case *types.Pointer:
		at := xt.Elem().Underlying().(*types.Array)
		n := fmt.Sprint(at.Len())
		lo := get(in.Low, "0")
		hi := get(in.High, n)
		mx := get(in.Max, n)
		vc.obAssert("bounds", "bounds@"+src, "slice bounds in range: "+src, fmt.Sprintf("(and (<= 0 %s) (<= %s %s) (<= %s %s) (<= %s %s))", lo, lo, hi, hi, mx, mx, n), in.Pos())
		vc.define(in, fmt.Sprintf("(mkSlice %s %s (- %s %s) (- %s %s))", x.S, lo, hi, lo, mx, lo))
	case *types.Basic: // string
		ln := fmt.Sprintf("(strlen %s)", vc.strTerm(x.S))
		lo := get(in.Low, "0")
		hi := get(in.High, ln)
		vc.obAssert("bounds", "bounds@"+src, "string slice bounds in range: "+src, fmt.Sprintf("(and (<= 0 %s) (<= %s %s) (<= %s %s))", lo, lo, hi, hi, ln), in.Pos())
		r := vc.defineFresh(in)
		vc.fact(fmt.Sprintf("(= (strlen %s) (- %s %s))", r.S, hi, lo))
	default:
		vc.errorf("slice of %s", in.X.Type())
		vc.defineFresh(in)
	}
}

func (vc *FnVC) lookup(in *ssa.Lookup) {
	if _, ok := in.X.Type().Underlying().(*types.Map); ok {
		m := vc.val(in.X)
		k := vc.val(in.Index)
		vt := in.X.Type().Underlying().(*types.Map).Elem()
		val, has := vc.mapRead(m.S, k, vt)
		if in.CommaOk {
			vc.vals[in] = Term{Sort: "Tuple", Tup: []Term{{S: val, Sort: vc.sortOf(vt), T: vt}, {S: has, Sort: "Bool"}}}
		} else {
			vc.define(in, fmt.Sprintf("(ite %s %s %s)", has, val, vc.zeroValue(vt)))
		}
		return
	}
	// string index
	x := vc.val(in.X)
	i := vc.val(in.Index)
	vc.obAssert("bounds", "bounds@"+vc.srcText(in), "string index in range", fmt.Sprintf("(and (<= 0 %s) (< %s (strlen %s)))", i.S, i.S, vc.strTerm(x.S)), in.Pos())
	vc.defineFresh(in)
}

// Maps: modelled as heap components keyed by map ref: M$<K>$<V>$val : Array Int (Array K V), M$..$has : Array Int (Array K Bool)
func (vc *FnVC) mapComps(kt, vt types.Type) (valC, valS, hasC, hasS string) {
	ks := vc.sortOf(kt)
	vs := vc.sortOf(vt)
	base := "M$" + shortTypeName(kt) + "$" + shortTypeName(vt)
	valS, hasS = fmt.Sprintf("(Array Int (Array %s %s))", ks, vs), fmt.Sprintf("(Array Int (Array %s Bool))", ks)
	if _, ok := vc.compSort[base+"$val"]; !ok {
		vc.compSort[base+"$val"] = valS
		vc.compSort[base+"$has"] = hasS
	}
	return base + "$val", valS, base + "$has", hasS
}

func (vc *FnVC) mapRead(m string, k Term, vt types.Type) (val, has string) {
	kt := k.T
	if kt == nil {
		kt = types.Typ[types.Int]
	}
	vC, vS, hC, hS := vc.mapComps(kt, vt)
	val = fmt.Sprintf("(select (select %s %s) %s)", vc.heapGet(vC, vS), m, k.S)
	has = fmt.Sprintf("(select (select %s %s) %s)", vc.heapGet(hC, hS), m, k.S)
	for _, f := range vc.rangeFacts(val, vt, 0) {
		vc.fact(f)
	}
	return
}

func (vc *FnVC) mapUpdate(in *ssa.MapUpdate) {
	m := vc.val(in.Map)
	k := vc.val(in.Key)
	v := vc.val(in.Value)
	mt := in.Map.Type().Underlying().(*types.Map)
	vC, vS, hC, hS := vc.mapComps(mt.Key(), mt.Elem())
	hv := vc.heapGet(vC, vS)
	hh := vc.heapGet(hC, hS)
	vc.checkWrite(vC, m.S, "", "map "+vc.valueText(in.Map), in.Pos())
	vc.heapSet(vC, vS, fmt.Sprintf("(store %s %s (store (select %s %s) %s %s))", hv, m.S, hv, m.S, k.S, v.S))
	vc.heapSet(hC, hS, fmt.Sprintf("(store %s %s (store (select %s %s) %s true))", hh, m.S, hh, m.S, k.S))
}

func (vc *FnVC) backEdges(b *ssa.BasicBlock) {
	for _, s := range b.Succs {
		if !isBackEdge(b, s) {
			continue
		}
		li := vc.loopInfo[s]
		if li == nil || li.spec == nil {
			continue
		}
		e, ok := vc.edgeCond[[2]*ssa.BasicBlock{b, s}]
		if !ok {
			continue
		}
		override := map[ssa.Value]Term{}
		for _, in := range s.Instrs {
			phi, ok := in.(*ssa.Phi)
			if !ok {
				break
			}
			for i, p := range s.Preds {
				if p == b {
					override[phi] = vc.val(phi.Edges[i])
				}
			}
		}
		env := vc.invEnv(s, override, vc.curHeap)
		for i, inv := range li.spec.Invs {
			g, err := env.ElabBool(inv.Expr)
			if err != nil {
				vc.errorf("loop %d invariant %q: %v", li.ord, inv.Text, err)
				continue
			}
			vc.ob("loop-preserve", fmt.Sprintf("loop%d.preserve#%d", li.ord, i+1), "invariant preserved by the loop body: "+inv.Text, fmt.Sprintf("(=> %s %s)", e, g), loopPos(s))
		}
	}
}

func (vc *FnVC) ret(in *ssa.Return) {
	vc.retReach = append(vc.retReach, vc.curReach)
	if vc.fc == nil {
		return
	}
	env := vc.curEnv()
	for i, r := range in.Results {
		t := vc.val(r)
		if i < len(vc.resultNames) && vc.resultNames[i] != "" && vc.resultNames[i] != "_" {
			env.vars[vc.resultNames[i]] = t
		}
		env.vars[fmt.Sprintf("result%d", i)] = t
		if len(in.Results) == 1 {
			env.vars["result"] = t
		}
	}
	for i, e := range vc.fc.Ensures {
		s, err := env.ElabBool(e.Expr)
		if err != nil {
			vc.errorf("ensures %q: %v", e.Text, err)
			continue
		}
		o := vc.ob("post", fmt.Sprintf("post#%d", i+1), "ensures "+e.Text, fmt.Sprintf("(=> %s %s)", vc.curReach, s), in.Pos())
		// record outputs for replay
		_ = o
	}
}

func (vc *FnVC) finish() {
	if len(vc.retReach) > 0 {
		cv := vc.ob("cover", "return-reachable", "some return is reachable under the preconditions (vacuity probe)", fmt.Sprintf("(not (or %s false))", strings.Join(vc.retReach, " ")), vc.fn.Pos())
		cv.Expect = "sat"
	}
}
