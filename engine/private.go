package main

import (
	"fmt"
	"go/types"

	"golang.org/x/tools/go/ssa"
)

// Non-escaping local variables (ssa.Alloc with Heap == false: go/ssa sets Heap as soon as the
// address of the variable, or of one of its fields or elements, is used as a value) are private
// to the function: no callee can reach them. Havocking whole heap components by type at an
// uncontracted call must therefore leave them alone. The by-value copy of a struct receiver or
// parameter that go/ssa spills into such a variable is the common case.
type savedAlloc struct {
	ref string
	t   types.Type
	val string
}

func bigObjArray(t types.Type, depth int) bool {
	if depth > 6 || isUint256(t) || isBigInt(t) {
		return false
	}
	switch u := t.Underlying().(type) {
	case *types.Array:
		if isObjectType(u.Elem()) {
			return u.Len() > 8 || bigObjArray(u.Elem(), depth+1)
		}
	case *types.Struct:
		for i := 0; i < u.NumFields(); i++ {
			if bigObjArray(u.Field(i).Type(), depth+1) {
				return true
			}
		}
	}
	return false
}

func (vc *FnVC) savePrivateAllocs() []savedAlloc {
	var out []savedAlloc
	if vc.fn == nil {
		return nil
	}
	for _, b := range vc.fn.Blocks {
		for _, in := range b.Instrs {
			a, ok := in.(*ssa.Alloc)
			if !ok || a.Heap {
				continue
			}
			rt, ok := vc.vals[a]
			if !ok {
				continue
			}
			et := a.Type().Underlying().(*types.Pointer).Elem()
			if !isObjectType(et) || bigObjArray(et, 0) {
				continue
			}
			v := vc.freshConst("keep", vc.sortOf(et))
			vc.fact(fmt.Sprintf("(= %s %s)", v, vc.loadObject(rt.S, et, vc.heapGet)))
			out = append(out, savedAlloc{ref: rt.S, t: et, val: v})
		}
	}
	return out
}

func (vc *FnVC) restorePrivateAllocs(saved []savedAlloc) {
	for _, s := range saved {
		vc.storeObject(s.ref, s.t, s.val)
	}
}
