package main

// Narrowing of heap parameters of pure spec functions.
//
// A pure function that reads a heap component only through one of its slice parameters
// (`code[p]` for parameter `code`) does not need the whole component as an argument: the
// backing array of that slice is enough. With the narrow argument, a write to a different
// array leaves the argument term unchanged (array read-over-write), so the function's value
// is unchanged by congruence - also for recursive functions, where equality of the results
// for two extensionally different heaps would need induction.

import (
	"fmt"
	"strings"
)

// narrowPureBody rewrites body so that heap parameter "hp$<comp>" (sort Array Int (Array Int X))
// is replaced by "ha$<comp>" (sort Array Int X) when every use has the form
// (select hp$comp (s.arr a$P)) for one slice parameter P, or is the heap argument of a
// recursive call that passes a$P unchanged at position P. Returns the new body and P, or
// ("", -1) when the parameter cannot be narrowed.
func narrowPureBody(body, fname string, comp string, params []Term, nparams int, heapIdx int) (string, int) {
	hp := "hp$" + comp
	ha := "ha$" + comp
	which := -1
	for pi, p := range params {
		if p.Sort != "Slice" {
			continue
		}
		pat := fmt.Sprintf("(select %s (s.arr %s))", hp, p.S)
		if strings.Contains(body, pat) {
			if which >= 0 && which != pi {
				return "", -1
			}
			which = pi
		}
	}
	if which < 0 {
		return "", -1
	}
	pat := fmt.Sprintf("(select %s (s.arr %s))", hp, params[which].S)
	out := strings.ReplaceAll(body, pat, ha)
	// remaining occurrences must be heap arguments of recursive calls
	call := "(spec$" + fname + " "
	var sb strings.Builder
	rest := out
	for {
		k := strings.Index(rest, call)
		if k < 0 {
			sb.WriteString(rest)
			break
		}
		sb.WriteString(rest[:k])
		// parse the call's arguments
		args, end, ok := splitSexprArgs(rest[k:])
		if !ok {
			return "", -1
		}
		// args[0] is the function symbol
		if len(args)-1 <= nparams+heapIdx || len(args)-1 <= which {
			return "", -1
		}
		if args[1+which] != params[which].S {
			return "", -1
		}
		if args[1+nparams+heapIdx] != hp {
			return "", -1
		}
		args[1+nparams+heapIdx] = ha
		// arguments themselves may contain nested recursive calls: recurse on each
		for i := 1; i < len(args); i++ {
			if strings.Contains(args[i], call) {
				nb, w := narrowPureBody(args[i], fname, comp, params, nparams, heapIdx)
				if w != which && strings.Contains(args[i], hp) {
					return "", -1
				}
				if nb != "" {
					args[i] = nb
				}
			}
		}
		sb.WriteString("(" + strings.Join(args, " ") + ")")
		rest = rest[k+end:]
	}
	res := sb.String()
	// any other use of the whole component blocks the narrowing
	for _, tok := range []string{hp + " ", hp + ")"} {
		if strings.Contains(res, tok) {
			return "", -1
		}
	}
	return res, which
}

// splitSexprArgs splits the s-expression starting at s[0] == '(' into its top-level elements
// and returns them with the length of the expression.
func splitSexprArgs(s string) ([]string, int, bool) {
	if len(s) == 0 || s[0] != '(' {
		return nil, 0, false
	}
	depth := 0
	var args []string
	start := -1
	for i := 0; i < len(s); i++ {
		c := s[i]
		switch {
		case c == '(':
			depth++
			if depth == 2 && start < 0 {
				start = i
			}
		case c == ')':
			depth--
			if depth == 1 && start >= 0 {
				args = append(args, s[start:i+1])
				start = -1
			}
			if depth == 0 {
				if start >= 0 {
					args = append(args, s[start:i])
				}
				return args, i + 1, true
			}
		case c == ' ' || c == '\n' || c == '\t':
			if depth == 1 && start >= 0 {
				args = append(args, s[start:i])
				start = -1
			}
		default:
			if depth == 1 && start < 0 {
				start = i
			}
		}
	}
	return nil, 0, false
}
