package main

import (
	"flag"
	"fmt"
	"os"
	"strings"
)

func main() {
	if len(os.Args) < 2 {
		fmt.Println("usage: govc check --property ID [--tier quick|thorough] | dump ...")
		os.Exit(2)
	}
	switch os.Args[1] {
	case "check":
		fs := flag.NewFlagSet("check", flag.ExitOnError)
		id := fs.String("property", "", "property id")
		tier := fs.String("tier", "", "quick|thorough")
		only := fs.String("only", "", "restrict to contracts whose key contains this")
		verbose := fs.Bool("v", false, "verbose")
		noEv := fs.Bool("no-evidence", false, "do not rewrite the evidence file (experiments on a modified tree)")
		fs.Parse(os.Args[2:])
		if *tier == "" {
			*tier = os.Getenv("VERIF_TIER")
		}
		if *tier == "" {
			*tier = "quick"
		}
		os.Exit(runCheckOpts(&CheckOpts{ID: *id, Tier: *tier, Only: *only, Verbose: *verbose, Out: os.Stdout, NoEvidence: *noEv}))
	case "selftest":
		fs := flag.NewFlagSet("selftest", flag.ExitOnError)
		id := fs.String("property", "", "property id (default all)")
		verbose := fs.Bool("v", false, "verbose")
		fs.Parse(os.Args[2:])
		os.Exit(runSelftest(*id, *verbose))
	case "sweep":
		fs := flag.NewFlagSet("sweep", flag.ExitOnError)
		pk := fs.String("pkgs", "", "comma-separated package paths (relative to the module)")
		match := fs.String("match", "", "only functions whose name contains this")
		verbose := fs.Bool("v", false, "verbose")
		fs.Parse(os.Args[2:])
		os.Exit(runSweep(strings.Split(*pk, ","), *match, *verbose))
	case "warm":
		os.Exit(runWarm())
	default:
		fmt.Println("unknown command", os.Args[1])
		os.Exit(2)
	}
}

// runWarm loads every package named in a property config once so that the go
// build cache is populated (first cold load is slow).
func runWarm() int {
	ents, _ := os.ReadDir(verifDir() + "/props")
	seen := map[string]bool{}
	var pkgs []string
	for _, e := range ents {
		if len(e.Name()) < 6 {
			continue
		}
		pc, err := loadPropConfig(e.Name()[:len(e.Name())-5])
		if err != nil {
			continue
		}
		for _, p := range pc.Packages {
			if !seen[p] {
				seen[p] = true
				pkgs = append(pkgs, p)
			}
		}
	}
	if len(pkgs) == 0 {
		return 0
	}
	if _, err := LoadProg(pkgs, nil); err != nil {
		fmt.Println("warm:", err)
		return 1
	}
	fmt.Println("warm: loaded", len(pkgs), "packages")
	return 0
}
