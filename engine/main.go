package main

import (
	"flag"
	"fmt"
	"os"
)

func main() {
	if len(os.Args) < 2 {
		fmt.Println("usage: govc check --property ID [--tier quick|thorough] | dump ...")
		os.Exit(2)
	}
	switch os.Args[1] {
	case "check":
		fs := flag.NewFlagSet("check", flag.ExitOnError)
		id := fs.String("property", "", "property id")
		tier := fs.String("tier", "", "quick|thorough")
		only := fs.String("only", "", "restrict to contracts whose key contains this")
		verbose := fs.Bool("v", false, "verbose")
		fs.Parse(os.Args[2:])
		if *tier == "" {
			*tier = os.Getenv("VERIF_TIER")
		}
		if *tier == "" {
			*tier = "quick"
		}
		os.Exit(runCheck(*id, *tier, *only, *verbose))
	default:
		fmt.Println("unknown command", os.Args[1])
		os.Exit(2)
	}
}
