package main

import (
	"fmt"
	"strings"
)

// smallModel re-asks a refuted obligation with every input slice limited to 48 elements (what the replay harness builds)
// (capacity 128). When the obligation is still refutable the smaller witness is returned;
// otherwise nil (the original model stands).
func smallModel(s *Solver, o *Oblig) *SolveResult {
	if o.RawQuery != "" {
		return nil
	}
	var extra []string
	for _, in := range o.Inputs {
		switch {
		case strings.HasPrefix(in.Term, "(s.len "):
			extra = append(extra, fmt.Sprintf("(<= %s 48)", in.Term))
		case strings.HasPrefix(in.Term, "(s.cap "):
			extra = append(extra, fmt.Sprintf("(<= %s 128)", in.Term))
		case strings.HasPrefix(in.Term, "(s.off "):
			extra = append(extra, fmt.Sprintf("(<= %s 16)", in.Term))
		}
	}
	if len(extra) == 0 {
		return nil
	}
	o2 := *o
	o2.Extra = append(append([]string{}, o.Extra...), extra...)
	o2.Name = o.Name + " [small]"
	r := s.Solve(&o2)
	if r.Status == "sat" && len(r.Model) > 0 {
		return r
	}
	return nil
}
