package main

// Core VC context: sorts, heap components, facts and obligations.

import (
	"fmt"
	"go/types"
	"math/big"
	"regexp"
	"sort"
	"strings"

	"golang.org/x/tools/go/ssa"
)

// Term is an SMT term with its SMT sort and (when it stands for a Go value) Go type.
type Term struct {
	S    string
	Sort string
	T    types.Type // nil for purely mathematical values
	Tup  []Term     // for tuple-valued calls
}

func (t Term) ok() bool { return t.S != "" || t.Tup != nil }

type Oblig struct {
	Name    string
	Kind    string // post, bounds, nowrap, call-pre, frame, loop-init, loop-preserve, cover, presat, unreachable
	Text    string // human readable clause
	Goal    string // SMT Bool term to prove (under facts[:NFacts])
	NFacts  int
	Pos     string
	Fn      string
	Expect  string // "unsat" normally (goal valid), "sat" for vacuity probes
	Inputs  []ModelVar
	Extra   []string // additional assertions specific to this obligation (e.g. instantiations)
	clauseIdx int
	noReplay  bool
	dropQuantified bool // probe fallback: leave out quantified facts
	RawQuery string // complete query text (bit-vector lemma back end); replaces the generated one
	vc      *FnVC
}

type ModelVar struct {
	Name string // contract-level name (e.g. "g.ExecutionGas", "cost.StateGas")
	Term string // SMT term to evaluate
	Sort string
}

type FnVC struct {
	prog *Prog
	fn   *ssa.Function
	fc   *FuncContract
	pkg  *types.Package

	decls   []string
	declSet map[string]bool
	facts   []string
	obligs  []*Oblig

	vals      map[ssa.Value]Term
	curHeap   map[string]string // component -> current term
	compSort  map[string]string // component -> sort
	entryHeap map[string]string
	heapVer   int
	fresh     int

	reach     map[*ssa.BasicBlock]string
	heapOut   map[*ssa.BasicBlock]map[string]string
	edgeCond  map[[2]*ssa.BasicBlock]string
	curBlock  *ssa.BasicBlock
	curReach  string

	allocRefs   []string // refs of local allocations (distinct, non-nil, fresh)
	freshRoots  map[string]bool
	paramTerms  map[string]Term // by source name
	resultNames []string
	ghostTerms  map[string]Term

	pureDefined map[string]*pureDef
	pureStack   []string

	strIntern map[string]string
	globals   map[string]bool

	assumptions map[string]bool
	notes       []string
	errs        []string

	nowrap      bool
	modItems    []modItem // elaborated modifies of this function
	inputs      []ModelVar
	callCount   map[string]int
	obCount     map[string]int
	versionCtr  map[string]string // pure-observer version per interface value

	loopInfo map[*ssa.BasicBlock]*loopInfo
	domPre   map[*ssa.BasicBlock]int
	subrefDeclared map[string]bool
	refTagN  int

	locs          map[ssa.Value]Loc
	closures      map[ssa.Value]*ssa.MakeClosure
	bitUses       []bitUse
	callLocVars   map[string]Loc // callee parameter names bound to interior pointers at the current call
	sweep         bool           // zero-annotation safety sweep: only run-time safety obligations matter
	inlinePrefix  string         // name space of the closure body being inlined ("" outside)
	inlineSeq     int
	retReach      []string
	globalErrs    []string
	newErrs       []string
	usedContracts map[string]*FuncContract
	havocked      map[string]bool
	defers        []*ssa.Defer
	compType      map[string]compTy
	globalGoNames map[string]goName
	pendingDistinct []string
	bigConstRefs  [][2]string
	benign        map[int]bool
	mutNoted      bool
	usedLemmas    []string
	quantPures    map[string]bool
	cellCache     map[string]string
	cellCacheOut  map[*ssa.BasicBlock]map[string]string
}

type pureDef struct {
	heapParams []string // component names in order
	sortsOf    []string
	resultSort string
	pf         *PureFunc
	params     []Term
	resultT    types.Type
	// viaParam[i] >= 0: heap parameter i is not the whole component but the backing array of
	// slice parameter viaParam[i] (the function reads that component only through that slice),
	// so that writes to other arrays leave the argument - and with it the value - unchanged
	viaParam []int
}

func newFnVC(prog *Prog, fn *ssa.Function, fc *FuncContract) *FnVC {
	vc := &FnVC{prog: prog, fn: fn, fc: fc}
	if fn != nil && fn.Pkg != nil {
		vc.pkg = fn.Pkg.Pkg
	}
	vc.declSet = map[string]bool{}
	vc.vals = map[ssa.Value]Term{}
	vc.curHeap = map[string]string{}
	vc.compSort = map[string]string{}
	vc.entryHeap = map[string]string{}
	vc.reach = map[*ssa.BasicBlock]string{}
	vc.heapOut = map[*ssa.BasicBlock]map[string]string{}
	vc.edgeCond = map[[2]*ssa.BasicBlock]string{}
	vc.paramTerms = map[string]Term{}
	vc.ghostTerms = map[string]Term{}
	vc.pureDefined = map[string]*pureDef{}
	vc.strIntern = map[string]string{}
	vc.globals = map[string]bool{}
	vc.assumptions = map[string]bool{}
	vc.callCount = map[string]int{}
	vc.obCount = map[string]int{}
	vc.freshRoots = map[string]bool{}
	vc.versionCtr = map[string]string{}
	vc.subrefDeclared = map[string]bool{}
	vc.locs = map[ssa.Value]Loc{}
	vc.compType = map[string]compTy{}
	vc.globalGoNames = map[string]goName{}
	vc.closures = map[ssa.Value]*ssa.MakeClosure{}
	vc.usedContracts = map[string]*FuncContract{}
	vc.havocked = map[string]bool{}
	vc.decl("Slice", "(declare-datatypes ((Slice 0)) (((mkSlice (s.arr Int) (s.off Int) (s.len Int) (s.cap Int)))))")
	return vc
}

func (vc *FnVC) decl(key, text string) {
	if vc.declSet[key] {
		return
	}
	vc.declSet[key] = true
	vc.decls = append(vc.decls, text)
}

// declAxiom adds a quantified background axiom (type invariants of heap components,
// injectivity of sub-object references). These are satisfiable by construction and may
// be left out of reachability probes and of model-finding retries.
func (vc *FnVC) declAxiom(key, text string) {
	if vc.declSet[key] {
		return
	}
	vc.declSet[key] = true
	if vc.benign == nil {
		vc.benign = map[int]bool{}
	}
	vc.benign[len(vc.decls)] = true
	vc.decls = append(vc.decls, text)
}

func (vc *FnVC) fact(s string) {
	if s == "" || s == "true" {
		return
	}
	vc.facts = append(vc.facts, s)
}

func (vc *FnVC) errorf(f string, a ...interface{}) {
	vc.errs = append(vc.errs, fmt.Sprintf(f, a...))
}

func (vc *FnVC) assume(s string) { vc.assumptions[s] = true }

func (vc *FnVC) freshName(prefix string) string {
	vc.fresh++
	return fmt.Sprintf("%s!%d", prefix, vc.fresh)
}

func (vc *FnVC) freshConst(prefix, sort string) string {
	n := vc.freshName(prefix)
	vc.decl(n, fmt.Sprintf("(declare-const %s %s)", n, sort))
	return n
}

func (vc *FnVC) declConst(name, sort string) string {
	// values of a function body that is being inlined (closure executed symbolically) get
	// their own name space: register names repeat between functions and between inlinings
	if vc.inlinePrefix != "" && strings.HasPrefix(name, "v$") {
		name = "v$" + vc.inlinePrefix + name[2:]
	}
	vc.decl(name, fmt.Sprintf("(declare-const %s %s)", name, sort))
	return name
}

// ---------------------------------------------------------------- sorts

func mangle(s string) string {
	var sb strings.Builder
	for _, c := range s {
		switch {
		case c >= 'a' && c <= 'z', c >= 'A' && c <= 'Z', c >= '0' && c <= '9', c == '_', c == '.', c == '$':
			sb.WriteRune(c)
		case c == '/':
			sb.WriteByte('.')
		case c == '*':
			sb.WriteString("ptr.")
		case c == '[':
			sb.WriteString("_L")
		case c == ']':
			sb.WriteString("R_")
		default:
			sb.WriteByte('_')
		}
	}
	return sb.String()
}

func shortTypeName(t types.Type) string {
	s := types.TypeString(t, func(p *types.Package) string {
		path := p.Path()
		path = strings.TrimPrefix(path, "github.com/ethereum/go-ethereum/")
		return path
	})
	// byte and rune are aliases: one heap component per underlying type
	s = byteWord.ReplaceAllString(s, "uint8")
	s = runeWord.ReplaceAllString(s, "int32")
	return mangle(s)
}

var (
	byteWord = regexp.MustCompile(`\bbyte\b`)
	runeWord = regexp.MustCompile(`\brune\b`)
)

func isUint256(t types.Type) bool {
	n, ok := t.(*types.Named)
	if !ok {
		return false
	}
	o := n.Obj()
	return o.Pkg() != nil && o.Pkg().Path() == "github.com/holiman/uint256" && o.Name() == "Int"
}

func isBigInt(t types.Type) bool {
	n, ok := t.(*types.Named)
	if !ok {
		return false
	}
	o := n.Obj()
	return o.Pkg() != nil && o.Pkg().Path() == "math/big" && o.Name() == "Int"
}

// isObjectType: values of this type live at a ref in the heap when addressed.
func isObjectType(t types.Type) bool {
	if isUint256(t) || isBigInt(t) {
		return true
	}
	switch t.Underlying().(type) {
	case *types.Struct, *types.Array:
		return true
	}
	return false
}

func structOf(t types.Type) *types.Struct {
	if isUint256(t) || isBigInt(t) {
		return nil
	}
	s, _ := t.Underlying().(*types.Struct)
	return s
}

func (vc *FnVC) sortOf(t types.Type) string {
	if isUint256(t) {
		return "Int"
	}
	if isBigInt(t) {
		return "Int"
	}
	switch u := t.Underlying().(type) {
	case *types.Basic:
		if u.Info()&types.IsBoolean != 0 {
			return "Bool"
		}
		return "Int"
	case *types.Slice:
		return "Slice"
	case *types.Struct:
		return vc.structSort(t)
	case *types.Array:
		return "(Array Int " + vc.sortOf(u.Elem()) + ")"
	case *types.Tuple:
		return "Tuple"
	}
	return "Int"
}

func (vc *FnVC) structSort(t types.Type) string {
	st := t.Underlying().(*types.Struct)
	name := "S$" + shortTypeName(t)
	if _, ok := t.(*types.Named); !ok {
		name = "S$anon" + fmt.Sprint(hashString(types.TypeString(t, nil)))
	}
	if vc.declSet[name] {
		return name
	}
	// declare field sorts first
	var fields []string
	for i := 0; i < st.NumFields(); i++ {
		f := st.Field(i)
		fs := vc.sortOf(f.Type())
		fields = append(fields, fmt.Sprintf("(%s %s)", vc.accName(t, i), fs))
	}
	ctor := "mk" + name[1:]
	if len(fields) == 0 {
		vc.decl(name, fmt.Sprintf("(declare-datatypes ((%s 0)) (((%s))))", name, ctor))
	} else {
		vc.decl(name, fmt.Sprintf("(declare-datatypes ((%s 0)) (((%s %s))))", name, ctor, strings.Join(fields, " ")))
	}
	return name
}

func (vc *FnVC) ctorName(t types.Type) string {
	return "mk" + vc.structSort(t)[1:]
}

func (vc *FnVC) accName(t types.Type, i int) string {
	st := t.Underlying().(*types.Struct)
	base := shortTypeName(t)
	if _, ok := t.(*types.Named); !ok {
		base = "anon" + fmt.Sprint(hashString(types.TypeString(t, nil)))
	}
	return base + "$" + st.Field(i).Name() + "$" + fmt.Sprint(i)
}

func hashString(s string) uint32 {
	var h uint32 = 2166136261
	for i := 0; i < len(s); i++ {
		h ^= uint32(s[i])
		h *= 16777619
	}
	return h
}

// ---------------------------------------------------------------- integer ranges

// pow2 returns 2^n (a fresh value: checks may run concurrently, no shared cache).
func pow2(n int) *big.Int {
	return new(big.Int).Lsh(big.NewInt(1), uint(n))
}

func smtInt(v *big.Int) string {
	if v.Sign() < 0 {
		return "(- " + new(big.Int).Neg(v).String() + ")"
	}
	return v.String()
}

// intRange returns (lo, hi, ok) for integer Go types.
func intRange(t types.Type) (lo, hi *big.Int, ok bool) {
	if isUint256(t) {
		return big.NewInt(0), new(big.Int).Sub(pow2(256), big.NewInt(1)), true
	}
	b, isb := t.Underlying().(*types.Basic)
	if !isb || b.Info()&types.IsInteger == 0 {
		return nil, nil, false
	}
	bits := 64
	signed := b.Info()&types.IsUnsigned == 0
	switch b.Kind() {
	case types.Int8, types.Uint8:
		bits = 8
	case types.Int16, types.Uint16:
		bits = 16
	case types.Int32, types.Uint32:
		bits = 32
	case types.UntypedInt, types.UntypedRune:
		return nil, nil, false
	}
	if signed {
		return new(big.Int).Neg(pow2(bits - 1)), new(big.Int).Sub(pow2(bits-1), big.NewInt(1)), true
	}
	return big.NewInt(0), new(big.Int).Sub(pow2(bits), big.NewInt(1)), true
}

func intBits(t types.Type) (bits int, signed bool) {
	b, isb := t.Underlying().(*types.Basic)
	if !isb {
		return 64, false
	}
	bits = 64
	signed = b.Info()&types.IsUnsigned == 0
	switch b.Kind() {
	case types.Int8, types.Uint8:
		bits = 8
	case types.Int16, types.Uint16:
		bits = 16
	case types.Int32, types.Uint32:
		bits = 32
	}
	return
}

// rangeFacts returns type-invariant facts for a value term of Go type t.
func (vc *FnVC) rangeFacts(term string, t types.Type, depth int) []string {
	if depth > 3 {
		return nil
	}
	if lo, hi, ok := intRange(t); ok {
		return []string{fmt.Sprintf("(and (<= %s %s) (<= %s %s))", smtInt(lo), term, term, smtInt(hi))}
	}
	if isBigInt(t) {
		return nil
	}
	switch u := t.Underlying().(type) {
	case *types.Slice:
		// platform fact: a backing array occupies at most 2^48 bytes of address space
		esz := elemSize(u.Elem())
		bound := new(big.Int).Div(pow2(48), big.NewInt(esz)).String()
		return []string{fmt.Sprintf("(and (<= 0 (s.off %s)) (<= 0 (s.len %s)) (<= (s.len %s) (s.cap %s)) (<= (+ (s.off %s) (s.cap %s)) %s) (>= (s.arr %s) 0) (=> (= (s.arr %s) 0) (= (s.cap %s) 0)))", term, term, term, term, term, term, bound, term, term, term)}
	case *types.Struct:
		var out []string
		for i := 0; i < u.NumFields(); i++ {
			out = append(out, vc.rangeFacts(fmt.Sprintf("(%s %s)", vc.accName(t, i), term), u.Field(i).Type(), depth+1)...)
		}
		return out
	case *types.Basic:
		if u.Kind() == types.String {
			return []string{fmt.Sprintf("(>= (strlen %s) 0)", vc.strTerm(term))}
		}
	case *types.Pointer, *types.Interface, *types.Map, *types.Chan, *types.Signature:
		return []string{fmt.Sprintf("(>= %s 0)", term)}
	case *types.Array:
		// every element of an array value lies in its type's range
		if lo, hi, ok := intRange(u.Elem()); ok && !strings.Contains(term, "q$") {
			return []string{fmt.Sprintf("(forall ((ai$ Int)) (! (and (<= %s (select %s ai$)) (<= (select %s ai$) %s)) :pattern ((select %s ai$))))", smtInt(lo), term, term, smtInt(hi), term)}
		}
	}
	return nil
}

var stdSizes = types.SizesFor("gc", "amd64")

// elemSize: size in bytes of a slice element on amd64 (at least 1).
func elemSize(t types.Type) (sz int64) {
	defer func() {
		if r := recover(); r != nil {
			sz = 1
		}
	}()
	sz = stdSizes.Sizeof(t)
	if sz < 1 {
		sz = 1
	}
	return sz
}

func (vc *FnVC) strTerm(term string) string {
	vc.decl("strlen", "(declare-fun strlen (Int) Int)")
	return term
}

func (vc *FnVC) addRange(t Term) {
	if t.T == nil {
		return
	}
	for _, f := range vc.rangeFacts(t.S, t.T, 0) {
		vc.fact(f)
	}
}

// ---------------------------------------------------------------- heap components

func (vc *FnVC) fieldComp(owner types.Type, idx int) (name, sort string) {
	st := owner.Underlying().(*types.Struct)
	f := st.Field(idx)
	name = "H$" + shortTypeName(owner) + "$" + f.Name()
	if _, ok := owner.(*types.Named); !ok {
		name = "H$anon" + fmt.Sprint(hashString(types.TypeString(owner, nil))) + "$" + f.Name()
	}
	sort = "(Array Int " + vc.sortOf(f.Type()) + ")"
	vc.compType[name] = compTy{f.Type(), 1}
	return
}

type compTy struct {
	t     types.Type
	depth int // 1: Array Int T ; 2: Array Int (Array Int T)
}

// compAxiom states the type invariant of a heap component version: every stored
// integer lies in the range of its Go type.
func (vc *FnVC) compAxiom(version, comp string) {
	if comp == "U256" {
		vc.declAxiom("tyinv$"+version,fmt.Sprintf("(assert (forall ((r Int)) (! (and (<= 0 (select %s r)) (< (select %s r) %s)) :pattern ((select %s r)))))", version, version, two256, version))
		return
	}
	ct, ok := vc.compType[comp]
	if !ok || ct.t == nil {
		return
	}
	var sel string
	var binders string
	if ct.depth == 1 {
		sel = fmt.Sprintf("(select %s r)", version)
		binders = "((r Int))"
	} else {
		sel = fmt.Sprintf("(select (select %s r) i)", version)
		binders = "((r Int) (i Int))"
	}
	fs := vc.rangeFacts(sel, ct.t, 2)
	// pointers (and slice backing arrays) stored in the entry heap were allocated before entry
	if strings.HasSuffix(version, "@0") {
		switch ct.t.Underlying().(type) {
		case *types.Pointer:
			vc.decl("allocated0", "(declare-fun allocated0 (Int) Bool)")
			fs = append(fs, fmt.Sprintf("(or (= %s 0) (allocated0 %s))", sel, sel))
		case *types.Slice:
			vc.decl("allocated0", "(declare-fun allocated0 (Int) Bool)")
			fs = append(fs, fmt.Sprintf("(or (= (s.arr %s) 0) (allocated0 (s.arr %s)))", sel, sel))
		}
	}
	if len(fs) == 0 {
		return
	}
	vc.declAxiom("tyinv$"+version,fmt.Sprintf("(assert (forall %s (! (and %s true) :pattern (%s))))", binders, strings.Join(fs, " "), sel))
}

func (vc *FnVC) elemComp(elem types.Type) (name, sort string) {
	name = "E$" + shortTypeName(elem)
	sort = "(Array Int (Array Int " + vc.sortOf(elem) + "))"
	vc.compType[name] = compTy{elem, 2}
	return
}

func (vc *FnVC) cellComp(t types.Type) (name, sort string) {
	if isUint256(t) {
		vc.compType["U256"] = compTy{t, 1}
		return "U256", "(Array Int Int)"
	}
	if isBigInt(t) {
		return "BigVal", "(Array Int Int)"
	}
	name = "P$" + shortTypeName(t)
	sort = "(Array Int " + vc.sortOf(t) + ")"
	vc.compType[name] = compTy{t, 1}
	return
}

func (vc *FnVC) entryComp(comp, sort string) string {
	if e, ok := vc.entryHeap[comp]; ok {
		return e
	}
	n := comp + "@0"
	vc.declConst(n, sort)
	vc.entryHeap[comp] = n
	vc.compSort[comp] = sort
	vc.compAxiom(n, comp)
	return n
}

func (vc *FnVC) heapGet(comp, sort string) string {
	if h, ok := vc.curHeap[comp]; ok {
		return h
	}
	return vc.entryComp(comp, sort)
}

func (vc *FnVC) heapSet(comp, sort, term string) {
	vc.entryComp(comp, sort)
	vc.heapVer++
	n := fmt.Sprintf("%s@%d", comp, vc.heapVer)
	vc.declConst(n, sort)
	vc.fact(fmt.Sprintf("(= %s %s)", n, term))
	vc.curHeap[comp] = n
	vc.cacheDrop(comp)
}

// Cell cache: the last value written to a cell of a locally allocated (fresh) object on
// the current straight-line path. Fresh refs are distinct from every other ref, so a
// read can be answered without reasoning through the chain of array stores.
func (vc *FnVC) cacheDrop(comp string) {
	for k := range vc.cellCache {
		if strings.HasPrefix(k, comp+"|") {
			delete(vc.cellCache, k)
		}
	}
}

func (vc *FnVC) cachePut(comp, ref, val string) {
	if !vc.freshRoots[ref] {
		return
	}
	if vc.cellCache == nil {
		vc.cellCache = map[string]string{}
	}
	// other entries of the same component stay valid: distinct fresh refs, or refs that
	// are not fresh and hence never cached
	vc.cellCache[comp+"|"+ref] = val
}

var numeralRe = regexp.MustCompile(`^(\(- )?[0-9]+\)?$`)

// arith builds (op a b). With `nlmul` (contract clause "linear"), a product of two
// non-constant terms becomes an application of the uninterpreted function nlmul, whose
// axioms (commutativity, sign, zero, one) are true of multiplication: every proof found
// is valid for real multiplication, and the query stays in linear arithmetic.
func (vc *FnVC) arith(op, a, b string) string {
	if op == "*" && vc.fc != nil && vc.fc.Linear && !numeralRe.MatchString(a) && !numeralRe.MatchString(b) {
		vc.decl("nlmul", "(declare-fun nlmul (Int Int) Int)")
		vc.declAxiom("nlmul$ax", "(assert (forall ((x Int) (y Int)) (! (and (= (nlmul x y) (nlmul y x)) (=> (and (>= x 0) (>= y 0)) (>= (nlmul x y) 0)) (=> (= x 0) (= (nlmul x y) 0)) (=> (= x 1) (= (nlmul x y) y))) :pattern ((nlmul x y)))))")
		// monotonicity in either argument position (non-negative operands)
		vc.declAxiom("nlmul$mono", "(assert (forall ((x Int) (y Int) (z Int)) (! (=> (and (<= 0 x) (<= x z) (>= y 0)) (and (<= (nlmul x y) (nlmul z y)) (<= (nlmul y x) (nlmul y z)) (<= (nlmul x y) (nlmul y z)) (<= (nlmul y x) (nlmul z y)))) :pattern ((nlmul x y) (nlmul z y)) :pattern ((nlmul y x) (nlmul y z)) :pattern ((nlmul x y) (nlmul y z)) :pattern ((nlmul y x) (nlmul z y)))))")
		vc.declAxiom("nlmul$mono2", "(assert (forall ((x Int) (y Int) (z Int) (w Int)) (! (=> (and (<= 0 x) (<= x z) (<= 0 y) (<= y w)) (<= (nlmul x y) (nlmul z w))) :pattern ((nlmul x y) (nlmul z w)))))")
		// canonical argument order makes commuted products syntactically equal
		if a > b {
			a, b = b, a
		}
		return fmt.Sprintf("(nlmul %s %s)", a, b)
	}
	return fmt.Sprintf("(%s %s %s)", op, a, b)
}

// writeCell stores val into cell comp[ref] and remembers it when ref is a fresh object.
func (vc *FnVC) writeCell(comp, sort, ref, val string) {
	if vc.freshRoots[ref] && len(val) > 24 {
		n := vc.freshConst("cell", "Int")
		vc.fact(fmt.Sprintf("(= %s %s)", n, val))
		val = n
	}
	saved := map[string]string{}
	for k, v := range vc.cellCache {
		if strings.HasPrefix(k, comp+"|") {
			saved[k] = v
		}
	}
	vc.heapSet(comp, sort, fmt.Sprintf("(store %s %s %s)", vc.heapGet(comp, sort), ref, val))
	if vc.freshRoots[ref] {
		// a write to a fresh ref leaves every other cached cell untouched
		for k, v := range saved {
			vc.cellCache[k] = v
		}
		vc.cachePut(comp, ref, val)
	}
	// a write through any other ref term may alias a fresh object (the term can be a copy
	// of a fresh pointer): heapSet has dropped the component's cache, keep it dropped
}

// readCell reads cell comp[ref] from the current heap, short-cutting through the cache.
func (vc *FnVC) readCell(comp, sort, ref string) string {
	if v, ok := vc.cacheGet(comp, ref); ok {
		return v
	}
	return fmt.Sprintf("(select %s %s)", vc.heapGet(comp, sort), ref)
}

func (vc *FnVC) cacheGet(comp, ref string) (string, bool) {
	v, ok := vc.cellCache[comp+"|"+ref]
	return v, ok
}

func (vc *FnVC) heapHavoc(comp, sort string) string {
	vc.cacheDrop(comp)
	vc.entryComp(comp, sort)
	vc.heapVer++
	n := fmt.Sprintf("%s@%d", comp, vc.heapVer)
	vc.declConst(n, sort)
	vc.curHeap[comp] = n
	vc.compAxiom(n, comp)
	return n
}

// sub-object refs: embedded struct/array fields and object-typed slice elements.
func (vc *FnVC) fldRef(owner types.Type, idx int, ref string) string {
	st := owner.Underlying().(*types.Struct)
	fn := "fld$" + shortTypeName(owner) + "$" + st.Field(idx).Name()
	if !vc.subrefDeclared[fn] {
		vc.subrefDeclared[fn] = true
		vc.refTagN++
		vc.decl(fn, fmt.Sprintf("(declare-fun %s (Int) Int)", fn))
		vc.decl(fn+"$inv", fmt.Sprintf("(declare-fun %s$inv (Int) Int)", fn))
		vc.decl("reftag", "(declare-fun reftag (Int) Int)")
		vc.decl("allocated0", "(declare-fun allocated0 (Int) Bool)")
		vc.declAxiom(fn+"$ax", fmt.Sprintf("(assert (forall ((r Int)) (! (and (= (%s$inv (%s r)) r) (= (reftag (%s r)) %d) (> (%s r) 0) (= (allocated0 (%s r)) (allocated0 r))) :pattern ((%s r)))))", fn, fn, fn, vc.refTagN, fn, fn, fn))
	}
	return fmt.Sprintf("(%s %s)", fn, ref)
}

func (vc *FnVC) elemRef(elem types.Type, arr, idx string) string {
	fn := "elem$" + shortTypeName(elem)
	if !vc.subrefDeclared[fn] {
		vc.subrefDeclared[fn] = true
		vc.refTagN++
		vc.decl(fn, fmt.Sprintf("(declare-fun %s (Int Int) Int)", fn))
		vc.decl(fn+"$inv", fmt.Sprintf("(declare-fun %s$arr (Int) Int)\n(declare-fun %s$idx (Int) Int)", fn, fn))
		vc.decl("reftag", "(declare-fun reftag (Int) Int)")
		vc.decl("allocated0", "(declare-fun allocated0 (Int) Bool)")
		vc.declAxiom(fn+"$ax", fmt.Sprintf("(assert (forall ((a Int) (i Int)) (! (and (= (%s$arr (%s a i)) a) (= (%s$idx (%s a i)) i) (= (reftag (%s a i)) %d) (> (%s a i) 0) (= (allocated0 (%s a i)) (allocated0 a))) :pattern ((%s a i)))))", fn, fn, fn, fn, fn, vc.refTagN, fn, fn, fn))
	}
	return fmt.Sprintf("(%s %s %s)", fn, arr, idx)
}

// loadObject reads the value of type t stored at ref from heap h (a lookup function).
func (vc *FnVC) loadObject(ref string, t types.Type, heap func(comp, sort string) string) string {
	if isUint256(t) || isBigInt(t) {
		c, s := vc.cellComp(t)
		return fmt.Sprintf("(select %s %s)", heap(c, s), ref)
	}
	switch u := t.Underlying().(type) {
	case *types.Struct:
		if u.NumFields() == 0 {
			return vc.ctorName(t)
		}
		var parts []string
		for i := 0; i < u.NumFields(); i++ {
			ft := u.Field(i).Type()
			if isObjectType(ft) {
				parts = append(parts, vc.loadObject(vc.fldRef(t, i, ref), ft, heap))
			} else {
				c, s := vc.fieldComp(t, i)
				parts = append(parts, fmt.Sprintf("(select %s %s)", heap(c, s), ref))
			}
		}
		return fmt.Sprintf("(%s %s)", vc.ctorName(t), strings.Join(parts, " "))
	case *types.Array:
		if isObjectType(u.Elem()) {
			if u.Len() > 8 {
				vc.errorf("array of objects loaded by value: %s", t)
				return vc.freshConst("arrobj", vc.sortOf(t))
			}
			av := vc.freshConst("arrobj", vc.sortOf(t))
			for i := int64(0); i < u.Len(); i++ {
				av = fmt.Sprintf("(store %s %d %s)", av, i, vc.loadObject(vc.elemRef(u.Elem(), ref, fmt.Sprint(i)), u.Elem(), heap))
			}
			return av
		}
		c, s := vc.elemComp(u.Elem())
		return fmt.Sprintf("(select %s %s)", heap(c, s), ref)
	}
	c, s := vc.cellComp(t)
	return fmt.Sprintf("(select %s %s)", heap(c, s), ref)
}

// storeObject writes value val of type t at ref into the current heap.
func (vc *FnVC) storeObject(ref string, t types.Type, val string) {
	if isUint256(t) || isBigInt(t) {
		c, s := vc.cellComp(t)
		vc.writeCell(c, s, ref, val)
		return
	}
	switch u := t.Underlying().(type) {
	case *types.Struct:
		for i := 0; i < u.NumFields(); i++ {
			ft := u.Field(i).Type()
			fv := fmt.Sprintf("(%s %s)", vc.accName(t, i), val)
			if isObjectType(ft) {
				vc.storeObject(vc.fldRef(t, i, ref), ft, fv)
			} else {
				c, s := vc.fieldComp(t, i)
				vc.heapSet(c, s, fmt.Sprintf("(store %s %s %s)", vc.heapGet(c, s), ref, fv))
			}
		}
		return
	case *types.Array:
		if isObjectType(u.Elem()) {
			if u.Len() > 8 {
				vc.errorf("array of objects stored by value: %s", t)
				return
			}
			for i := int64(0); i < u.Len(); i++ {
				vc.storeObject(vc.elemRef(u.Elem(), ref, fmt.Sprint(i)), u.Elem(), fmt.Sprintf("(select %s %d)", val, i))
			}
			return
		}
		c, s := vc.elemComp(u.Elem())
		vc.heapSet(c, s, fmt.Sprintf("(store %s %s %s)", vc.heapGet(c, s), ref, val))
		return
	}
	c, s := vc.cellComp(t)
	vc.heapSet(c, s, fmt.Sprintf("(store %s %s %s)", vc.heapGet(c, s), ref, val))
}

// havocObject makes the contents of the object of type t at ref arbitrary.
func (vc *FnVC) havocObject(ref string, t types.Type) {
	v := vc.freshConst("hv", vc.sortOf(t))
	for _, f := range vc.rangeFacts(v, t, 0) {
		vc.fact(f)
	}
	vc.storeObject(ref, t, v)
}

// reachTypes lists struct types reachable from t through pointers, slices,
// arrays and embedded fields (not through interfaces, maps, funcs, chans).
func reachTypes(t types.Type, seen map[string]types.Type, top bool) {
	switch u := t.(type) {
	case *types.Pointer:
		reachTypes(u.Elem(), seen, false)
		return
	case *types.Slice:
		reachTypes(u.Elem(), seen, false)
		return
	case *types.Array:
		reachTypes(u.Elem(), seen, false)
		return
	case *types.Named:
		if isUint256(t) || isBigInt(t) {
			seen["@cell:"+types.TypeString(t, nil)] = t
			return
		}
		key := types.TypeString(t, nil)
		if _, ok := seen[key]; ok {
			return
		}
		if st, ok := u.Underlying().(*types.Struct); ok {
			seen[key] = t
			for i := 0; i < st.NumFields(); i++ {
				reachTypes(st.Field(i).Type(), seen, false)
			}
			return
		}
		reachTypes(u.Underlying(), seen, false)
		return
	case *types.Struct:
		key := types.TypeString(t, nil)
		if _, ok := seen[key]; ok {
			return
		}
		seen[key] = t
		for i := 0; i < u.NumFields(); i++ {
			reachTypes(u.Field(i).Type(), seen, false)
		}
	case *types.Basic:
		seen["@scalar:"+u.Name()] = t
	}
}

func sortedKeys[M ~map[string]V, V any](m M) []string {
	var ks []string
	for k := range m {
		ks = append(ks, k)
	}
	sort.Strings(ks)
	return ks
}
