package main

// Self-test corpus: must-fail / must-pass patches applied through an overlay
// (the repository working tree is not touched).

import (
	"bytes"
	"fmt"
	"os"
	"os/exec"
	"path/filepath"
	"sort"
	"strings"
)

// patch header lines (before the diff):
//   # property: C31
//   # expect: fail <substring of obligation name> | pass
//   # why: free text
type selfCase struct {
	file     string
	property string
	expect   string // "fail" | "pass"
	needle   string
	why      string
}

func parseSelfCase(path string) (*selfCase, error) {
	data, err := os.ReadFile(path)
	if err != nil {
		return nil, err
	}
	sc := &selfCase{file: path}
	for _, l := range strings.Split(string(data), "\n") {
		if !strings.HasPrefix(l, "#") {
			continue
		}
		l = strings.TrimSpace(strings.TrimPrefix(l, "#"))
		switch {
		case strings.HasPrefix(l, "property:"):
			sc.property = strings.TrimSpace(l[9:])
		case strings.HasPrefix(l, "expect:"):
			fs := strings.SplitN(strings.TrimSpace(l[7:]), " ", 2)
			sc.expect = fs[0]
			if len(fs) > 1 {
				sc.needle = strings.TrimSpace(fs[1])
			}
		case strings.HasPrefix(l, "why:"):
			sc.why = strings.TrimSpace(l[4:])
		}
	}
	if sc.property == "" || (sc.expect != "fail" && sc.expect != "pass") {
		return nil, fmt.Errorf("%s: missing '# property:' or '# expect:' header", path)
	}
	return sc, nil
}

// overlayFromPatch applies a unified diff to copies of the touched files and
// returns an overlay map (absolute repo path -> patched content).
func overlayFromPatch(patchFile string) (map[string][]byte, error) {
	tmp, err := os.MkdirTemp("/var/tmp", "govc-st-")
	if err != nil {
		return nil, err
	}
	defer os.RemoveAll(tmp)
	data, err := os.ReadFile(patchFile)
	if err != nil {
		return nil, err
	}
	var files []string
	for _, l := range strings.Split(string(data), "\n") {
		if strings.HasPrefix(l, "+++ ") {
			f := strings.Fields(l[4:])[0]
			f = strings.TrimPrefix(f, "b/")
			files = append(files, f)
		}
	}
	for _, f := range files {
		src := filepath.Join(repoDir(), f)
		dst := filepath.Join(tmp, f)
		os.MkdirAll(filepath.Dir(dst), 0o755)
		b, err := os.ReadFile(src)
		if err != nil {
			return nil, err
		}
		os.WriteFile(dst, b, 0o644)
	}
	cmd := exec.Command("patch", "-p1", "-s", "-i", patchFile)
	cmd.Dir = tmp
	if out, err := cmd.CombinedOutput(); err != nil {
		return nil, fmt.Errorf("patch %s: %v: %s", patchFile, err, out)
	}
	ov := map[string][]byte{}
	for _, f := range files {
		b, err := os.ReadFile(filepath.Join(tmp, f))
		if err != nil {
			return nil, err
		}
		ov[filepath.Join(repoDir(), f)] = b
	}
	return ov, nil
}

func runSelftest(prop string, verbose bool) int {
	n, bad, lines := runSelfCases(prop, verbose, 3)
	for _, l := range lines {
		fmt.Println(l)
	}
	fmt.Printf("selftest: %d cases, %d bad\n", n, bad)
	if bad > 0 {
		return 1
	}
	return 0
}

// runSelfCases runs the must-fail / must-pass corpus of one property (all when prop == "")
// with the given number of cases in flight; returns the number of cases, the number of cases
// that did not behave as their header says, and one report line per case.
func runSelfCases(prop string, verbose bool, workers int) (int, int, []string) {
	dir := filepath.Join(verifDir(), "selftest")
	var files []string
	filepath.Walk(dir, func(p string, info os.FileInfo, err error) error {
		if err == nil && !info.IsDir() && strings.HasSuffix(p, ".diff") {
			files = append(files, p)
		}
		return nil
	})
	sort.Strings(files)
	type job struct {
		file string
		sc   *selfCase
	}
	var jobs []job
	var lines []string
	bad := 0
	for _, c := range files {
		sc, err := parseSelfCase(c)
		if err != nil {
			lines = append(lines, fmt.Sprint("SELFTEST-ERROR ", err))
			bad++
			continue
		}
		if prop != "" && sc.property != prop {
			continue
		}
		jobs = append(jobs, job{c, sc})
	}
	res := make([]string, len(jobs))
	okv := make([]bool, len(jobs))
	sem := make(chan struct{}, workers)
	done := make(chan int, len(jobs))
	for k := range jobs {
		k := k
		go func() {
			sem <- struct{}{}
			defer func() { <-sem; done <- k }()
			c, sc := jobs[k].file, jobs[k].sc
			rel, _ := filepath.Rel(dir, c)
			ov, err := overlayFromPatch(c)
			if err != nil {
				res[k] = fmt.Sprint("SELFTEST-ERROR ", err)
				return
			}
			// A must-fail case is settled as soon as an obligation of the named function fails:
			// try that function alone first, and run the whole property only if that does not
			// produce the expected failure (must-pass cases always run the whole property).
			if sc.expect == "fail" && sc.needle != "" {
				if tok := onlyToken(sc.needle); tok != "" {
					var b2 bytes.Buffer
					o2 := &CheckOpts{ID: sc.property, Tier: "quick", Out: &b2, Overlay: ov, NoEvidence: true, Only: tok}
					if runCheckOpts(o2) == 1 {
						for _, f := range o2.Failed {
							if strings.Contains(f, sc.needle) {
								okv[k] = true
								res[k] = fmt.Sprintf("selftest ok   %-50s %s %v", rel, sc.expect, o2.Failed)
								return
							}
						}
					}
				}
			}
			var buf bytes.Buffer
			opts := &CheckOpts{ID: sc.property, Tier: "quick", Out: &buf, Overlay: ov, NoEvidence: true}
			code := runCheckOpts(opts)
			ok := false
			detail := ""
			switch sc.expect {
			case "pass":
				ok = code == 0
				if !ok {
					detail = fmt.Sprintf("expected pass, exit %d, failed: %v", code, opts.Failed)
				}
			case "fail":
				if code == 1 {
					if sc.needle == "" {
						ok = true
					}
					for _, f := range opts.Failed {
						if strings.Contains(f, sc.needle) {
							ok = true
						}
					}
					if !ok {
						detail = fmt.Sprintf("failed obligations %v do not include %q", opts.Failed, sc.needle)
					}
				} else {
					detail = fmt.Sprintf("expected VIOLATION, exit %d", code)
				}
			}
			okv[k] = ok
			if ok {
				res[k] = fmt.Sprintf("selftest ok   %-50s %s %v", rel, sc.expect, opts.Failed)
			} else {
				res[k] = fmt.Sprintf("selftest BAD  %-50s %s", rel, detail)
				if verbose {
					res[k] += "\n" + buf.String()
				}
			}
		}()
	}
	for range jobs {
		<-done
	}
	for k := range jobs {
		if !okv[k] {
			bad++
		}
		lines = append(lines, res[k])
	}
	return len(jobs), bad, lines
}

// onlyToken extracts the last identifier of the function named by a must-fail needle
// ("core/vm.(*EVM).Call : post#2" -> "Call"), usable as a --only filter; "" if there is none.
func onlyToken(needle string) string {
	s := needle
	if i := strings.Index(s, " :"); i >= 0 {
		s = s[:i]
	}
	s = strings.TrimSpace(s)
	if i := strings.LastIndexAny(s, ".)/ "); i >= 0 {
		s = s[i+1:]
	}
	if s == "" {
		return ""
	}
	for _, c := range s {
		if !(c == '_' || c == '$' || (c >= '0' && c <= '9') || (c >= 'a' && c <= 'z') || (c >= 'A' && c <= 'Z')) {
			return ""
		}
	}
	return s
}
