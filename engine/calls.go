package main

// Calls: builtins, contracted callees (modular), library models, havoc.

import (
	"fmt"
	"go/token"
	"go/types"
	"strings"

	"golang.org/x/tools/go/ssa"
)

func (vc *FnVC) setCallResult(in ssa.Value, results []Term) {
	sig := in.Type()
	if tup, ok := sig.(*types.Tuple); ok {
		if tup.Len() == 0 {
			return
		}
		vc.vals[in] = Term{Sort: "Tuple", Tup: results}
		return
	}
	if len(results) == 1 {
		r := results[0]
		r.T = in.Type()
		vc.vals[in] = r
	}
}

func (vc *FnVC) freshResults(in ssa.Value, prefix string) []Term {
	var out []Term
	mk := func(t types.Type) Term {
		srt := vc.sortOf(t)
		f := vc.freshConst(prefix, srt)
		tt := Term{S: f, Sort: srt, T: t}
		vc.addRange(tt)
		return tt
	}
	if tup, ok := in.Type().(*types.Tuple); ok {
		for i := 0; i < tup.Len(); i++ {
			out = append(out, mk(tup.At(i).Type()))
		}
		return out
	}
	return []Term{mk(in.Type())}
}

func calleeName(c *ssa.CallCommon) string {
	if c.IsInvoke() {
		return "(" + types.TypeString(c.Value.Type(), nil) + ")." + c.Method.Name()
	}
	if f := c.StaticCallee(); f != nil {
		return f.String()
	}
	if b, ok := c.Value.(*ssa.Builtin); ok {
		return b.Name()
	}
	// call of a func-typed struct field: name it after the field
	if u, ok := c.Value.(*ssa.UnOp); ok {
		if fa, ok := u.X.(*ssa.FieldAddr); ok {
			if pt, ok := fa.X.Type().Underlying().(*types.Pointer); ok {
				if st, ok := pt.Elem().Underlying().(*types.Struct); ok {
					tn := types.TypeString(pt.Elem(), func(*types.Package) string { return "" })
					return "funcfield:" + tn + "." + st.Field(fa.Field).Name()
				}
			}
		}
	}
	return "func-value"
}

func (vc *FnVC) call(in *ssa.Call) {
	vc.callInner(in)
	vc.applyOnCalls(in)
}

// applyOnCalls updates ghost variables according to the contract's oncall rules.
func (vc *FnVC) applyOnCalls(in *ssa.Call) {
	if vc.fc == nil || len(vc.fc.OnCalls) == 0 {
		return
	}
	c := &in.Call
	if _, ok := c.Value.(*ssa.Builtin); ok {
		return
	}
	name := calleeName(c)
	short := name
	if c.IsInvoke() {
		short = c.Method.Name()
	} else if callee := c.StaticCallee(); callee != nil {
		short = callee.Name()
	} else if k := strings.LastIndex(name, "."); k >= 0 {
		short = name[k+1:]
	}
	for _, oc := range vc.fc.OnCalls {
		match := false
		for _, n := range oc.Names {
			if n == short {
				match = true
			}
		}
		if !match {
			continue
		}
		env := vc.pointEnv(in)
		for i, a := range c.Args {
			env.vars[fmt.Sprintf("arg%d", i+1)] = vc.val(a)
		}
		if t, ok := vc.vals[in]; ok {
			if t.Sort == "Tuple" {
				for i, e := range t.Tup {
					env.vars[fmt.Sprintf("result%d", i)] = e
				}
			} else {
				env.vars["result"] = t
			}
		}
		// simultaneous assignment: evaluate all right-hand sides first
		var vals []Term
		okAll := true
		for i, ex := range oc.Exprs {
			t, err := env.Elab(ex.Expr)
			if err != nil {
				vc.errorf("oncall %v: %s = %s: %v", oc.Names, oc.Vars[i], ex.Text, err)
				okAll = false
				break
			}
			vals = append(vals, t)
		}
		if !okAll {
			continue
		}
		for i, v := range oc.Vars {
			var gv *GhostVar
			for _, g := range vc.fc.GhostVars {
				if g.Name == v {
					gv = g
				}
			}
			if gv == nil {
				vc.errorf("oncall assigns undeclared ghost variable %s", v)
				continue
			}
			comp, sort, es := ghostComp(gv)
			if vals[i].Sort != es {
				vc.errorf("oncall %s: ghost variable %s has sort %s, value has %s", short, v, es, vals[i].Sort)
				continue
			}
			vc.heapSet(comp, sort, fmt.Sprintf("(store %s 0 %s)", vc.heapGet(comp, sort), vals[i].S))
		}
		oc.used = true
	}
}

func (vc *FnVC) callInner(in *ssa.Call) {
	c := &in.Call
	if b, ok := c.Value.(*ssa.Builtin); ok {
		vc.builtin(in, b)
		return
	}
	callee := c.StaticCallee()
	name := calleeName(c)
	short := name
	if c.IsInvoke() {
		short = c.Method.Name()
	} else if callee != nil {
		short = callee.Name()
	}
	vc.callCount[short]++
	ord := vc.callCount[short]
	// call-site obligations (atcall)
	vc.atCall(in, short, ord)

	if callee != nil {
		// contracted callee
		if fc := vc.prog.contractFor(callee); fc != nil {
			vc.callContract(in, callee, fc)
			return
		}
		// assumed contract on a dependency
		if vc.matchExtern(in, callee) {
			return
		}
		// library model
		if vc.libModel(in, callee) {
			return
		}
	}
	if c.IsInvoke() {
		if vc.ifaceModel(in) {
			return
		}
	}
	vc.havocCall(in, name)
}

func (vc *FnVC) atCall(in *ssa.Call, short string, ord int) {
	if vc.fc == nil {
		return
	}
	for _, ac := range vc.fc.AtCalls {
		if ac.Callee != short || (ac.Ordinal != 0 && ac.Ordinal != ord) {
			continue
		}
		env := vc.pointEnv(in)
		args := in.Call.Args
		for i, a := range args {
			env.vars[fmt.Sprintf("arg%d", i+1)] = vc.val(a)
		}
		if in.Call.IsInvoke() {
			env.vars["recv"] = vc.val(in.Call.Value)
		}
		if ac.Kind == "lemma" {
			// atcall F#k lemma L(args): the contract of the verified, effect-free lemma function L
			// (requires ==> ensures, both read in the current state) is available at this call
			vc.applyFunctionLemma(ac, env, short)
			ac.used = true
			continue
		}
		s, err := env.ElabBool(ac.Expr)
		if err != nil {
			vc.errorf("atcall %s#%d %q: %v", ac.Callee, ac.Ordinal, ac.Text, err)
			continue
		}
		switch ac.Kind {
		case "requires":
			vc.obAssert("call-arg", fmt.Sprintf("atcall %s#%d: %s", short, ord, ac.Text), "argument condition at call "+short+": "+ac.Text, s, in.Pos())
		case "assume":
			vc.fact(fmt.Sprintf("(=> %s %s)", vc.curReach, s))
			vc.assume("assumed at call " + short + ": " + ac.Text)
		}
		ac.used = true
	}
}

// pointEnv: environment at an instruction: locals resolved by name through debug info.
func (vc *FnVC) pointEnv(in ssa.Instruction) *Env {
	env := vc.curEnv()
	b := in.Block()
	idx := 0
	for i, x := range b.Instrs {
		if x == in {
			idx = i
		}
	}
	env.lookup = func(name string) (Term, bool) {
		v, ok := vc.resolveName(name, b, idx)
		if !ok {
			return vc.allocLocalTerm(name, env)
		}
		return vc.val(v), true
	}
	// locals take precedence over parameters when shadowed/reassigned
	base := env.vars
	env.vars = map[string]Term{}
	for k, v := range base {
		if _, isParam := vc.paramTerms[k]; isParam {
			if pv, ok := vc.resolveName(k, b, idx); ok {
				if _, isP := pv.(*ssa.Parameter); !isP {
					continue
				}
			}
		}
		env.vars[k] = v
	}
	env.oldVars = map[string]Term{}
	for k, v := range vc.paramTerms {
		env.oldVars[k] = v
	}
	return env
}

// callContract: modular call — check requires, havoc modifies, assume ensures.
func (vc *FnVC) callContract(in *ssa.Call, callee *ssa.Function, fc *FuncContract) {
	args := in.Call.Args
	vars := map[string]Term{}
	for i, p := range callee.Params {
		if i >= len(args) {
			break
		}
		a := vc.val(args[i])
		a.T = p.Type()
		vars[p.Name()] = a
		if i < len(fc.Params) && fc.Params[i] != "_" {
			vars[fc.Params[i]] = a
		}
		if l, ok := vc.locOf(args[i]); ok {
			if vc.callLocVars == nil {
				vc.callLocVars = map[string]Loc{}
			}
			vc.callLocVars[p.Name()] = l
			if i < len(fc.Params) && fc.Params[i] != "_" {
				vc.callLocVars[fc.Params[i]] = l
			}
		}
	}
	vc.callContractWith(in, callee, fc, vars, callee.Pkg.Pkg)
	vc.callLocVars = nil
}

// matchExtern finds an assumed dependency contract whose typed parameters match the static
// types of the call's arguments (looking through interface boxing at the call site).
func (vc *FnVC) matchExtern(in *ssa.Call, callee *ssa.Function) bool {
	if vc.prog == nil || callee == nil {
		return false
	}
	name := callee.String()
	if k := strings.Index(name, "["); k >= 0 {
		name = name[:k]
	}
	for _, fc := range vc.prog.externs[name] {
		pkg := vc.prog.typesPkg(fc.Pkg)
		if pkg == nil || len(fc.MathParams) != len(in.Call.Args) {
			continue
		}
		env := &Env{vc: vc, vars: map[string]Term{}, pkg: pkg}
		vars := map[string]Term{}
		ok := true
		for i, p := range fc.MathParams {
			a := in.Call.Args[i]
			for {
				if mi, isMI := a.(*ssa.MakeInterface); isMI {
					a = mi.X
				} else if ci, isCI := a.(*ssa.ChangeInterface); isCI {
					a = ci.X
				} else {
					break
				}
			}
			var want types.Type
			func() {
				defer func() {
					if r := recover(); r != nil {
						if _, isE := r.(elabErr); !isE {
							panic(r)
						}
					}
				}()
				want = env.resolveTypeText(p.Type)
			}()
			if want == nil || !types.Identical(want, a.Type()) {
				ok = false
				break
			}
			t := vc.val(a)
			t.T = want
			vars[p.Name] = t
			if l, isLoc := vc.locOf(a); isLoc {
				if vc.callLocVars == nil {
					vc.callLocVars = map[string]Loc{}
				}
				vc.callLocVars[p.Name] = l
			}
		}
		if !ok {
			vc.callLocVars = nil
			continue
		}
		vc.assume("assumed contract on dependency " + name + " (extern, " + fc.File + ")")
		vc.callContractWith(in, callee, fc, vars, pkg)
		vc.callLocVars = nil
		return true
	}
	return false
}

func (vc *FnVC) callContractWith(in *ssa.Call, callee *ssa.Function, fc *FuncContract, vars map[string]Term, cpkg *types.Package) {
	preHeap := map[string]string{}
	for k, v := range vc.curHeap {
		preHeap[k] = v
	}
	heapAt := func(h map[string]string) func(comp, sort string) string {
		return func(comp, sort string) string {
			if t, ok := h[comp]; ok {
				return t
			}
			return vc.entryComp(comp, sort)
		}
	}
	env := &Env{vc: vc, vars: vars, pkg: cpkg, locVars: vc.callLocVars}
	// ghost parameters of the callee: existentially chosen by the caller — we use fresh
	// constants constrained by nothing for requires (must hold for the chosen ones):
	// not supported; contracts with ghosts cannot be called modularly.
	if len(fc.Ghosts) > 0 {
		vc.errorf("call to %s: callee contract has ghost parameters (unsupported at call sites)", fc.Key)
	}
	env.heap = heapAt(preHeap)
	env.oldHeap = heapAt(preHeap)
	cname := fnDisplayName(callee)
	for i, r := range fc.Requires {
		s, err := env.ElabBool(r.Expr)
		if err != nil {
			vc.errorf("call-pre %s requires %q: %v", fc.Key, r.Text, err)
			continue
		}
		vc.obAssert("call-pre", fmt.Sprintf("call-pre %s#%d@%s", shortFn(cname), i+1, vc.srcText(in)), "precondition of "+cname+": "+r.Text, s, in.Pos())
	}
	// frame: havoc what the callee may modify (evaluated in pre-state)
	for _, item := range fc.Modifies {
		mis, err := vc.elabModItem(env, item)
		if err != nil {
			vc.errorf("call %s modifies %q: %v", fc.Key, item, err)
			continue
		}
		for _, m := range mis {
			vc.applyModItem(m, in.Pos())
		}
	}
	if fc.NoFrame || fc.OwnWrites {
		// the callee declares no frame: everything reachable from its arguments may change
		for _, a := range in.Call.Args {
			vc.havocArg(a, in.Pos(), cname)
		}
	}
	if fc.Mutates {
		vc.noteMutation(cname)
		vc.bumpAllVersions()
	}
	// results
	results := vc.freshResults(in, "r$"+mangle(callee.Name()))
	vc.setCallResult(in, results)
	post := &Env{vc: vc, vars: map[string]Term{}, pkg: cpkg, locVars: vc.callLocVars}
	for k, v := range env.vars {
		post.vars[k] = v
	}
	post.oldHeap = heapAt(preHeap)
	cur := vc.curHeap
	post.heap = heapAt(cur)
	res := callee.Signature.Results()
	for i := 0; i < res.Len() && i < len(results); i++ {
		n := res.At(i).Name()
		if i < len(fc.Results) && fc.Results[i] != "" {
			n = fc.Results[i]
		}
		if n != "" && n != "_" {
			post.vars[n] = results[i]
		}
		post.vars[fmt.Sprintf("result%d", i)] = results[i]
		if res.Len() == 1 {
			post.vars["result"] = results[i]
		}
	}
	// results declared fresh by the callee are new objects: distinct from everything the
	// caller already has, and writable without frame permission
	for _, e := range fc.Ensures {
		for _, nm := range freshNames(e.Expr) {
			if t, ok := post.vars[nm]; ok {
				ref := t.S
				if t.Sort == "Slice" {
					ref = fmt.Sprintf("(s.arr %s)", t.S)
				}
				vc.registerFresh(ref)
			}
		}
	}
	for _, e := range fc.Ensures {
		// clauses about the callee's own ghost state are internal to its activation
		ghostClause := false
		for _, gv := range fc.GhostVars {
			if mentions(e.Expr, gv.Name) {
				ghostClause = true
			}
		}
		if ghostClause {
			continue
		}
		s, err := post.ElabBool(e.Expr)
		if err != nil {
			vc.errorf("call-post %s ensures %q: %v", fc.Key, e.Text, err)
			continue
		}
		vc.fact(fmt.Sprintf("(=> %s %s)", vc.curReach, s))
	}
	vc.usedContracts[cname] = fc
}

func shortFn(n string) string {
	if k := strings.LastIndex(n, "/"); k >= 0 {
		n = n[k+1:]
	}
	return n
}

// applyModItem havocs the memory named by a callee's modifies item and checks the
// caller's own frame permits it.
func (vc *FnVC) applyModItem(m modItem, pos token.Pos) {
	srt := vc.compSortOf(m)
	switch m.kind {
	case "anyref":
		// the caller must itself be allowed to write any object of that type
		allowed := false
		for _, mine := range vc.modItems {
			if mine.kind == "anyref" && mine.comp == m.comp {
				allowed = true
			}
		}
		if !allowed && vc.fc != nil {
			vc.obAssert("frame", "frame@callee-modifies "+m.text, "callee may write any object of the type: caller must declare the same", "false", pos)
		}
		vc.heapHavoc(m.comp, srt)
	case "anyelems":
		allowed := false
		for _, mine := range vc.modItems {
			if mine.kind == "anyelems" && mine.comp == m.comp {
				allowed = true
			}
		}
		if !allowed && vc.fc != nil {
			vc.obAssert("frame", "frame@callee-modifies "+m.text, "callee may write any array of the element type: caller must declare the same", "false", pos)
		}
		vc.heapHavoc(m.comp, srt)
	case "field":
		vc.checkWrite(m.comp, m.ref, "", "callee-modifies "+m.text, pos)
		elemSort := strings.TrimSuffix(strings.TrimPrefix(srt, "(Array Int "), ")")
		f := vc.freshConst("cm", elemSort)
		if m.owner != nil {
			ft := m.owner.Underlying().(*types.Struct).Field(m.field).Type()
			for _, rf := range vc.rangeFacts(f, ft, 0) {
				vc.fact(rf)
			}
		}
		vc.heapSet(m.comp, srt, fmt.Sprintf("(store %s %s %s)", vc.heapGet(m.comp, srt), m.ref, f))
	case "elems":
		vc.checkWrite(m.comp, m.ref, "", "callee-modifies "+m.text, pos)
		f := vc.freshConst("cm", "(Array Int "+vc.sortOf(m.elem)+")")
		if m.elem != nil {
			for _, rf := range vc.rangeFacts(fmt.Sprintf("(select %s i)", f), m.elem, 0) {
				vc.fact(fmt.Sprintf("(forall ((i Int)) (! %s :pattern ((select %s i))))", rf, f))
			}
		}
		vc.heapSet(m.comp, srt, fmt.Sprintf("(store %s %s %s)", vc.heapGet(m.comp, srt), m.ref, f))
	case "objrange":
		if vc.fc != nil && !vc.rootIsFresh(m.ref) {
			var alts []string
			for _, mine := range vc.modItems {
				if mine.kind != "objrange" || mine.comp != m.comp {
					continue
				}
				switch {
				case mine.lo == "":
					alts = append(alts, fmt.Sprintf("(= %s %s)", m.ref, mine.ref))
				case m.lo != "":
					alts = append(alts, fmt.Sprintf("(and (= %s %s) (or (>= %s %s) (and (<= %s %s) (<= %s %s))))", m.ref, mine.ref, m.lo, m.hi, mine.lo, m.lo, m.hi, mine.hi))
				}
			}
			for _, a := range vc.allocRefs {
				alts = append(alts, fmt.Sprintf("(= %s %s)", m.ref, a))
			}
			vc.decl("allocated0", "(declare-fun allocated0 (Int) Bool)")
			alts = append(alts, fmt.Sprintf("(not (allocated0 %s))", m.ref))
			vc.obAssert("frame", "frame@callee-modifies "+m.text, "callee's modifies "+m.text+" is permitted by the caller's modifies clause", "(or "+strings.Join(alts, " ")+" false)", pos)
		}
		old := vc.heapGet(m.comp, srt)
		n := vc.heapHavoc(m.comp, srt)
		vc.fact(fmt.Sprintf("(forall ((r Int)) (! (=> (not %s) (= (select %s r) (select %s r))) :pattern ((select %s r))))", vc.objRegionCond(m, "r"), n, old, n))
	case "range":
		vc.checkRangeWrite(m, pos)
		f := vc.freshConst("cm", "(Array Int "+vc.sortOf(m.elem)+")")
		for _, rf := range vc.rangeFacts(fmt.Sprintf("(select %s i)", f), m.elem, 0) {
			vc.fact(fmt.Sprintf("(forall ((i Int)) (! %s :pattern ((select %s i))))", rf, f))
		}
		old := fmt.Sprintf("(select %s %s)", vc.heapGet(m.comp, srt), m.ref)
		vc.fact(fmt.Sprintf("(forall ((i Int)) (! (=> (or (< i %s) (>= i %s)) (= (select %s i) (select %s i))) :pattern ((select %s i))))", m.lo, m.hi, f, old, f))
		vc.heapSet(m.comp, srt, fmt.Sprintf("(store %s %s %s)", vc.heapGet(m.comp, srt), m.ref, f))
	}
}

func (vc *FnVC) checkRangeWrite(m modItem, pos token.Pos) {
	if vc.fc == nil || vc.rootIsFresh(m.ref) {
		return
	}
	var alts []string
	for _, mine := range vc.modItems {
		if mine.comp != m.comp {
			continue
		}
		switch mine.kind {
		case "anyelems":
			return
		case "elems":
			alts = append(alts, fmt.Sprintf("(= %s %s)", m.ref, mine.ref))
		case "range":
			alts = append(alts, fmt.Sprintf("(and (= %s %s) (or (>= %s %s) (and (<= %s %s) (<= %s %s))))", m.ref, mine.ref, m.lo, m.hi, mine.lo, m.lo, m.hi, mine.hi))
		}
	}
	for _, a := range vc.allocRefs {
		alts = append(alts, fmt.Sprintf("(= %s %s)", m.ref, a))
	}
	vc.decl("allocated0", "(declare-fun allocated0 (Int) Bool)")
	alts = append(alts, fmt.Sprintf("(not (allocated0 %s))", m.ref))
	// an empty range writes nothing
	alts = append(alts, fmt.Sprintf("(>= %s %s)", m.lo, m.hi))
	cond := "false"
	if len(alts) > 0 {
		cond = "(or " + strings.Join(alts, " ") + " false)"
	}
	vc.obAssert("frame", "frame@callee-modifies "+m.text, "callee's modifies "+m.text+" is permitted by the caller's modifies clause", cond, pos)
}

func (vc *FnVC) compSortOf(m modItem) string {
	if s, ok := vc.compSort[m.comp]; ok {
		return s
	}
	switch m.kind {
	case "objrange":
		return m.csort
	case "field", "anyref":
		if m.owner != nil {
			_, s := vc.fieldComp(m.owner, m.field)
			return s
		}
		if ct, ok := vc.compType[m.comp]; ok && ct.t != nil && ct.depth == 1 {
			return "(Array Int " + vc.sortOf(ct.t) + ")"
		}
		return "(Array Int Int)"
	default:
		_, s := vc.elemComp(m.elem)
		return s
	}
}

// ------------------------------------------------------------------ builtins

func (vc *FnVC) builtin(in *ssa.Call, b *ssa.Builtin) {
	args := in.Call.Args
	switch b.Name() {
	case "len", "cap":
		x := vc.val(args[0])
		switch u := args[0].Type().Underlying().(type) {
		case *types.Slice:
			vc.define(in, fmt.Sprintf("(s.%s %s)", b.Name(), x.S))
		case *types.Basic:
			vc.define(in, fmt.Sprintf("(strlen %s)", vc.strTerm(x.S)))
		case *types.Array:
			vc.define(in, fmt.Sprint(u.Len()))
		case *types.Pointer:
			vc.define(in, fmt.Sprint(u.Elem().Underlying().(*types.Array).Len()))
		default:
			t := vc.defineFresh(in)
			vc.fact(fmt.Sprintf("(>= %s 0)", t.S))
		}
	case "min", "max":
		acc := vc.val(args[0]).S
		op := "<="
		if b.Name() == "max" {
			op = ">="
		}
		for _, a := range args[1:] {
			y := vc.val(a).S
			acc = fmt.Sprintf("(ite (%s %s %s) %s %s)", op, acc, y, acc, y)
		}
		vc.define(in, acc)
	case "copy":
		vc.copyBuiltin(in)
	case "append":
		vc.appendBuiltin(in)
	case "clear":
		x := vc.val(args[0])
		if st, ok := args[0].Type().Underlying().(*types.Slice); ok && !isObjectType(st.Elem()) {
			c, s := vc.elemComp(st.Elem())
			arr := fmt.Sprintf("(s.arr %s)", x.S)
			lo := fmt.Sprintf("(s.off %s)", x.S)
			hi := fmt.Sprintf("(+ (s.off %s) (s.len %s))", x.S, x.S)
			vc.checkRangeWrite(modItem{text: "clear(" + vc.valueText(args[0]) + ")", kind: "range", ref: arr, comp: c, lo: lo, hi: hi, elem: st.Elem()}, in.Pos())
			f := vc.freshConst("clr", "(Array Int "+vc.sortOf(st.Elem())+")")
			old := fmt.Sprintf("(select %s %s)", vc.heapGet(c, s), arr)
			vc.fact(fmt.Sprintf("(forall ((i Int)) (! (= (select %s i) (ite (and (<= %s i) (< i %s)) %s (select %s i))) :pattern ((select %s i))))", f, lo, hi, vc.zeroValue(st.Elem()), old, f))
			vc.heapSet(c, s, fmt.Sprintf("(store %s %s %s)", vc.heapGet(c, s), arr, f))
		} else if mt, ok := args[0].Type().Underlying().(*types.Map); ok {
			// clear(m): a write to the map after which no key is present
			vC, _, hC, hS := vc.mapComps(mt.Key(), mt.Elem())
			vc.checkWrite(vC, x.S, "", "map "+vc.valueText(args[0])+" (clear)", in.Pos())
			hh := vc.heapGet(hC, hS)
			vc.heapSet(hC, hS, fmt.Sprintf("(store %s %s ((as const (Array %s Bool)) false))", hh, x.S, vc.sortOf(mt.Key())))
		} else {
			vc.notes = append(vc.notes, "clear() on a slice of objects: not modelled")
		}
	case "delete":
		m := vc.val(args[0])
		k := vc.val(args[1])
		mt := args[0].Type().Underlying().(*types.Map)
		vC, _, hC, hS := vc.mapComps(mt.Key(), mt.Elem())
		// removing a key is a write to the map, like an update
		vc.checkWrite(vC, m.S, "", "map "+vc.valueText(args[0])+" (delete)", in.Pos())
		hh := vc.heapGet(hC, hS)
		vc.heapSet(hC, hS, fmt.Sprintf("(store %s %s (store (select %s %s) %s false))", hh, m.S, hh, m.S, k.S))
	case "print", "println":
	case "ssa:wrapnilchk":
		x := vc.val(args[0])
		vc.vals[in] = Term{S: x.S, Sort: x.Sort, T: in.Type()}
	case "recover":
		vc.defineFresh(in)
	default:
		vc.errorf("unsupported builtin %s", b.Name())
		if _, ok := in.Type().(*types.Tuple); !ok {
			vc.defineFresh(in)
		}
	}
}

func (vc *FnVC) copyBuiltin(in *ssa.Call) {
	args := in.Call.Args
	dst := vc.val(args[0])
	src := vc.val(args[1])
	dt := args[0].Type().Underlying().(*types.Slice)
	var n string
	srcIsString := false
	if _, ok := args[1].Type().Underlying().(*types.Slice); ok {
		n = fmt.Sprintf("(ite (<= (s.len %s) (s.len %s)) (s.len %s) (s.len %s))", dst.S, src.S, dst.S, src.S)
	} else {
		srcIsString = true
		n = fmt.Sprintf("(ite (<= (s.len %s) (strlen %s)) (s.len %s) (strlen %s))", dst.S, vc.strTerm(src.S), dst.S, src.S)
	}
	nT := vc.define(in, n)
	if isObjectType(dt.Elem()) {
		if srcIsString {
			vc.errorf("copy of a string into an object slice")
			return
		}
		arr := fmt.Sprintf("(s.arr %s)", dst.S)
		if !vc.rootIsFresh(arr) && vc.fc != nil {
			var alts []string
			for _, mine := range vc.modItems {
				if mine.kind == "elems" || (mine.kind == "objrange" && mine.lo == "") {
					alts = append(alts, fmt.Sprintf("(= %s %s)", arr, mine.ref))
				}
			}
			for _, a := range vc.allocRefs {
				alts = append(alts, fmt.Sprintf("(= %s %s)", arr, a))
			}
			alts = append(alts, fmt.Sprintf("(not (allocated0 %s))", arr))
			vc.obAssert("frame", "frame@copy("+vc.valueText(args[0])+", ...)", "copy writes only permitted memory", fmt.Sprintf("(or (= %s 0) %s false)", nT.S, strings.Join(alts, " ")), in.Pos())
		}
		rg := objRegion{"true", arr, fmt.Sprintf("(s.off %s)", dst.S), fmt.Sprintf("(+ (s.off %s) %s)", dst.S, nT.S), fmt.Sprintf("(s.arr %s)", src.S), fmt.Sprintf("(s.off %s)", src.S)}
		if !vc.copyObjRegions(dt.Elem(), []objRegion{rg}) {
			vc.errorf("copy of object slice with unsupported element type %s", dt.Elem())
		}
		return
	}
	c, s := vc.elemComp(dt.Elem())
	arr := fmt.Sprintf("(s.arr %s)", dst.S)
	lo := fmt.Sprintf("(s.off %s)", dst.S)
	hi := fmt.Sprintf("(+ (s.off %s) %s)", dst.S, nT.S)
	vc.checkRangeWrite(modItem{text: "copy(" + vc.valueText(args[0]) + ", ...)", kind: "range", ref: arr, comp: c, lo: lo, hi: hi, elem: dt.Elem()}, in.Pos())
	f := vc.freshConst("cp", "(Array Int "+vc.sortOf(dt.Elem())+")")
	h := vc.heapGet(c, s)
	old := fmt.Sprintf("(select %s %s)", h, arr)
	if srcIsString {
		vc.fact(fmt.Sprintf("(forall ((i Int)) (! (=> (or (< i %s) (>= i %s)) (= (select %s i) (select %s i))) :pattern ((select %s i))))", lo, hi, f, old, f))
		for _, rf := range vc.rangeFacts(fmt.Sprintf("(select %s i)", f), dt.Elem(), 0) {
			vc.fact(fmt.Sprintf("(forall ((i Int)) (! %s :pattern ((select %s i))))", rf, f))
		}
	} else {
		srcArr := fmt.Sprintf("(select %s (s.arr %s))", h, src.S)
		// memmove semantics: reads come from the pre-state
		vc.fact(fmt.Sprintf("(forall ((i Int)) (! (= (select %s i) (ite (and (<= %s i) (< i %s)) (select %s (+ (s.off %s) (- i %s))) (select %s i))) :pattern ((select %s i))))", f, lo, hi, srcArr, src.S, lo, old, f))
	}
	vc.heapSet(c, s, fmt.Sprintf("(store %s %s %s)", h, arr, f))
}

// objRegion: elements [lo,hi) of array dst receive the elements of array src starting at srcLo,
// when cond holds (all SMT terms).
type objRegion struct {
	cond, dst, lo, hi, src, srcLo string
}

// objLeaf: one heap component that holds part of an object of some type, with the path from
// the object's reference to the index used in that component, and its inverse.
type objLeaf struct {
	comp, sort string
	path, inv  func(string) string
}

func (vc *FnVC) objLeaves(t types.Type, path, inv func(string) string, out *[]objLeaf) bool {
	if isUint256(t) || isBigInt(t) {
		c, s := vc.cellComp(t)
		*out = append(*out, objLeaf{c, s, path, inv})
		return true
	}
	switch u := t.Underlying().(type) {
	case *types.Struct:
		for i := 0; i < u.NumFields(); i++ {
			ft := u.Field(i).Type()
			if isObjectType(ft) {
				i := i
				vc.fldRef(t, i, "0") // declares the sub-reference function and its inverse
				fn := "fld$" + shortTypeName(t) + "$" + u.Field(i).Name()
				p2 := func(r string) string { return fmt.Sprintf("(%s %s)", fn, path(r)) }
				i2 := func(r string) string { return inv(fmt.Sprintf("(%s$inv %s)", fn, r)) }
				if !vc.objLeaves(ft, p2, i2, out) {
					return false
				}
			} else {
				c, s := vc.fieldComp(t, i)
				*out = append(*out, objLeaf{c, s, path, inv})
			}
		}
		return true
	case *types.Array:
		if isObjectType(u.Elem()) {
			return false
		}
		c, s := vc.elemComp(u.Elem())
		*out = append(*out, objLeaf{c, s, path, inv})
		return true
	}
	return false
}

// copyObjRegions models a memmove of object-typed slice elements: every heap component that
// holds part of an element gets a new version that agrees with the old one except on the
// destination regions, which receive the pre-state contents of the source elements.
func (vc *FnVC) copyObjRegions(el types.Type, regions []objRegion) bool {
	var leaves []objLeaf
	id := func(r string) string { return r }
	if !vc.objLeaves(el, id, id, &leaves) {
		return false
	}
	vc.elemRef(el, "0", "0") // declares elem$T and its inverses
	efn := "elem$" + shortTypeName(el)
	type upd struct {
		comp, old, neu string
	}
	var upds []upd
	seen := map[string]bool{}
	for _, lf := range leaves {
		if seen[lf.comp] {
			// two leaves in one component (same field type reached twice): not handled
			return false
		}
		seen[lf.comp] = true
		upds = append(upds, upd{lf.comp, vc.heapGet(lf.comp, lf.sort), ""})
	}
	for k, lf := range leaves {
		n := vc.heapHavoc(lf.comp, lf.sort)
		upds[k].neu = n
		old := upds[k].old
		e := lf.inv("r")
		a := fmt.Sprintf("(%s$arr %s)", efn, e)
		i := fmt.Sprintf("(%s$idx %s)", efn, e)
		valid := fmt.Sprintf("(= r %s)", lf.path(fmt.Sprintf("(%s %s %s)", efn, a, i)))
		body := fmt.Sprintf("(select %s r)", old)
		for j := len(regions) - 1; j >= 0; j-- {
			rg := regions[j]
			srcRef := lf.path(fmt.Sprintf("(%s %s (+ %s (- %s %s)))", efn, rg.src, rg.srcLo, i, rg.lo))
			body = fmt.Sprintf("(ite (and %s %s (= %s %s) (<= %s %s) (< %s %s)) (select %s %s) %s)", rg.cond, valid, a, rg.dst, rg.lo, i, i, rg.hi, old, srcRef, body)
		}
		vc.fact(fmt.Sprintf("(forall ((r Int)) (! (= (select %s r) %s) :pattern ((select %s r))))", n, body, n))
	}
	return true
}

// appendBuiltin models append(s, t...) exactly: in place when it fits, otherwise a fresh
// backing array (prefix copied, tail zero).
func (vc *FnVC) appendBuiltin(in *ssa.Call) {
	args := in.Call.Args
	s := vc.val(args[0])
	st := args[0].Type().Underlying().(*types.Slice)
	el := st.Elem()
	var tlen string
	var t Term
	tIsString := false
	if len(args) < 2 {
		vc.vals[in] = s
		return
	}
	t = vc.val(args[1])
	if _, ok := args[1].Type().Underlying().(*types.Slice); ok {
		tlen = fmt.Sprintf("(s.len %s)", t.S)
	} else {
		tIsString = true
		tlen = fmt.Sprintf("(strlen %s)", vc.strTerm(t.S))
	}
	newLen := fmt.Sprintf("(+ (s.len %s) %s)", s.S, tlen)
	fits := fmt.Sprintf("(<= %s (s.cap %s))", newLen, s.S)
	farr := vc.newAllocRef("ap$" + mangle(in.Name()))
	fcap := vc.freshConst("apcap", "Int")
	vc.fact(fmt.Sprintf("(and (>= %s %s) (<= %s 281474976710656))", fcap, newLen, fcap))
	res := vc.define(in, fmt.Sprintf("(ite %s (mkSlice (s.arr %s) (s.off %s) %s (s.cap %s)) (mkSlice %s 0 %s %s))", fits, s.S, s.S, newLen, s.S, farr, newLen, fcap))
	if isObjectType(el) {
		if tIsString {
			vc.notes = append(vc.notes, "append on object slice: contents not modelled")
			return
		}
		if !vc.rootIsFresh(fmt.Sprintf("(s.arr %s)", s.S)) && vc.fc != nil {
			arr := fmt.Sprintf("(s.arr %s)", s.S)
			var alts []string
			for _, mine := range vc.modItems {
				if mine.kind == "elems" || (mine.kind == "objrange" && mine.lo == "") {
					alts = append(alts, fmt.Sprintf("(= %s %s)", arr, mine.ref))
				}
			}
			for _, a := range vc.allocRefs {
				alts = append(alts, fmt.Sprintf("(= %s %s)", arr, a))
			}
			alts = append(alts, fmt.Sprintf("(not (allocated0 %s))", arr))
			cond := fmt.Sprintf("(or (not %s) (= %s 0) %s false)", fits, tlen, strings.Join(alts, " "))
			vc.obAssert("frame", "frame@append("+vc.valueText(args[0])+")", "in-place append writes only permitted memory", cond, in.Pos())
		}
		regions := []objRegion{
			{"true", fmt.Sprintf("(s.arr %s)", res.S), fmt.Sprintf("(+ (s.off %s) (s.len %s))", res.S, s.S), fmt.Sprintf("(+ (s.off %s) %s)", res.S, newLen), fmt.Sprintf("(s.arr %s)", t.S), fmt.Sprintf("(s.off %s)", t.S)},
			{fmt.Sprintf("(not %s)", fits), farr, "0", fmt.Sprintf("(s.len %s)", s.S), fmt.Sprintf("(s.arr %s)", s.S), fmt.Sprintf("(s.off %s)", s.S)},
		}
		if !vc.copyObjRegions(el, regions) {
			vc.notes = append(vc.notes, "append on object slice: contents not modelled")
		}
		return
	}
	c, srt := vc.elemComp(el)
	h := vc.heapGet(c, srt)
	es := vc.sortOf(el)
	// in-place write must be permitted by the frame when it happens
	if !vc.rootIsFresh(fmt.Sprintf("(s.arr %s)", s.S)) && vc.fc != nil {
		arr := fmt.Sprintf("(s.arr %s)", s.S)
		lo := fmt.Sprintf("(+ (s.off %s) (s.len %s))", s.S, s.S)
		hi := fmt.Sprintf("(+ (s.off %s) %s)", s.S, newLen)
		var alts []string
		for _, mine := range vc.modItems {
			if mine.comp != c {
				continue
			}
			switch mine.kind {
			case "anyelems":
				alts = append(alts, "true")
			case "elems":
				alts = append(alts, fmt.Sprintf("(= %s %s)", arr, mine.ref))
			case "range":
				alts = append(alts, fmt.Sprintf("(and (= %s %s) (<= %s %s) (<= %s %s))", arr, mine.ref, mine.lo, lo, hi, mine.hi))
			}
		}
		for _, a := range vc.allocRefs {
			alts = append(alts, fmt.Sprintf("(= %s %s)", arr, a))
		}
		alts = append(alts, fmt.Sprintf("(not (allocated0 %s))", arr))
		cond := fmt.Sprintf("(or (not %s) (= %s 0) %s false)", fits, tlen, strings.Join(alts, " "))
		vc.obAssert("frame", "frame@append("+vc.valueText(args[0])+")", "in-place append writes only permitted memory", cond, in.Pos())
	}
	// new content of the target array
	target := fmt.Sprintf("(s.arr %s)", res.S)
	f := vc.freshConst("apd", "(Array Int "+es+")")
	oldS := fmt.Sprintf("(select %s (s.arr %s))", h, s.S)
	off := fmt.Sprintf("(s.off %s)", res.S)
	var srcElem string
	if tIsString {
		vc.decl("strbyte", "(declare-fun strbyte (Int Int) Int)")
		srcElem = fmt.Sprintf("(strbyte %s (- (- i %s) (s.len %s)))", t.S, off, s.S)
	} else {
		srcElem = fmt.Sprintf("(select (select %s (s.arr %s)) (+ (s.off %s) (- (- i %s) (s.len %s))))", h, t.S, t.S, off, s.S)
	}
	// for index i of the result array:
	//   off <= i < off+len(s)       : old s element (same array in place; copied when grown)
	//   off+len(s) <= i < off+newLen: appended element
	//   otherwise                   : in place: unchanged; grown: zero
	vc.fact(fmt.Sprintf("(forall ((i Int)) (! (= (select %s i) (ite (and (<= %s i) (< i (+ %s (s.len %s)))) (select %s (+ (s.off %s) (- i %s))) (ite (and (<= (+ %s (s.len %s)) i) (< i (+ %s %s))) %s (ite %s (select %s i) %s)))) :pattern ((select %s i))))",
		f, off, off, s.S, oldS, s.S, off, off, s.S, off, newLen, srcElem, fits, oldS, vc.zeroValue(el), f))
	vc.heapSet(c, srt, fmt.Sprintf("(store %s %s %s)", h, target, f))
	vc.assume("Go runtime: append that grows returns a fresh backing array whose tail beyond the new length is zero")
}

// ------------------------------------------------------------------ havoc

var noEffectPrefixes = []string{
	"fmt.", "errors.", "github.com/ethereum/go-ethereum/log.", "(*github.com/ethereum/go-ethereum/log.", "strconv.", "(github.com/ethereum/go-ethereum/log.",
	"strings.", "unicode", "math.", "math/bits.", "time.", "(time.", "sort.Search", "bytes.Equal", "bytes.Compare", "bytes.HasPrefix", "bytes.Count", "bytes.Index",
	"(*github.com/ethereum/go-ethereum/metrics.", "(github.com/ethereum/go-ethereum/metrics.", "github.com/ethereum/go-ethereum/metrics.",
	"(github.com/ethereum/go-ethereum/common.Hash).", "(github.com/ethereum/go-ethereum/common.Address).",
	"github.com/ethereum/go-ethereum/common.BytesToHash", "github.com/ethereum/go-ethereum/common.BytesToAddress", "github.com/ethereum/go-ethereum/common.BigToHash",
	"github.com/ethereum/go-ethereum/crypto.Keccak256", "github.com/ethereum/go-ethereum/crypto.CreateAddress",
	"(*sync.Mutex).", "(*sync.RWMutex).", "(*sync/atomic.", "sync/atomic.", "(*sync.Pool).",
}

func (vc *FnVC) isNoEffect(name string) bool {
	for _, p := range noEffectPrefixes {
		if strings.HasPrefix(name, p) {
			return true
		}
	}
	if vc.prog != nil {
		for _, p := range vc.prog.noEffect {
			if strings.Contains(name, p) {
				return true
			}
		}
	}
	return false
}

func (vc *FnVC) havocCall(in *ssa.Call, name string) {
	c := &in.Call
	results := vc.freshResults(in, "hc$"+mangle(lastSeg(name)))
	vc.setCallResult(in, results)
	// result facts for a few well-known constructors of errors
	if strings.HasPrefix(name, "fmt.Errorf") || strings.HasPrefix(name, "errors.New") {
		if len(results) == 1 {
			vc.fact(fmt.Sprintf("(> %s 0)", results[0].S))
			vc.decl("allocated0", "(declare-fun allocated0 (Int) Bool)")
			for _, g := range vc.globalErrs {
				vc.fact(fmt.Sprintf("(not (= %s %s))", results[0].S, g))
			}
			vc.newErrs = append(vc.newErrs, results[0].S)
		}
	}
	if vc.prog != nil && vc.prog.isFreshResult(name) && len(results) >= 1 && results[0].Sort == "Int" {
		if _, isPtr := results[0].T.Underlying().(*types.Pointer); isPtr {
			vc.newAllocFacts(results[0].S)
			vc.assume("constructor " + name + " returns a newly allocated object (fresh-result directive)")
		}
	}
	if vc.prog != nil && vc.prog.isPureObserver(name) {
		vc.pureObserver(in, name, results)
		return
	}
	if vc.isNoEffect(name) {
		vc.havocked[name+" [no heap effect assumed]"] = true
		return
	}
	if sc := c.StaticCallee(); sc != nil && sc.Blocks != nil && vc.prog != nil && vc.prog.effectFree(sc, 0) {
		vc.havocked[name+" [body checked syntactically to write no memory; result arbitrary]"] = true
		return
	}
	// pure observers
	if vc.prog != nil && vc.prog.isPureObserver(name) {
		vc.pureObserver(in, name, results)
		return
	}
	vc.havocked[name] = true
	// arguments: pointers and slices are havocked (deeply, by type)
	var args []ssa.Value
	args = append(args, c.Args...)
	if !c.IsInvoke() {
		if mc, ok := c.Value.(*ssa.MakeClosure); ok {
			args = append(args, mc.Bindings...)
		}
	}
	saved := vc.savePrivateAllocs()
	defer vc.restorePrivateAllocs(saved)
	if vc.prog != nil && vc.prog.isReadonlyArgs(name) {
		vc.havocked[name+" [non-receiver arguments read-only by directive]"] = true
		delete(vc.havocked, name)
		// a pointer receiver may still be written
		if sc := c.StaticCallee(); sc != nil && sc.Signature.Recv() != nil && len(c.Args) > 0 {
			vc.havocArg(c.Args[0], in.Pos(), name)
		}
	} else {
		for _, a := range args {
			vc.havocArg(a, in.Pos(), name)
		}
	}
	// statically known callees outside the module (standard library, dependencies) cannot
	// reach the client's world state (StateDB etc.): no observer version bump
	if sc := c.StaticCallee(); sc != nil && sc.Pkg != nil && !strings.HasPrefix(sc.Pkg.Pkg.Path(), modPrefix) {
		vc.assume("library callees outside the module change no client state other than through their arguments")
		return
	}
	vc.noteMutation(name)
	if c.IsInvoke() {
		vc.bumpVersion(c.Value)
		vc.assume("calls through interface values modify only memory reachable from their explicit pointer/slice arguments (no ownership model)")
	} else if c.StaticCallee() == nil {
		vc.bumpAllVersions()
		vc.assume("calls through function values modify only memory reachable from their explicit pointer/slice arguments and captured variables")
	} else {
		vc.assume("uncontracted static callees modify only memory reachable (by type) from their pointer/slice arguments; package-level state is not modelled")
		// a mutating method on an interface-holding struct bumps observer versions reachable from it: handled via bumpAll
		vc.bumpAllVersions()
	}
}

// noteMutation: the function under verification calls something that may change the
// unmodelled world state (observer results). Unless it is declared `mutates`, that is a
// contract error: callers rely on observers being stable across non-mutating callees.
func (vc *FnVC) noteMutation(callee string) {
	if vc.fc == nil || vc.fc.Mutates || vc.mutNoted {
		return
	}
	vc.mutNoted = true
	o := vc.ob("frame", "mutates-declared", "function calls possibly state-mutating "+callee+" and must be declared 'mutates'", "false", vc.fn.Pos())
	o.NFacts = 0
	o.noReplay = true
}

func lastSeg(n string) string {
	if k := strings.LastIndexAny(n, "./)"); k >= 0 && k+1 < len(n) {
		return n[k+1:]
	}
	return n
}

func (vc *FnVC) havocArg(a ssa.Value, pos token.Pos, callee string) {
	// a pointer or slice boxed into an interface at the call site is still an explicit argument
	switch x := a.(type) {
	case *ssa.MakeInterface:
		vc.havocArg(x.X, pos, callee)
		return
	case *ssa.ChangeInterface:
		vc.havocArg(x.X, pos, callee)
		return
	}
	if l, ok := vc.locOf(a); ok {
		// interior pointer to a scalar escapes into the call
		vc.checkWrite(l.comp, l.ref, l.idx, vc.addrText(a)+" (passed to "+lastSeg(callee)+")", pos)
		f := vc.freshConst("hv", vc.sortOf(l.T))
		for _, rf := range vc.rangeFacts(f, l.T, 0) {
			vc.fact(rf)
		}
		vc.locStore(l, f)
		return
	}
	switch u := a.Type().Underlying().(type) {
	case *types.Pointer:
		ref := vc.val(a).S
		el := u.Elem()
		if vc.fc != nil && !vc.rootIsFresh(ref) {
			vc.checkObjectWrite(ref, el, "*"+vc.valueText(a)+" (passed to "+lastSeg(callee)+")", pos)
		}
		vc.havocObject(ref, el)
		// deep: everything reachable by type from the pointee through pointers/slices is havocked entirely
		seen := map[string]types.Type{}
		if st := structOf(el); st != nil {
			for i := 0; i < st.NumFields(); i++ {
				ft := st.Field(i).Type()
				switch ft.Underlying().(type) {
				case *types.Pointer, *types.Slice:
					reachTypes(ft, seen, false)
				case *types.Struct, *types.Array:
					vc.deepFieldReach(ft, seen)
				}
			}
		}
		vc.havocTypes(seen)
	case *types.Slice:
		s := vc.val(a).S
		el := u.Elem()
		arr := fmt.Sprintf("(s.arr %s)", s)
		if isObjectType(el) {
			seen := map[string]types.Type{}
			reachTypes(el, seen, false)
			vc.havocTypes(seen)
			return
		}
		c, srt := vc.elemComp(el)
		// the callee may write the elements the slice gives access to: [off, off+len)
		// (writing beyond len through re-slicing up to cap is not considered)
		lo := fmt.Sprintf("(s.off %s)", s)
		hi := fmt.Sprintf("(+ (s.off %s) (s.len %s))", s, s)
		if vc.fc != nil && !vc.rootIsFresh(arr) {
			vc.checkRangeWrite(modItem{text: vc.valueText(a) + "[..] (passed to " + lastSeg(callee) + ")", kind: "range", ref: arr, comp: c, elem: el, lo: lo, hi: hi}, pos)
		}
		f := vc.freshConst("hv", "(Array Int "+vc.sortOf(el)+")")
		for _, rf := range vc.rangeFacts(fmt.Sprintf("(select %s i)", f), el, 0) {
			vc.fact(fmt.Sprintf("(forall ((i Int)) (! %s :pattern ((select %s i))))", rf, f))
		}
		old := fmt.Sprintf("(select %s %s)", vc.heapGet(c, srt), arr)
		vc.fact(fmt.Sprintf("(forall ((i Int)) (! (=> (or (< i %s) (>= i %s)) (= (select %s i) (select %s i))) :pattern ((select %s i))))", lo, hi, f, old, f))
		vc.heapSet(c, srt, fmt.Sprintf("(store %s %s %s)", vc.heapGet(c, srt), arr, f))
		vc.assume("uncontracted callees write a slice argument only within its length (not up to its capacity)")
		if _, isPtr := el.Underlying().(*types.Pointer); isPtr {
			seen := map[string]types.Type{}
			reachTypes(el, seen, false)
			vc.havocTypes(seen)
		}
	}
}

func (vc *FnVC) deepFieldReach(t types.Type, seen map[string]types.Type) {
	switch u := t.Underlying().(type) {
	case *types.Struct:
		for i := 0; i < u.NumFields(); i++ {
			ft := u.Field(i).Type()
			switch ft.Underlying().(type) {
			case *types.Pointer, *types.Slice:
				reachTypes(ft, seen, false)
			case *types.Struct, *types.Array:
				vc.deepFieldReach(ft, seen)
			}
		}
	case *types.Array:
		switch u.Elem().Underlying().(type) {
		case *types.Pointer, *types.Slice:
			reachTypes(u.Elem(), seen, false)
		}
	}
}

// havocTypes havocs every heap component owned by the given types, entirely.
func (vc *FnVC) havocTypes(seen map[string]types.Type) {
	for _, k := range sortedKeys(seen) {
		t := seen[k]
		if strings.HasPrefix(k, "@cell:") {
			c, s := vc.cellComp(t)
			vc.heapHavoc(c, s)
			continue
		}
		if strings.HasPrefix(k, "@scalar:") {
			c, s := vc.elemComp(t)
			if _, ok := vc.compSort[c]; ok {
				vc.heapHavoc(c, s)
			}
			continue
		}
		st := structOf(t)
		if st == nil {
			continue
		}
		for i := 0; i < st.NumFields(); i++ {
			if isObjectType(st.Field(i).Type()) {
				continue
			}
			c, s := vc.fieldComp(t, i)
			vc.heapHavoc(c, s)
		}
	}
}

// ------------------------------------------------------------------ pure observers

// A single observer version for the whole (unmodelled) world state: two observer
// calls with no possibly-mutating call in between return the same value for the
// same receiver and arguments.
func (vc *FnVC) versionOf(recv string) string {
	if v, ok := vc.versionCtr[""]; ok {
		return v
	}
	v := vc.entryVersion()
	vc.versionCtr[""] = v
	return v
}

// entryVersion: the world-state version at function entry (used by old(observe(...))).
func (vc *FnVC) entryVersion() string {
	if v, ok := vc.versionCtr["@entry"]; ok {
		return v
	}
	v := vc.declConst("ver$entry", "Int")
	vc.versionCtr["@entry"] = v
	return v
}

func (vc *FnVC) bumpVersion(recv ssa.Value) {
	vc.versionCtr[""] = vc.freshConst("ver", "Int")
}

func (vc *FnVC) bumpAllVersions() {
	vc.entryVersion()
	vc.versionCtr[""] = vc.freshConst("ver", "Int")
}

// declObs declares an observer function. A pointer-valued observer returns an object that
// existed before (or nil): it is deterministic, so it cannot hand out a new object per call.
func (vc *FnVC) declObs(fn string, sorts []string, resSort string, resT types.Type) {
	if vc.declSet[fn] {
		return
	}
	vc.decl(fn, fmt.Sprintf("(declare-fun %s (%s) %s)", fn, strings.Join(sorts, " "), resSort))
	if resT == nil {
		return
	}
	if _, isPtr := resT.Underlying().(*types.Pointer); isPtr && resSort == "Int" {
		var bs, as []string
		for i, s := range sorts {
			bs = append(bs, fmt.Sprintf("(x%d %s)", i, s))
			as = append(as, fmt.Sprintf("x%d", i))
		}
		app := fmt.Sprintf("(%s %s)", fn, strings.Join(as, " "))
		vc.decl("allocated0", "(declare-fun allocated0 (Int) Bool)")
		vc.declAxiom(fn+"$old", fmt.Sprintf("(assert (forall (%s) (! (and (>= %s 0) (or (= %s 0) (allocated0 %s))) :pattern (%s))))", strings.Join(bs, " "), app, app, app, app))
	}
}

// pureObserver: result is an uninterpreted function of (receiver, args, version).
func (vc *FnVC) pureObserver(in *ssa.Call, name string, results []Term) {
	c := &in.Call
	var argTerms []string
	var sorts []string
	recv, recvSort := "0", "Int"
	if c.IsInvoke() {
		recv = vc.val(c.Value).S
	} else if len(c.Args) > 0 {
		rt := vc.val(c.Args[0])
		recv, recvSort = rt.S, rt.Sort
	}
	argTerms = append(argTerms, recv, vc.versionOf(recv))
	sorts = append(sorts, recvSort, "Int")
	start := 0
	if !c.IsInvoke() {
		start = 1
	}
	for _, a := range c.Args[start:] {
		t := vc.val(a)
		if t.Sort == "Tuple" {
			continue
		}
		argTerms = append(argTerms, t.S)
		sorts = append(sorts, t.Sort)
	}
	for i, r := range results {
		fn := fmt.Sprintf("obs$%s$%d", mangle(lastSeg(name)), i)
		vc.declObs(fn, sorts, r.Sort, r.T)
		vc.fact(fmt.Sprintf("(= %s (%s %s))", r.S, fn, strings.Join(argTerms, " ")))
	}
	vc.havocked[name+" [pure observer: deterministic between mutations, no heap effect]"] = true
}

// ------------------------------------------------------------------ defers

func (vc *FnVC) deferInstr(in *ssa.Defer) {
	name := calleeName(&in.Call)
	vc.defers = append(vc.defers, in)
	vc.notes = append(vc.notes, "defer "+name)
}

// inlineSingleBlock executes the body of a straight-line function (one basic block, no
// defers, goroutines or panics) in the current state, with the given argument terms and
// captured variables. Used for small closures (deferred restore actions, predicates).
func (vc *FnVC) inlineSingleBlock(fn *ssa.Function, args []Term, bindings []ssa.Value) ([]Term, bool) {
	if fn == nil || len(fn.Blocks) != 1 || len(args) != len(fn.Params) || len(bindings) != len(fn.FreeVars) {
		return nil, false
	}
	for _, in := range fn.Blocks[0].Instrs {
		switch in.(type) {
		case *ssa.Defer, *ssa.RunDefers, *ssa.Go, *ssa.Panic, *ssa.Send, *ssa.Select, *ssa.If, *ssa.Jump:
			return nil, false
		}
	}
	vc.inlineSeq++
	savedPrefix := vc.inlinePrefix
	vc.inlinePrefix = fmt.Sprintf("in%d$", vc.inlineSeq)
	defer func() { vc.inlinePrefix = savedPrefix }()
	// forget values of an earlier inlining of the same body
	for _, in := range fn.Blocks[0].Instrs {
		if v, ok := in.(ssa.Value); ok {
			delete(vc.vals, v)
			delete(vc.locs, v)
		}
	}
	for i, p := range fn.Params {
		t := args[i]
		t.T = p.Type()
		vc.vals[p] = t
	}
	for i, fv := range fn.FreeVars {
		vc.vals[fv] = vc.val(bindings[i])
		if l, ok := vc.locOf(bindings[i]); ok {
			vc.locs[fv] = l
		}
	}
	var res []Term
	for idx, in := range fn.Blocks[0].Instrs {
		switch x := in.(type) {
		case *ssa.Return:
			for _, r := range x.Results {
				res = append(res, vc.val(r))
			}
			return res, true
		case *ssa.DebugRef:
			continue
		default:
			vc.instr(in, idx)
		}
	}
	return res, true
}

// blockReaches: to is reachable from a successor of from (so blockReaches(b, b) means b lies
// on a cycle).
func blockReaches(from, to *ssa.BasicBlock) bool {
	seen := map[*ssa.BasicBlock]bool{}
	var stack []*ssa.BasicBlock
	stack = append(stack, from.Succs...)
	for len(stack) > 0 {
		b := stack[len(stack)-1]
		stack = stack[:len(stack)-1]
		if b == to {
			return true
		}
		if seen[b] {
			continue
		}
		seen[b] = true
		stack = append(stack, b.Succs...)
	}
	return false
}

func (vc *FnVC) runDefers(in *ssa.RunDefers) {
	for k := len(vc.defers) - 1; k >= 0; k-- {
		d := vc.defers[k]
		name := calleeName(&d.Call)
		if vc.isNoEffect(name) || strings.Contains(name, "Unlock") || strings.Contains(name, "RUnlock") {
			continue
		}
		if mc, ok := d.Call.Value.(*ssa.MakeClosure); ok {
			if fn, ok := mc.Fn.(*ssa.Function); ok && vc.prog.closureIsEffectFree(fn) {
				vc.assume("deferred closure " + fn.Name() + " checked syntactically to write no modelled memory (tracer/log only)")
				continue
			}
			// an unconditional deferred straight-line closure (typically "restore the field I
			// changed") is executed here, with its arguments as evaluated at the defer statement
			if !d.Block().Dominates(in.Block()) && vc.loopInfo[d.Block()] == nil {
				// this exit is reached without passing the defer statement only if the defer's
				// block is not on the path: when it cannot reach this exit at all, skip it
				if !blockReaches(d.Block(), in.Block()) {
					continue
				}
			}
			if fn, ok := mc.Fn.(*ssa.Function); ok && d.Block().Dominates(in.Block()) && !blockReaches(d.Block(), d.Block()) {
				var args []Term
				for _, a := range d.Call.Args {
					args = append(args, vc.val(a))
				}
				if _, ok := vc.inlineSingleBlock(fn, args, mc.Bindings); ok {
					continue
				}
			}
		}
		vc.errorf("defer %s: deferred call with possible effects is outside the verified subset", name)
	}
}

// noteCallTargets records which heap components a call inside a loop may write.
func (vc *FnVC) noteCallTargets(ci ssa.CallInstruction, inLoop func(ssa.Value) bool, note func(comp, sort, ref string, precise bool)) {
	c := ci.Common()
	if _, ok := c.Value.(*ssa.Builtin); ok {
		b := c.Value.(*ssa.Builtin)
		switch b.Name() {
		case "copy", "clear", "append":
			if st, ok := c.Args[0].Type().Underlying().(*types.Slice); ok && !isObjectType(st.Elem()) {
				comp, srt := vc.elemComp(st.Elem())
				if b.Name() != "append" && !inLoop(c.Args[0]) {
					note(comp, srt, fmt.Sprintf("(s.arr %s)", vc.val(c.Args[0]).S), true)
				} else {
					note(comp, srt, "", false)
				}
			} else if ok {
				seen := map[string]types.Type{}
				ownTypes(st.Elem(), seen)
				vc.noteTypes(seen, note)
			}
		case "delete":
			mt := c.Args[0].Type().Underlying().(*types.Map)
			_, _, hC, hS := vc.mapComps(mt.Key(), mt.Elem())
			note(hC, hS, "", false)
		}
		return
	}
	callee := c.StaticCallee()
	name := calleeName(c)
	if callee != nil {
		if fc := vc.prog.contractFor(callee); fc != nil {
			for _, item := range fc.Modifies {
				vc.noteModItem(item, callee, c.Args, inLoop, note)
			}
			return
		}
	}
	if vc.isNoEffect(name) || (vc.prog != nil && vc.prog.isPureObserver(name)) {
		return
	}
	// library models that only read their arguments
	for _, ro := range []string{"encoding/binary.bigEndian).Uint", "encoding/binary.littleEndian).Uint", "math/bits.", "bytes.Count", "go-ethereum/crypto.Keccak256", "common/math.Safe", "(*math/big.Int).Cmp", "(*math/big.Int).Sign", "(*math/big.Int).BitLen", "(*math/big.Int).IsUint64", "(*math/big.Int).Uint64", "uint256.Int).Cmp", "uint256.Int).IsZero", "uint256.Int).Lt", "uint256.Int).Gt", "uint256.Int).Eq", "uint256.Int).IsUint64", "uint256.Int).Uint64", "uint256.Int).Sign", "uint256.Int).BitLen"} {
		if strings.Contains(name, ro) {
			return
		}
	}
	if vc.prog != nil && vc.prog.isReadonlyArgs(name) && (callee == nil || callee.Signature.Recv() == nil) {
		return
	}
	if callee != nil && vc.libFrameKnown(callee, c, inLoop, note) {
		return
	}
	args := append([]ssa.Value{}, c.Args...)
	if mc, ok := c.Value.(*ssa.MakeClosure); ok {
		args = append(args, mc.Bindings...)
	}
	for _, a := range args {
		for {
			if mi, ok := a.(*ssa.MakeInterface); ok {
				a = mi.X
			} else if ci, ok := a.(*ssa.ChangeInterface); ok {
				a = ci.X
			} else {
				break
			}
		}
		if l, ok := vc.locs[a]; ok {
			note(l.comp, l.sort, "", false)
			continue
		}
		switch u := a.Type().Underlying().(type) {
		case *types.Pointer:
			vc.noteObjectTargets("", u.Elem(), false, note)
			seen := map[string]types.Type{}
			reachTypes(u.Elem(), seen, false)
			vc.noteTypes(seen, note)
		case *types.Slice:
			seen := map[string]types.Type{}
			reachTypes(u, seen, false)
			vc.noteTypes(seen, note)
			if !isObjectType(u.Elem()) {
				comp, srt := vc.elemComp(u.Elem())
				note(comp, srt, "", false)
			}
		}
	}
}

// ownTypes: the struct types (and cells) an object of type t is made of, not following pointers.
func ownTypes(t types.Type, seen map[string]types.Type) {
	if isUint256(t) || isBigInt(t) {
		seen["@cell:"+types.TypeString(t, nil)] = t
		return
	}
	switch u := t.Underlying().(type) {
	case *types.Struct:
		seen[types.TypeString(t, nil)] = t
		for i := 0; i < u.NumFields(); i++ {
			if isObjectType(u.Field(i).Type()) {
				ownTypes(u.Field(i).Type(), seen)
			}
		}
	case *types.Array:
		if isObjectType(u.Elem()) {
			ownTypes(u.Elem(), seen)
		} else {
			seen["@scalar:"+types.TypeString(u.Elem(), nil)] = u.Elem()
		}
	}
}

func (vc *FnVC) noteTypes(seen map[string]types.Type, note func(comp, sort, ref string, precise bool)) {
	for _, k := range sortedKeys(seen) {
		t := seen[k]
		if strings.HasPrefix(k, "@cell:") {
			c, s := vc.cellComp(t)
			note(c, s, "", false)
			continue
		}
		if strings.HasPrefix(k, "@scalar:") {
			c, s := vc.elemComp(t)
			if _, ok := vc.compSort[c]; ok {
				note(c, s, "", false)
			}
			continue
		}
		st := structOf(t)
		if st == nil {
			continue
		}
		for i := 0; i < st.NumFields(); i++ {
			if isObjectType(st.Field(i).Type()) {
				continue
			}
			c, s := vc.fieldComp(t, i)
			note(c, s, "", false)
		}
	}
}

// noteModItem: classify a callee's modifies item for loop havoc purposes.
func (vc *FnVC) noteModItem(item string, callee *ssa.Function, args []ssa.Value, inLoop func(ssa.Value) bool, note func(comp, sort, ref string, precise bool)) {
	item = strings.TrimSpace(item)
	if strings.HasPrefix(item, "typeof ") {
		env := &Env{vc: vc, vars: map[string]Term{}, pkg: callee.Pkg.Pkg}
		if mis, err := vc.elabModItem(env, item); err == nil {
			for _, m := range mis {
				note(m.comp, vc.compSortOf(m), "", false)
			}
		}
		return
	}
	base := strings.TrimPrefix(item, "*")
	for _, suf := range []string{"[..]"} {
		base = strings.TrimSuffix(base, suf)
	}
	if k := strings.IndexAny(base, ".["); k >= 0 {
		base = base[:k]
	}
	var arg ssa.Value
	var ptype types.Type
	for i, p := range callee.Params {
		if p.Name() == base && i < len(args) {
			arg = args[i]
			ptype = p.Type()
		}
	}
	if arg == nil {
		vc.errorf("loop havoc: cannot resolve modifies item %q of %s", item, callee.Name())
		return
	}
	simple := item == "*"+base || item == base+"[..]"
	precise := simple && !inLoop(arg)
	switch u := ptype.Underlying().(type) {
	case *types.Pointer:
		if item == "*"+base {
			ref := ""
			if precise {
				ref = vc.val(arg).S
			}
			vc.noteObjectTargets(ref, u.Elem(), precise, note)
			return
		}
		// field or nested: imprecise over the pointee type
		vc.noteObjectTargets("", u.Elem(), false, note)
		seen := map[string]types.Type{}
		reachTypes(u.Elem(), seen, false)
		vc.noteTypes(seen, note)
	case *types.Slice:
		if !isObjectType(u.Elem()) {
			c, s := vc.elemComp(u.Elem())
			ref := ""
			if precise {
				ref = fmt.Sprintf("(s.arr %s)", vc.val(arg).S)
			}
			// ranges are imprecise at index level but precise at array level when the slice is loop-invariant
			if !inLoop(arg) {
				note(c, s, fmt.Sprintf("(s.arr %s)", vc.val(arg).S), true)
			} else {
				note(c, s, ref, false)
			}
		}
	}
}

// libFrameKnown: library-modelled callees whose frame is known (e.g. big.Int methods
// write only their receiver's value).
func (vc *FnVC) libFrameKnown(callee *ssa.Function, c *ssa.CallCommon, inLoop func(ssa.Value) bool, note func(comp, sort, ref string, precise bool)) bool {
	if recv := callee.Signature.Recv(); recv != nil {
		rt := recv.Type()
		if pt, ok := rt.(*types.Pointer); ok {
			if isBigInt(pt.Elem()) || isUint256(pt.Elem()) {
				comp, srt := vc.cellComp(pt.Elem())
				if len(c.Args) > 0 && !inLoop(c.Args[0]) {
					note(comp, srt, vc.val(c.Args[0]).S, true)
				} else {
					note(comp, srt, "", false)
				}
				return true
			}
		}
	}
	return false
}
