package main

// Program loading: go/packages + go/ssa of /repo's working tree, contracts.

import (
	"bytes"
	"fmt"
	"go/ast"
	"go/printer"
	"go/token"
	"go/types"
	"os"
	"path/filepath"
	"sort"
	"strings"

	"golang.org/x/tools/go/packages"
	"golang.org/x/tools/go/ssa"
	"golang.org/x/tools/go/ssa/ssautil"
)

const modPrefix = "github.com/ethereum/go-ethereum/"

type Prog struct {
	fset      *token.FileSet
	pkgs      map[string]*packages.Package
	ssaProg   *ssa.Program
	ssaPkgs   map[string]*ssa.Package
	pkgByName map[string]*types.Package

	contracts map[string]*FuncContract // pkgpath + "#" + Key
	pures     map[string]*PureFunc     // pkgpath + "." + name
	files     []*ContractFile
	noEffect  []string
	pureObs   []string
	repoDir   string
	contractSource map[string]string // pkg -> "repo" | "mirror"

	astFiles map[*token.File]*ast.File
	exprCache map[token.Pos]string
	extraOverlay map[string][]byte
	bigConsts    map[string]string
	readonlyArgs []string
	freshResult  []string
	externs      map[string][]*FuncContract // assumed contracts on dependencies, by qualified name
}

// isFreshResult: constructors declared (directive fresh-result) to return a newly allocated object.
func (p *Prog) isFreshResult(name string) bool {
	for _, s := range p.freshResult {
		if strings.Contains(name, s) {
			return true
		}
	}
	return false
}

func (p *Prog) isReadonlyArgs(name string) bool {
	for _, s := range p.readonlyArgs {
		if strings.Contains(name, s) {
			return true
		}
	}
	return false
}

func repoDir() string {
	if d := os.Getenv("VERIF_REPO"); d != "" {
		return d
	}
	return "/repo"
}

func verifDir() string {
	if d := os.Getenv("VERIF_DIR"); d != "" {
		return d
	}
	return "/verif"
}

// LoadProg loads the given package directories (relative to the repo root, e.g. "core/vm").
func LoadProg(pkgDirs []string, extraOverlay map[string][]byte) (*Prog, error) {
	p := &Prog{
		pkgs: map[string]*packages.Package{}, ssaPkgs: map[string]*ssa.Package{}, pkgByName: map[string]*types.Package{},
		contracts: map[string]*FuncContract{}, pures: map[string]*PureFunc{}, repoDir: repoDir(),
		contractSource: map[string]string{}, exprCache: map[token.Pos]string{},
	}
	overlay := map[string][]byte{}
	p.extraOverlay = extraOverlay
	for k, v := range extraOverlay {
		overlay[k] = v
	}
	// contract files: prefer the copy in the repo; inject the mirror when absent.
	for _, d := range pkgDirs {
		repoFile := filepath.Join(p.repoDir, d, "zz_verif_contracts.go")
		mirror := filepath.Join(verifDir(), "contracts", d, "zz_verif_contracts.go")
		// The copy under /verif/contracts is authoritative (it is what this check was
		// developed against); the copy committed in the repository is used directly when
		// it is byte-identical, and is otherwise overridden through the overlay so that a
		// restored or stale repository never silently runs with other contracts.
		repoData, rerr := os.ReadFile(repoFile)
		mirrorData, merr := os.ReadFile(mirror)
		switch {
		case merr == nil && rerr == nil && bytes.Equal(repoData, mirrorData):
			p.contractSource[d] = "repo (identical to /verif/contracts mirror)"
		case merr == nil:
			overlay[repoFile] = mirrorData
			if rerr == nil {
				p.contractSource[d] = "mirror via overlay (repository copy differs)"
			} else {
				p.contractSource[d] = "mirror via overlay (no copy in repository)"
			}
		case rerr == nil:
			p.contractSource[d] = "repo (no mirror)"
		}
	}
	var patterns []string
	for _, d := range pkgDirs {
		patterns = append(patterns, "./"+d)
	}
	cfg := &packages.Config{
		Mode:       packages.LoadAllSyntax,
		Dir:        p.repoDir,
		BuildFlags: []string{"-tags=verif"},
		Overlay:    overlay,
		Env:        append(os.Environ(), "GOFLAGS=-mod=mod", "GOPROXY=off"),
	}
	pkgs, err := packages.Load(cfg, patterns...)
	if err != nil {
		return nil, err
	}
	var errs []string
	for _, pk := range pkgs {
		for _, e := range pk.Errors {
			errs = append(errs, e.Error())
		}
	}
	if len(errs) > 0 {
		return nil, fmt.Errorf("package load errors:\n%s", strings.Join(errs, "\n"))
	}
	p.fset = pkgs[0].Fset
	prog, spkgs := ssautil.AllPackages(pkgs, ssa.GlobalDebug)
	p.ssaProg = prog
	for i, pk := range pkgs {
		p.pkgs[pk.PkgPath] = pk
		if spkgs[i] != nil {
			spkgs[i].Build()
			p.ssaPkgs[pk.PkgPath] = spkgs[i]
		}
	}
	packages.Visit(pkgs, nil, func(pk *packages.Package) {
		if pk.Types != nil {
			if _, ok := p.pkgByName[pk.Types.Name()]; !ok || strings.HasPrefix(pk.PkgPath, modPrefix) {
				p.pkgByName[pk.Types.Name()] = pk.Types
			}
		}
	})
	// contracts
	for _, d := range pkgDirs {
		path := modPrefix + d
		repoFile := filepath.Join(p.repoDir, d, "zz_verif_contracts.go")
		var text []byte
		if data, ok := overlay[repoFile]; ok {
			text = data
		} else if data, err := os.ReadFile(repoFile); err == nil {
			text = data
		} else {
			continue
		}
		cf, err := ParseContractText(repoFile, path, string(text))
		if err != nil {
			return nil, err
		}
		p.files = append(p.files, cf)
		for _, f := range cf.Funcs {
			p.contracts[path+"#"+f.Key] = f
			if f.Extern {
				if p.externs == nil {
					p.externs = map[string][]*FuncContract{}
				}
				p.externs[f.ExternName] = append(p.externs[f.ExternName], f)
			}
		}
		for _, pf := range cf.Pures {
			p.pures[path+"."+pf.Name] = pf
		}
		for _, dr := range cf.Directives {
			switch dr.Kind {
			case "noeffect":
				p.noEffect = append(p.noEffect, dr.Arg)
			case "pure-observer":
				p.pureObs = append(p.pureObs, dr.Arg)
			case "readonly-args":
				p.readonlyArgs = append(p.readonlyArgs, dr.Arg)
			case "fresh-result":
				p.freshResult = append(p.freshResult, dr.Arg)
			case "bigconst":
				// directive bigconst <var> <value>: package-level *big.Int holding a constant
				fs := strings.Fields(dr.Arg)
				if len(fs) == 2 {
					if p.bigConsts == nil {
						p.bigConsts = map[string]string{}
					}
					p.bigConsts[path+"."+fs[0]] = fs[1]
				}
			}
		}
	}
	return p, nil
}

func (p *Prog) typesPkg(path string) *types.Package {
	if pk, ok := p.pkgs[path]; ok {
		return pk.Types
	}
	return nil
}

func (p *Prog) lookupPure(pkg *types.Package, name string) *PureFunc {
	if k := strings.Index(name, "."); k >= 0 {
		pn := name[:k]
		if tp, ok := p.pkgByName[pn]; ok {
			if pf, ok := p.pures[tp.Path()+"."+name[k+1:]]; ok {
				return pf
			}
		}
		return nil
	}
	if pkg != nil {
		if pf, ok := p.pures[pkg.Path()+"."+name]; ok {
			return pf
		}
	}
	// unique across packages?
	var found *PureFunc
	for k, pf := range p.pures {
		if strings.HasSuffix(k, "."+name) {
			if found != nil {
				return nil
			}
			found = pf
		}
	}
	return found
}

func funcKey(fn *ssa.Function) string {
	if recv := fn.Signature.Recv(); recv != nil {
		rt := recv.Type()
		if pt, ok := rt.(*types.Pointer); ok {
			rt = pt.Elem()
		}
		if n, ok := rt.(*types.Named); ok {
			return n.Obj().Name() + "." + fn.Name()
		}
	}
	return fn.Name()
}

func (p *Prog) contractFor(fn *ssa.Function) *FuncContract {
	if fn.Pkg == nil {
		return nil
	}
	return p.contracts[fn.Pkg.Pkg.Path()+"#"+funcKey(fn)]
}

// findFunc locates the SSA function for a contract.
func (p *Prog) findFunc(fc *FuncContract) *ssa.Function {
	sp := p.ssaPkgs[fc.Pkg]
	if sp == nil {
		return nil
	}
	if k := strings.Index(fc.Key, "."); k >= 0 {
		tn, mn := fc.Key[:k], fc.Key[k+1:]
		tm, ok := sp.Members[tn].(*ssa.Type)
		if !ok {
			return nil
		}
		nt := tm.Type()
		for _, t := range []types.Type{nt, types.NewPointer(nt)} {
			ms := p.ssaProg.MethodSets.MethodSet(t)
			for i := 0; i < ms.Len(); i++ {
				if ms.At(i).Obj().Name() == mn {
					f := p.ssaProg.MethodValue(ms.At(i))
					if f != nil && f.Synthetic == "" {
						return f
					}
				}
			}
		}
		// method may be unexported: lookup through the named type
		if named, ok := nt.(*types.Named); ok {
			for i := 0; i < named.NumMethods(); i++ {
				if named.Method(i).Name() == mn {
					return p.ssaProg.FuncValue(named.Method(i))
				}
			}
		}
		return nil
	}
	// a function literal: parent$N (go/ssa's name for the N-th literal inside parent)
	if k := strings.Index(fc.Key, "$"); k > 0 {
		parent, _ := sp.Members[fc.Key[:k]].(*ssa.Function)
		if parent == nil {
			return nil
		}
		for _, af := range parent.AnonFuncs {
			if af.Name() == fc.Key {
				return af
			}
		}
		return nil
	}
	f, _ := sp.Members[fc.Key].(*ssa.Function)
	return f
}

func (p *Prog) isPureObserver(name string) bool {
	for _, s := range p.pureObs {
		if strings.Contains(name, s) {
			return true
		}
	}
	return false
}

// closureIsEffectFree: the closure body contains no Store/MapUpdate and calls only
// no-effect functions / interface methods on tracing hooks.
func (p *Prog) closureIsEffectFree(fn *ssa.Function) bool {
	return p.effectFree(fn, 0)
}

func (p *Prog) effectFree(fn *ssa.Function, depth int) bool {
	if depth > 3 || fn.Blocks == nil {
		return false
	}
	tmp := &FnVC{prog: p}
	for _, b := range fn.Blocks {
		for _, in := range b.Instrs {
			switch in := in.(type) {
			case *ssa.Store:
				// stores to own locals are fine
				if _, ok := in.Addr.(*ssa.Alloc); ok {
					continue
				}
				if fa, ok := in.Addr.(*ssa.FieldAddr); ok {
					if _, ok := fa.X.(*ssa.Alloc); ok {
						continue
					}
				}
				if ia, ok := in.Addr.(*ssa.IndexAddr); ok {
					if _, ok := ia.X.(*ssa.Alloc); ok {
						continue
					}
				}
				return false
			case *ssa.MapUpdate, *ssa.Send, *ssa.Go, *ssa.Defer:
				return false
			case *ssa.Call:
				name := calleeName(&in.Call)
				if _, ok := in.Call.Value.(*ssa.Builtin); ok {
					continue
				}
				if tmp.isNoEffect(name) || p.isPureObserver(name) {
					continue
				}
				if strings.Contains(name, "tracing.") || strings.Contains(name, "Hooks") {
					continue
				}
				if callee := in.Call.StaticCallee(); callee != nil && callee.Pkg != nil && strings.HasPrefix(callee.Pkg.Pkg.Path(), modPrefix) {
					if p.effectFree(callee, depth+1) {
						continue
					}
				}
				// calls of func-typed struct fields of tracing.Hooks
				if !in.Call.IsInvoke() && in.Call.StaticCallee() == nil {
					if strings.Contains(in.Call.Value.Type().String(), "tracing.") {
						continue
					}
					if u, ok := in.Call.Value.(*ssa.UnOp); ok {
						if fa, ok := u.X.(*ssa.FieldAddr); ok && strings.Contains(fa.X.Type().String(), "tracing.Hooks") {
							continue
						}
					}
				}
				return false
			}
		}
	}
	return true
}

// sourceText returns the source text of the expression at the instruction's position
// (used in obligation names so they survive unrelated edits).
func (p *Prog) sourceText(in ssa.Instruction) string {
	pos := in.Pos()
	if !pos.IsValid() {
		return ""
	}
	if s, ok := p.exprCache[pos]; ok {
		return s
	}
	s := p.exprAt(in, pos)
	p.exprCache[pos] = s
	return s
}

func (p *Prog) fileFor(pos token.Pos) *ast.File {
	tf := p.fset.File(pos)
	if tf == nil {
		return nil
	}
	if p.astFiles == nil {
		p.astFiles = map[*token.File]*ast.File{}
		for _, pk := range p.pkgs {
			for _, f := range pk.Syntax {
				p.astFiles[p.fset.File(f.Pos())] = f
			}
		}
	}
	return p.astFiles[tf]
}

func (p *Prog) exprAt(in ssa.Instruction, pos token.Pos) string {
	f := p.fileFor(pos)
	if f == nil {
		return ""
	}
	// find the smallest expression node whose "operator position" matches pos
	var best ast.Node
	ast.Inspect(f, func(n ast.Node) bool {
		if n == nil {
			return false
		}
		if pos < n.Pos() || pos >= n.End() {
			return false
		}
		match := false
		switch x := n.(type) {
		case *ast.BinaryExpr:
			match = x.OpPos == pos
		case *ast.IndexExpr:
			match = x.Lbrack == pos
		case *ast.SliceExpr:
			match = x.Lbrack == pos
		case *ast.CallExpr:
			match = x.Lparen == pos
		case *ast.UnaryExpr:
			match = x.OpPos == pos
		case *ast.StarExpr:
			match = x.Star == pos
		case *ast.SelectorExpr:
			match = x.Sel.Pos() == pos
		case *ast.IncDecStmt:
			match = x.TokPos == pos
		case *ast.AssignStmt:
			match = x.TokPos == pos
		case *ast.Ident:
			match = x.Pos() == pos
		case *ast.CompositeLit:
			match = x.Lbrace == pos
		}
		if as, ok := n.(*ast.AssignStmt); ok && as.Pos() == pos && as.Tok != token.ASSIGN && as.Tok != token.DEFINE {
			match = true
		}
		if ids, ok := n.(*ast.IncDecStmt); ok && ids.Pos() == pos {
			match = true
		}
		if _, isId := n.(*ast.Ident); isId && best != nil {
			match = false
		}
		if match {
			best = n
		}
		return true
	})
	if best == nil {
		return ""
	}
	var buf bytes.Buffer
	printer.Fprint(&buf, p.fset, best)
	s := strings.Join(strings.Fields(buf.String()), " ")
	if len(s) > 80 {
		s = s[:77] + "..."
	}
	return s
}

func (p *Prog) allContracts() []*FuncContract {
	var out []*FuncContract
	for _, f := range p.files {
		out = append(out, f.Funcs...)
	}
	sort.SliceStable(out, func(i, j int) bool {
		if out[i].Pkg != out[j].Pkg {
			return out[i].Pkg < out[j].Pkg
		}
		return out[i].Line < out[j].Line
	})
	return out
}
