package main

// Zero-annotation safety sweep.
//
// `govc sweep --pkgs a,b [--match substr]` gives every function of the named packages that
// has no contract an empty one (no requires, no ensures, may write anything) and checks only
// the run-time safety obligations the generator emits by itself: index and slice bounds, nil
// dereference, division by zero, explicit panics. A refuted obligation is replayed against
// the real function with the solver's (small) witness; only replays in which the real
// function panics are reported. The sweep is a finder, not a check: it is not part of any
// registered command and proves nothing; what it finds is triaged by hand (is the input
// reachable from a caller?) before it is called a defect.

import (
	"fmt"
	"os"
	"path/filepath"
	"sort"
	"strings"
	"sync"

	"golang.org/x/tools/go/ssa"
)

func runSweep(pkgs []string, match string, verbose bool) int {
	prog, err := LoadProg(pkgs, nil)
	if err != nil {
		fmt.Println("ENGINE-ERROR load:", err)
		return 2
	}
	solver, err := NewSolver(6, false)
	if err != nil {
		fmt.Println("ENGINE-ERROR", err)
		return 2
	}
	defer solver.Close()
	var fns []*ssa.Function
	for _, path := range pkgs {
		full := path
		if !strings.Contains(full, ".") {
			full = modPrefix + path
		}
		sp := prog.ssaPkgs[full]
		if sp == nil {
			fmt.Println("no such package", full)
			continue
		}
		seen := map[*ssa.Function]bool{}
		add := func(f *ssa.Function) {
			if f == nil || seen[f] || f.Blocks == nil || f.Synthetic != "" || f.TypeParams().Len() > 0 {
				return
			}
			if strings.HasPrefix(f.Name(), "verifLemma") || strings.HasPrefix(f.Name(), "init") {
				return
			}
			if pos := prog.fset.Position(f.Pos()); strings.HasSuffix(pos.Filename, "_test.go") || strings.HasSuffix(pos.Filename, "zz_verif_contracts.go") {
				return
			}
			if match != "" && !strings.Contains(f.String(), match) {
				return
			}
			seen[f] = true
			fns = append(fns, f)
		}
		for _, m := range sp.Members {
			switch m := m.(type) {
			case *ssa.Function:
				add(m)
			case *ssa.Type:
				for _, t := range []interface{ String() string }{} {
					_ = t
				}
				ms := prog.ssaProg.MethodSets.MethodSet(m.Type())
				for i := 0; i < ms.Len(); i++ {
					add(prog.ssaProg.MethodValue(ms.At(i)))
				}
				// pointer receiver methods
				pms := prog.ssaProg.MethodSets.MethodSet(ptrTo(m.Type()))
				for i := 0; i < pms.Len(); i++ {
					add(prog.ssaProg.MethodValue(pms.At(i)))
				}
			}
		}
	}
	sort.Slice(fns, func(i, j int) bool { return fns[i].String() < fns[j].String() })
	fmt.Printf("sweep: %d functions\n", len(fns))
	type hit struct {
		fn, ob, status string
		detail         map[string]interface{}
		file           string
	}
	var mu sync.Mutex
	var hits []hit
	nOb, nRefuted, nSkipped := 0, 0, 0
	sem := make(chan struct{}, 8)
	var wg sync.WaitGroup
	outDir := filepath.Join(verifDir(), "sweep")
	os.MkdirAll(outDir, 0o755)
	// phase 1 (sequential: the program's caches are not synchronised): generate
	var vcs []*FnVC
	for _, fn := range fns {
		if fc := prog.contractFor(fn); fc != nil {
			continue
		}
		fc := &FuncContract{Pkg: fn.Pkg.Pkg.Path(), Key: funcKey(fn), Arith: "int", Mutates: true, MayPanic: true}
		for _, p := range fn.Params {
			fc.Params = append(fc.Params, p.Name())
		}
		vc := newFnVC(prog, fn, fc)
		vc.sweep = true
		ok := true
		func() {
			defer func() {
				if r := recover(); r != nil {
					ok = false
				}
			}()
			vc.Translate()
		}()
		if !ok || len(vc.errs) > 0 {
			nSkipped++
			continue
		}
		vcs = append(vcs, vc)
	}
	// phase 2 (parallel): discharge and replay
	for _, vc := range vcs {
		vc := vc
		fn := vc.fn
		wg.Add(1)
		go func() {
			defer wg.Done()
			sem <- struct{}{}
			defer func() { <-sem }()
			for _, o := range vc.obligs {
				if o.Expect == "sat" || (o.Kind != "bounds" && o.Kind != "nil" && o.Kind != "unreachable") {
					continue
				}
				o.Inputs = vc.inputs
				r := solver.Solve(o)
				mu.Lock()
				nOb++
				mu.Unlock()
				if r.Status != "sat" || len(r.Model) == 0 {
					continue
				}
				if small := smallModel(solver, o); small != nil {
					r = small
				}
				rp := filepath.Join(outDir, sanitize(o.Name)+".json")
				mu.Lock()
				confirmed, detail := replayModel(prog, o, r, rp)
				nRefuted++
				if confirmed {
					hits = append(hits, hit{fnDisplayName(fn), o.Name, fmt.Sprint(detail["status"]), detail, rp})
				} else if verbose {
					fmt.Printf("  refuted, not confirmed: %s : %v\n", o.Name, detail["status"])
				}
				mu.Unlock()
				if confirmed {
					return
				}
			}
		}()
	}
	wg.Wait()
	sort.Slice(hits, func(i, j int) bool { return hits[i].ob < hits[j].ob })
	for _, h := range hits {
		fmt.Printf("SWEEP-HIT %s\n    %s\n", h.ob, h.status)
		if in, ok := h.detail["inputs"]; ok {
			fmt.Printf("    inputs: %v\n", in)
		}
	}
	fmt.Printf("sweep: functions=%d skipped(outside subset)=%d safety-obligations=%d refuted=%d confirmed-by-replay=%d\n", len(fns), nSkipped, nOb, nRefuted, len(hits))
	return 0
}
